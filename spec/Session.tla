------------------------------- MODULE Session -------------------------------
(***************************************************************************)
(* The go-mail SMTP client session (client.go, client_120.go, smtp/smtp.go)*)
(* composed with an adversarial environment: reply classes at every        *)
(* command, disconnects, render faults.  One action per protocol step of   *)
(* the code (file:line in DESIGN.md, appendix B).  Every action emits the  *)
(* events a recorder on the wire / on the API would see and feeds them to  *)
(* the observer (SessionObs.tla); the properties are the observer's        *)
(* predicates, checked here as the invariant  obs.viol = {}.               *)
(*                                                                         *)
(* This is the *intended* design.  Deviations that the pinned code showed  *)
(* are named DEV_* constants: with a deviation switched on TLC must find   *)
(* the corresponding violation (used as a sensitivity test of the          *)
(* predicates, never for verdicts).                                        *)
(***************************************************************************)
EXTENDS SessionObs, Json, SequencesExt

CONSTANTS
  OP,            \* "Send" (dial without faults, Send, Close), "DialAndSend", "Dial"
  N,             \* messages in the batch
  MAXR,          \* recipients per message: 1..MAXR
  BUDGET,        \* number of non-default environment choices (faults)
  CAPSETS,       \* set of capability sets the server may advertise
  RENDERKINDS,   \* render outcomes beside "ok"
  ENC8,          \* may messages be 8bit encoded?  BOOLEAN subset
  DSNS,          \* client DSN configurations, subset of {"off","ret","notify","both"}
  NONOOP,        \* subset of BOOLEAN: WithoutNoop
  SHAPES,        \* reply text shapes: subset of {"lead","later","none"}
  CLASSES,       \* fault classes: subset of {"t4","p5","drop","x3"}
  CODESETS,      \* rotations of the reply-code table, subset of 0..99
  DEV_ImplicitDot, DEV_NoRsetAfterDataReject, DEV_ContinueAfterRsetFail,
  DEV_LeakOnDialError, DEV_QuitFailureLeavesConn

VARIABLES pc, m, r, ext, dead, rej, dl, se, top, budget, nfault, dotOpen,
          cfg, obs, hist, pred

vars == <<pc, m, r, ext, dead, rej, dl, se, top, budget, nfault, dotOpen, cfg, obs, hist, pred>>

NoErr == [haserr |-> FALSE, reason |-> "", code |-> 0, temp |-> FALSE, esc |-> "", rcpts |-> <<>>]

(* Reply codes of the n-th fault: cfg.cs rotates through the code space so that     *)
(* boundary codes (400, 499, 500, 599) and, in the sweep configurations, every     *)
(* code 400..599 occur at every position; the codes of one scenario are distinct.  *)
CodeOf(cls, k) == IF cls = "t4" THEN 400 + ((cfg.cs + 33 * (k - 1)) % 100)
                  ELSE IF cls = "p5" THEN 500 + ((cfg.cs + 33 * (k - 1)) % 100)
                  ELSE IF cls = "x3" THEN 330 + k ELSE 0
EscOf(cls, k)  == IF cls = "t4" THEN <<"4.5.1", "4.5.2", "4.5.3", "4.5.4">>[k]
                  ELSE IF cls = "p5" THEN <<"5.5.1", "5.5.2", "5.5.3", "5.5.4">>[k] ELSE ""
OkCode(v) == CASE v = "DATA" -> 354 [] v = "QUIT" -> 221 [] v = "GREET" -> 220 [] OTHER -> 250

EnvChoices == {[c |-> "ok", sh |-> "none"]} \cup
           (IF budget > 0 THEN {[c |-> c, sh |-> IF c = "drop" THEN "none" ELSE s] : c \in CLASSES, s \in SHAPES}
            ELSE {})

(* what the client stores for a failed step *)
ErrOf(reason, ch, k, rc) ==
  [haserr |-> TRUE, reason |-> reason, temp |-> ch.c = "t4",
   code |-> IF ch.c \in {"t4", "p5"} THEN CodeOf(ch.c, k) ELSE 0,   \* only 4yz / 5yz codes are reported
   esc |-> IF "ENHANCEDSTATUSCODES" \in ext /\ ch.sh = "lead" THEN EscOf(ch.c, k) ELSE "",
   rcpts |-> rc]
LocalErr(reason) == [NoErr EXCEPT !.haserr = TRUE, !.reason = reason]

CmdEv(v, mm, rr, params) ==
  [ev |-> "cmd", verb |-> v, m |-> mm, r |-> rr, params |-> params, enc |-> FALSE, cred |-> FALSE, mech |-> ""]

ReplyEv(v, ch, k, caps) ==
  IF ch.c = "drop" THEN [ev |-> "drop"]
  ELSE [ev |-> "reply",
        code |-> IF ch.c = "ok" THEN OkCode(v) ELSE CodeOf(ch.c, k),
        cls  |-> ch.c,
        esc  |-> IF ch.c # "ok" /\ ch.sh = "lead" THEN EscOf(ch.c, k) ELSE "",
        caps |-> caps]

(* client sends a command line; a pending open dot-writer is terminated    *)
(* first (textproto closeDot) - only reachable under DEV_ImplicitDot       *)
ImplicitDot(o) ==
  IF dotOpen > 0 THEN Observe(Observe(o, [ev |-> "eod", m |-> dotOpen, content |-> "prefix"]),
                          [ev |-> "reply", code |-> 250, cls |-> "ok", esc |-> "", caps |-> <<>>])
  ELSE o

(* One command/reply exchange with environment choice ch.  The `wrong`     *)
(* reply consumed after an implicit dot is not modelled further: the       *)
(* observer already flags the committed prefix.                            *)
Xchg(v, mm, rr, params, ch, caps) ==
  /\ obs' = Observe(Observe(ImplicitDot(obs), CmdEv(v, mm, rr, params)), ReplyEv(v, ch, nfault + 1, caps))
  /\ dotOpen' = 0
  /\ pred' = Append(pred, ProjOf(ImplicitDot(obs), CmdEv(v, mm, rr, params)))
  /\ IF ch.c = "ok" THEN UNCHANGED <<budget, nfault, hist>>
     ELSE /\ budget' = budget - 1 /\ nfault' = nfault + 1
          /\ hist' = Append(hist, [v |-> v, m |-> mm, r |-> rr, c |-> ch.c, sh |-> ch.sh])

Params(v) ==
  IF v = "MAIL" THEN
        (IF "8BITMIME" \in ext THEN <<"BODY">> ELSE <<>>)
     \o (IF "SMTPUTF8" \in ext THEN <<"SMTPUTF8">> ELSE <<>>)
     \o (IF "DSN" \in ext /\ cfg.dsn \in {"ret", "both"} THEN <<"RET">> ELSE <<>>)
  ELSE IF v = "RCPT" THEN
        (IF "DSN" \in ext /\ cfg.dsn \in {"notify", "both"} THEN <<"NOTIFY">> ELSE <<>>)
  ELSE <<>>

CloseConn(o) == Observe(o, [ev |-> "cclose"])
Quiet == UNCHANGED <<budget, nfault, hist, dotOpen, pred>>

-----------------------------------------------------------------------------
Cfgs ==
  {[op |-> OP, nr |-> nr, enc8 |-> e8, rf |-> rf, caps |-> cs, dsn |-> d, nonoop |-> nn, cs |-> rot,
    policy |-> "none", authtype |-> "NOAUTH", noenc |-> FALSE, hostkind |-> "other", logauth |-> FALSE] :
     nr \in [1..N -> 1..MAXR], e8 \in [1..N -> ENC8], rf \in [1..N -> {"ok"} \cup RENDERKINDS],
     cs \in CAPSETS, d \in DSNS, nn \in NONOOP, rot \in CODESETS}

Init ==
  /\ cfg \in Cfgs
  /\ pc = "dial" /\ m = 1 /\ r = 1 /\ ext = {} /\ dead = FALSE /\ rej = <<>>
  /\ dl = [i \in 1..N |-> FALSE] /\ se = [i \in 1..N |-> NoErr] /\ top = ""
  /\ budget = BUDGET /\ nfault = 0 /\ dotOpen = 0
  /\ obs = Observe(InitObs, [ev |-> "begin", cfg |-> cfg])
  /\ hist = <<>> /\ pred = <<>>

DialFaults == OP # "Send"     \* in Send mode the dial is the clean prefix
DialChoices == IF DialFaults THEN EnvChoices ELSE {[c |-> "ok", sh |-> "none"]}

-----------------------------------------------------------------------------
(* dial phase: client.go:1003 DialToSMTPClientWithContext                  *)

DialConnect ==
  /\ pc = "dial"
  /\ obs' = Observe(Observe(obs, [ev |-> "call", op |-> IF OP = "Send" THEN "Dial" ELSE OP]), [ev |-> "open"])
  /\ pc' = "greeting"
  /\ Quiet /\ UNCHANGED <<m, r, ext, dead, rej, dl, se, top, cfg>>

(* smtp.NewClient reads the greeting and closes the connection itself when *)
(* it is not a 220                                                         *)
ReadGreeting ==
  /\ pc = "greeting"
  /\ \E ch \in DialChoices :
       LET g == IF ch.c = "drop" THEN [ev |-> "drop"]
                ELSE [ev |-> "greet", cls |-> ch.c, early |-> FALSE,
                      code |-> IF ch.c = "ok" THEN 220 ELSE CodeOf(ch.c, nfault + 1)] IN
       /\ IF ch.c = "ok" THEN /\ obs' = Observe(obs, g) /\ pc' = "ehlo"
                              /\ UNCHANGED <<budget, nfault, hist, top, dead>>
          ELSE /\ obs' = CloseConn(Observe(obs, g)) /\ pc' = "dialRet" /\ top' = "dial" /\ dead' = TRUE
               /\ budget' = budget - 1 /\ nfault' = nfault + 1
               /\ hist' = Append(hist, [v |-> "GREET", m |-> 0, r |-> 0, c |-> ch.c, sh |-> ch.sh])
  /\ UNCHANGED <<m, r, ext, rej, dl, se, cfg, dotOpen, pred>>

CmdEhlo ==
  /\ pc = "ehlo"
  /\ \E ch \in DialChoices :
       /\ Xchg("EHLO", 0, 1, <<>>, ch, IF ch.c = "ok" THEN SetToSeq(cfg.caps) ELSE <<>>)
       /\ IF ch.c = "ok" THEN ext' = cfg.caps /\ pc' = "dialOK" /\ UNCHANGED <<dead, top>>
          ELSE IF ch.c = "drop" THEN /\ dead' = TRUE /\ pc' = "helo" /\ UNCHANGED <<ext, top>>
          ELSE pc' = "helo" /\ UNCHANGED <<ext, dead, top>>
  /\ UNCHANGED <<m, r, rej, dl, se, cfg>>

(* smtp.go:148 hello(): any EHLO error -> HELO; only the HELO error counts *)
CmdHelo ==
  /\ pc = "helo"
  /\ IF dead
     THEN /\ obs' = IF DEV_LeakOnDialError THEN obs ELSE CloseConn(obs)
          /\ pc' = "dialRet" /\ top' = "dial" /\ Quiet /\ UNCHANGED <<ext, dead>>
     ELSE \E ch \in DialChoices :
          IF ch.c = "ok"
          THEN /\ Xchg("HELO", 0, 1, <<>>, ch, <<>>) /\ ext' = {} /\ pc' = "dialOK" /\ UNCHANGED <<dead, top>>
          ELSE /\ LET o2 == Observe(Observe(obs, CmdEv("HELO", 0, 1, <<>>)), ReplyEv("HELO", ch, nfault + 1, <<>>))
                  IN obs' = IF DEV_LeakOnDialError THEN o2 ELSE CloseConn(o2)
               /\ pred' = Append(pred, ProjOf(obs, CmdEv("HELO", 0, 1, <<>>)))
               /\ budget' = budget - 1 /\ nfault' = nfault + 1
               /\ hist' = Append(hist, [v |-> "HELO", m |-> 0, r |-> 1, c |-> ch.c, sh |-> ch.sh])
               /\ dead' = TRUE /\ pc' = "dialRet" /\ top' = "dial" /\ UNCHANGED <<ext, dotOpen>>
  /\ UNCHANGED <<m, r, rej, dl, se, cfg>>

(* TLS policy and AUTH are refined in SessionDial.tla; here: none / NOAUTH *)
DialOK ==
  /\ pc = "dialOK"
  /\ IF OP = "DialAndSend" THEN pc' = "sendBegin" /\ obs' = obs
     ELSE /\ obs' = Observe(obs, [ev |-> "ret", op |-> "Dial", err |-> FALSE, elapsed |-> "within"])
          /\ pc' = IF OP = "Send" THEN "sendBegin" ELSE "quit"
  /\ Quiet /\ UNCHANGED <<m, r, ext, dead, rej, dl, se, top, cfg>>

DialRet ==     \* failed dial
  /\ pc = "dialRet"
  /\ obs' = Observe(obs, [ev |-> "ret", op |-> IF OP = "Send" THEN "Dial" ELSE OP, err |-> TRUE,
                          elapsed |-> "within"])
  /\ pc' = "done"
  /\ Quiet /\ UNCHANGED <<m, r, ext, dead, rej, dl, se, top, cfg>>

-----------------------------------------------------------------------------
(* send phase: client_120.go:34 SendWithSMTPClient, client.go:1368          *)

SendBegin ==
  /\ pc = "sendBegin"
  /\ obs' = IF OP = "Send" THEN Observe(obs, [ev |-> "call", op |-> "Send"]) ELSE obs
  /\ pc' = IF cfg.nonoop THEN "msgStart" ELSE "noop0"
  /\ Quiet /\ UNCHANGED <<m, r, ext, dead, rej, dl, se, top, cfg>>

(* checkConn: NOOP; failure = ErrConnCheck, nothing is attempted *)
Noop0 ==
  /\ pc = "noop0"
  /\ \E ch \in EnvChoices :
       /\ Xchg("NOOP", 0, 0, <<>>, ch, <<>>)
       /\ IF ch.c = "ok" THEN pc' = "msgStart" /\ UNCHANGED <<top, dead>>
          ELSE pc' = "sendRet" /\ top' = "conncheck" /\ dead' = (dead \/ ch.c = "drop")
  /\ UNCHANGED <<m, r, ext, rej, dl, se, cfg>>

MsgStart ==
  /\ pc = "msgStart"
  /\ IF m > N THEN pc' = "sendRet" /\ UNCHANGED <<se, m>>
     ELSE IF cfg.enc8[m] /\ "8BITMIME" \notin ext
          THEN se' = [se EXCEPT ![m] = LocalErr("noenc")] /\ m' = m + 1 /\ pc' = "msgStart"
          ELSE pc' = "mail" /\ UNCHANGED <<se, m>>
  /\ Quiet /\ UNCHANGED <<r, ext, dead, rej, dl, top, cfg, obs>>

(* a command on a connection that is gone fails locally: nothing on the wire *)
DeadStep(reason) ==
  /\ se' = [se EXCEPT ![m] = IF @.haserr THEN @ ELSE LocalErr(reason)]
  /\ pc' = "nextMsg"
  /\ Quiet /\ UNCHANGED <<m, r, ext, dead, rej, dl, top, cfg, obs>>

CmdMail ==
  /\ pc = "mail"
  /\ IF dead THEN DeadStep("mail") ELSE
     \E ch \in EnvChoices :
       /\ Xchg("MAIL", m, 0, Params("MAIL"), ch, <<>>)
       /\ IF ch.c = "ok" THEN pc' = "rcpt" /\ r' = 1 /\ rej' = <<>> /\ UNCHANGED <<se, dead>>
          ELSE /\ se' = [se EXCEPT ![m] = ErrOf("mail", ch, nfault + 1, <<>>)]
               /\ dead' = (ch.c = "drop") /\ pc' = "failRset" /\ UNCHANGED <<r, rej>>
       /\ UNCHANGED <<m, ext, dl, top, cfg>>

(* every recipient is tried; the last rejection decides code and class *)
CmdRcpt ==
  /\ pc = "rcpt"
  /\ IF dead
     THEN /\ se' = [se EXCEPT ![m] = [LocalErr("rcpt") EXCEPT !.rcpts = Append(rej, r)]]
          /\ rej' = Append(rej, r)
          /\ IF r < cfg.nr[m] THEN r' = r + 1 /\ pc' = "rcpt" ELSE r' = r /\ pc' = "failRset"
          /\ Quiet /\ UNCHANGED <<m, ext, dead, dl, top, cfg, obs>>
     ELSE \E ch \in EnvChoices :
       /\ Xchg("RCPT", m, r, Params("RCPT"), ch, <<>>)
       /\ IF ch.c = "ok" THEN UNCHANGED <<se, rej, dead>>
          ELSE /\ rej' = Append(rej, r)
               /\ se' = [se EXCEPT ![m] = ErrOf("rcpt", ch, nfault + 1, Append(rej, r))]
               /\ dead' = (ch.c = "drop")
       /\ IF r < cfg.nr[m] THEN r' = r + 1 /\ pc' = "rcpt"
          ELSE r' = r /\ pc' = IF rej' = <<>> THEN "data" ELSE "failRset"
       /\ UNCHANGED <<m, ext, dl, top, cfg>>

CmdData ==
  /\ pc = "data"
  /\ IF dead THEN DeadStep("data") ELSE
     \E ch \in EnvChoices :
       /\ Xchg("DATA", m, 0, <<>>, ch, <<>>)
       /\ IF ch.c = "ok" THEN pc' = "content" /\ UNCHANGED <<se, dead>>
          ELSE /\ se' = [se EXCEPT ![m] = ErrOf("data", ch, nfault + 1, <<>>)]
               /\ dead' = (ch.c = "drop")
               /\ pc' = IF DEV_NoRsetAfterDataReject THEN "nextMsg" ELSE "failRset"
       /\ UNCHANGED <<m, r, ext, rej, dl, top, cfg>>

(* msg.go:2228 WriteTo into the dot-writer.  A render failure after DATA   *)
(* cannot be taken back inside the protocol: the intended design closes    *)
(* the connection so that the server discards the fragment.                *)
WriteContent ==
  /\ pc = "content"
  /\ IF cfg.rf[m] = "ok" THEN pc' = "closeData" /\ UNCHANGED <<se, dead, obs, dotOpen>>
     ELSE /\ se' = [se EXCEPT ![m] = LocalErr("writecontent")]
          /\ pc' = "nextMsg"
          /\ IF DEV_ImplicitDot THEN dotOpen' = m /\ UNCHANGED <<obs, dead>>
             ELSE obs' = CloseConn(obs) /\ dead' = TRUE /\ UNCHANGED dotOpen
  /\ UNCHANGED <<m, r, ext, rej, dl, top, cfg, budget, nfault, hist, pred>>

(* smtp.go:400 dataCloser.Close: "." and the reply to it *)
CloseData ==
  /\ pc = "closeData"
  /\ \E ch \in EnvChoices :
       /\ obs' = Observe(Observe(obs, [ev |-> "eod", m |-> m, content |-> "complete"]),
                         ReplyEv("EOD", ch, nfault + 1, <<>>))
       /\ pred' = Append(pred, [v |-> "EOD", m |-> m, r |-> 0])
       /\ IF ch.c = "ok" THEN /\ dl' = [dl EXCEPT ![m] = TRUE] /\ pc' = "postNoop"
                              /\ UNCHANGED <<se, dead, budget, nfault, hist>>
          ELSE /\ se' = [se EXCEPT ![m] = ErrOf("dataclose", ch, nfault + 1, <<>>)]
               /\ dead' = (ch.c = "drop") /\ pc' = "nextMsg" /\ UNCHANGED dl
               /\ budget' = budget - 1 /\ nfault' = nfault + 1
               /\ hist' = Append(hist, [v |-> "EOD", m |-> m, r |-> 0, c |-> ch.c, sh |-> ch.sh])
  /\ UNCHANGED <<m, r, ext, rej, top, cfg, dotOpen>>

(* client.go:1459 ResetWithSMTPClient after delivery: checkConn + RSET *)
PostNoop ==
  /\ pc = "postNoop"
  /\ IF cfg.nonoop THEN pc' = "postRset" /\ Quiet /\ UNCHANGED <<se, dead, obs>>
     ELSE \E ch \in EnvChoices :
       /\ Xchg("NOOP", m, 0, <<>>, ch, <<>>)
       /\ IF ch.c = "ok" THEN pc' = "postRset" /\ UNCHANGED <<se, dead>>
          ELSE /\ se' = [se EXCEPT ![m] = LocalErr("reset")]
               /\ dead' = (ch.c = "drop") /\ pc' = "nextMsg"
  /\ UNCHANGED <<m, r, ext, rej, dl, top, cfg>>

PostRset ==
  /\ pc = "postRset"
  /\ \E ch \in EnvChoices :
       /\ Xchg("RSET", m, 0, <<>>, ch, <<>>)
       /\ IF ch.c = "ok" THEN UNCHANGED <<se, dead>>
          ELSE se' = [se EXCEPT ![m] = ErrOf("reset", ch, nfault + 1, <<>>)] /\ dead' = (ch.c = "drop")
       /\ pc' = "nextMsg"
  /\ UNCHANGED <<m, r, ext, rej, dl, top, cfg>>

(* RSET that abandons a failed transaction.  If the server refuses even    *)
(* that, its transaction state is unknown: the intended design closes.     *)
FailRset ==
  /\ pc = "failRset"
  /\ IF dead THEN pc' = "nextMsg" /\ Quiet /\ UNCHANGED <<dead, obs>>
     ELSE \E ch \in EnvChoices :
       /\ pc' = "nextMsg"
       /\ IF ch.c = "ok" \/ DEV_ContinueAfterRsetFail
          THEN Xchg("RSET", m, 0, <<>>, ch, <<>>) /\ dead' = (ch.c = "drop")
          ELSE /\ obs' = CloseConn(Observe(Observe(obs, CmdEv("RSET", m, 0, <<>>)), ReplyEv("RSET", ch, nfault + 1, <<>>)))
               /\ pred' = Append(pred, ProjOf(obs, CmdEv("RSET", m, 0, <<>>)))
               /\ budget' = budget - 1 /\ nfault' = nfault + 1
               /\ hist' = Append(hist, [v |-> "RSET", m |-> m, r |-> 0, c |-> ch.c, sh |-> ch.sh])
               /\ dead' = TRUE /\ UNCHANGED dotOpen
  /\ UNCHANGED <<m, r, ext, rej, dl, se, top, cfg>>

NextMsg ==
  /\ pc = "nextMsg" /\ m' = m + 1 /\ pc' = "msgStart"
  /\ Quiet /\ UNCHANGED <<r, ext, dead, rej, dl, se, top, cfg, obs>>

RetEv(op) ==
  LET failed == {i \in 1..N : se[i].haserr} IN
  [ev |-> "ret", op |-> op, err |-> (top # "" \/ failed # {}), elapsed |-> "within", top |-> top,
   nerrs |-> IF top # "" THEN 1 ELSE Cardinality(failed),
   msgs |-> [i \in 1..N |-> [delivered |-> dl[i], haserr |-> se[i].haserr, reason |-> se[i].reason,
                             code |-> se[i].code, temp |-> se[i].temp, esc |-> se[i].esc,
                             rcpts |-> se[i].rcpts]]]

SendRet ==
  /\ pc = "sendRet"
  /\ IF OP = "Send" THEN obs' = Observe(obs, RetEv("Send")) ELSE obs' = obs
  /\ pc' = "quit"
  /\ Quiet /\ UNCHANGED <<m, r, ext, dead, rej, dl, se, top, cfg>>

(* Client.Close / end of DialAndSend: QUIT; the transport is closed        *)
(* whatever the server answers                                             *)
CmdQuit ==
  /\ pc = "quit"
  /\ IF dead
     THEN /\ pc' = "finalRet" /\ Quiet /\ UNCHANGED <<dead, top>>
          \* QUIT cannot be sent any more; the transport is released all the same
          /\ obs' = IF obs.conn = "open" /\ ~DEV_QuitFailureLeavesConn THEN CloseConn(obs) ELSE obs
     ELSE \E ch \in EnvChoices :
       /\ pc' = "finalRet"
       /\ IF ch.c = "ok" \/ ~DEV_QuitFailureLeavesConn
          THEN /\ obs' = CloseConn(Observe(Observe(ImplicitDot(obs), CmdEv("QUIT", 0, 0, <<>>)), ReplyEv("QUIT", ch, nfault + 1, <<>>)))
               /\ dead' = TRUE
          ELSE /\ obs' = Observe(Observe(ImplicitDot(obs), CmdEv("QUIT", 0, 0, <<>>)), ReplyEv("QUIT", ch, nfault + 1, <<>>))
               /\ dead' = dead
       /\ dotOpen' = 0
       /\ pred' = Append(pred, ProjOf(obs, CmdEv("QUIT", 0, 0, <<>>)))
       /\ IF ch.c = "ok" THEN UNCHANGED <<budget, nfault, hist, top>>
          ELSE /\ budget' = budget - 1 /\ nfault' = nfault + 1
               /\ hist' = Append(hist, [v |-> "QUIT", m |-> 0, r |-> 0, c |-> ch.c, sh |-> ch.sh])
               /\ top' = IF OP = "DialAndSend" /\ top = "" /\ \A i \in 1..N : ~se[i].haserr THEN "close" ELSE top
  /\ UNCHANGED <<m, r, ext, rej, dl, se, cfg>>

FinalRet ==
  /\ pc = "finalRet"
  /\ obs' = Observe(Observe(obs, IF OP = "DialAndSend" THEN RetEv("DialAndSend")
                                 ELSE [ev |-> "ret", op |-> "Close", err |-> FALSE, elapsed |-> "within"]),
                    [ev |-> "end"])
  /\ pc' = "done"
  /\ Quiet /\ UNCHANGED <<m, r, ext, dead, rej, dl, se, top, cfg>>

Next == \/ DialConnect \/ ReadGreeting \/ CmdEhlo \/ CmdHelo \/ DialOK \/ DialRet
        \/ SendBegin \/ Noop0 \/ MsgStart \/ CmdMail \/ CmdRcpt \/ CmdData \/ WriteContent
        \/ CloseData \/ PostNoop \/ PostRset \/ FailRset \/ NextMsg \/ SendRet \/ CmdQuit \/ FinalRet

Spec == Init /\ [][Next]_vars

-----------------------------------------------------------------------------
(* properties *)

NoViolation == obs.viol = {}

TypeOK == /\ pc \in STRING /\ m \in 1..(N + 1) /\ budget \in 0..BUDGET /\ dead \in BOOLEAN

(* the design terminates: every behaviour reaches "done" (checked as       *)
(* absence of deadlock in any other state)                                 *)
Terminates == (ENABLED Next) \/ pc = "done"

(* scenario emission: environment choices + predicted observable projection *)
Scenario == [cfg  |-> [cfg EXCEPT !.caps = SetToSeq(@)],
             env  |-> hist,
             pred |-> pred,
             ret  |-> IF obs.ret.op = "none" THEN [op |-> "none", err |-> FALSE] ELSE RetProj(obs.ret),
             nfault |-> nfault]
Emit == pc = "done" => PrintT(<<"SCENARIO", ToJson(Scenario)>>)
=============================================================================
