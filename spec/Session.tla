------------------------------- MODULE Session -------------------------------
(***************************************************************************)
(* The go-mail SMTP client session (client.go, client_120.go, smtp/smtp.go)*)
(* composed with an adversarial environment: reply classes at every        *)
(* command, disconnects, stalls, TLS handshake outcomes, render faults.    *)
(* One action per protocol step of the code (DESIGN.md, appendix B).       *)
(* Every action emits the events a recorder on the wire / on the API would *)
(* see and feeds them to the observer (SessionObs.tla); the properties are *)
(* the observer's predicates, checked here as the invariant obs.viol = {}  *)
(* and, for C17, as termination of every behaviour.                        *)
(*                                                                         *)
(* This is the *intended* design.  Deviations that the pinned code showed  *)
(* are named DEV_* constants: with a deviation switched on TLC must find   *)
(* the corresponding violation (sensitivity test of the predicates, never  *)
(* used for verdicts).                                                     *)
(***************************************************************************)
EXTENDS SessionObs, Json, SequencesExt

CONSTANTS
  OP,            \* "Send" (dial without faults, Send, Close), "DialAndSend", "Dial", "Reset" (dial, Reset, Close)
  N,             \* messages in the batch
  MAXR,          \* recipients per message: 1..MAXR
  BUDGET,        \* number of non-default environment choices (faults)
  CAPSETS,       \* capability sets the server may advertise (beside STARTTLS / AUTH)
  RENDERKINDS,   \* render outcomes beside "ok"
  ENC8,          \* may messages be 8bit encoded?  BOOLEAN subset
  DSNS,          \* client DSN configurations, subset of {"off","ret","notify","both"}
  NONOOP,        \* subset of BOOLEAN: WithoutNoop
  SHAPES,        \* reply text shapes: subset of {"lead", "later", "none", "multi", "terse", "multiterse", "xlead", "toomany"}
  CLASSES,       \* fault classes: subset of {"t4","p5","drop","x3","stall","garbage"}
  CODESETS,      \* rotations of the reply-code table, subset of 0..99
  POLICIES,      \* TLS policies: subset of {"mandatory","opportunistic","none"}
  AUTHTYPES,     \* client auth types
  HOSTKINDS,     \* subset of {"localhost","other"}
  STARTTLSADV,   \* subset of BOOLEAN: does the server advertise STARTTLS
  AUTHLISTS,     \* advertised AUTH mechanism lists (sets); {} = no AUTH extension
  HANDSHAKES,    \* TLS handshake outcomes: subset of {"ok","wrongname","untrusted","garbage","stall"}
  CAPS2,         \* capability sets advertised after STARTTLS
  LOGAUTH,       \* subset of BOOLEAN: WithLogAuthData
  LOGGERS,       \* debug logger implementations: subset of {"capture","std","json"}
  FALLBACK,      \* subset of BOOLEAN: is a fallback port configured (WithTLSPortPolicy)
  DEV_ImplicitDot, DEV_NoRsetAfterDataReject, DEV_ContinueAfterRsetFail,
  DEV_LeakOnDialError, DEV_QuitFailureLeavesConn, DEV_NoDeadlineInDial,
  DEV_NoopBeforeDeadline, DEV_WindowStaysOpen, DEV_FallbackInClear, DEV_DialKeepsConnection, DEV_WindowNeedsDebug,
  VARIANTS,      \* environment variants the specification is indifferent to ("" = none): ctxdl, ctxcancel, latereply, customport; and "sslflag"
  MINR,          \* fewest recipients of a message (0: a message without recipients is refused locally)
  LATEDEBUG,     \* subset of BOOLEAN: debug logging is switched on only while the AUTH exchange is in flight (before its first response)
  REDIAL         \* subset of BOOLEAN: the Client first dials with TLS policy none, then the policy of the scenario is set and it dials again

VARIABLES cl,    \* client state (record)
          env,   \* environment bookkeeping: fault budget, history, predicted projection
          cfg,   \* scenario configuration (constant during a behaviour)
          obs    \* the observer

vars == <<cl, env, cfg, obs>>

NoErr == [haserr |-> FALSE, reason |-> "", code |-> 0, temp |-> FALSE, esc |-> "", rcpts |-> <<>>]

(* shapes of a reply text that BEGINS with an enhanced status code: followed by text, on every line of a multi-line *)
(* reply, alone ("550 5.5.1"), alone on the first line of a multi-line reply                                        *)
LeadShapes == {"lead", "multi", "terse", "multiterse", "xlead", "toomany"}   \* xlead: the enhanced code is of the OTHER class than the reply code ("550 4.5.1 ...")

(* Reply codes of the n-th fault: cfg.cs rotates through the code space so that     *)
(* boundary codes (400, 499, 500, 599) and, in the sweep configurations, every     *)
(* code 400..599 occur at every position; the codes of one scenario are distinct.  *)
CodeOf(cls, k) == IF cls = "t4" THEN 400 + ((cfg.cs + 33 * (k - 1)) % 100)
                  ELSE IF cls = "p5" THEN 500 + ((cfg.cs + 33 * (k - 1)) % 100)
                  ELSE IF cls = "x3" THEN 330 + k ELSE IF cls = "mal" THEN 334 ELSE 0
EscOf(cls, k)  == IF cls = "t4" THEN <<"4.5.1", "4.5.2", "4.5.3", "4.5.4">>[k]
                  ELSE IF cls = "p5" THEN <<"5.5.1", "5.5.2", "5.5.3", "5.5.4">>[k] ELSE ""
(* shape "toomany": the "too many recipients" reply of RFC 5321 4.5.3.1.10 - 452 (or the historical 552) with the enhanced code X.5.3 *)
CodeFor(ch, k) == IF ch.sh = "toomany" /\ ch.c \in {"t4", "p5"} THEN (IF ch.c = "t4" THEN 452 ELSE 552) ELSE CodeOf(ch.c, k)
EscFor(ch, k)  == IF ch.sh = "toomany" THEN (IF ch.c = "t4" THEN "4.5.3" ELSE "5.5.3")
                  ELSE EscOf(IF ch.sh = "xlead" THEN (IF ch.c = "t4" THEN "p5" ELSE "t4") ELSE ch.c, k)
OkCode(v) == CASE v = "DATA" -> 354 [] v = "QUIT" -> 221 [] v \in {"GREET", "STARTTLS"} -> 220
               [] v = "ABORT" -> 501 [] OTHER -> 250

OkChoice == [c |-> "ok", sh |-> "none"]
EnvChoices == {OkChoice} \cup
              (IF env.budget > 0
               THEN {[c |-> c, sh |-> IF c \in {"t4", "p5"} THEN s ELSE "none"] : c \in CLASSES \ {"mal", "refuse", "cstall", "cwfail", "xclose", "xnoop"}, s \in SHAPES}
               ELSE {})
(* OP = "RawAuth": the smtp package used directly - NewClient, Auth (with its lazy EHLO), Quit *)
DialFaults  == OP \notin {"Send", "Reset", "Reset2"}     \* in Send / Reset mode the dial is the clean prefix
DialChoices == IF DialFaults THEN EnvChoices ELSE {OkChoice}

(* a malformed 334 challenge can only be injected into an AUTH exchange *)
(* (not for XOAUTH2: that client answers it with QUIT, which the server reads as a response) *)
AuthChoices == DialChoices \cup (IF DialFaults /\ env.budget > 0 /\ "mal" \in CLASSES /\ cl.mech # "XOAUTH2"
                                 THEN {[c |-> "mal", sh |-> "none"]} ELSE {})
                           \* "xclose": another goroutine calls smtp.Client.Close while Auth is between two commands
                           \cup (IF OP = "RawAuth" /\ env.budget > 0 /\ "xclose" \in CLASSES
                                 THEN {[c |-> "xclose", sh |-> "none"]} ELSE {})
                           \* "xnoop": another goroutine runs Noop() on the same smtp.Client after Auth opened the
                           \* redaction window and before the AUTH command is sent
                           \cup (IF OP = "RawAuth" /\ env.budget > 0 /\ "xnoop" \in CLASSES /\ cl.astep = 0
                                 THEN {[c |-> "xnoop", sh |-> "none"]} ELSE {})

Lost(c) == c \in {"drop", "stall", "wfail", "xclose"}   \* the connection is unusable afterwards (a garbage line is just a bad reply)

(* what the client stores for a failed step *)
ErrOf(reason, ch, k, rc) ==
  [haserr |-> TRUE, reason |-> reason, temp |-> ch.c = "t4",
   code |-> IF ch.c \in {"t4", "p5"} THEN CodeFor(ch, k) ELSE 0,   \* only 4yz / 5yz codes are reported
   esc |-> IF "ENHANCEDSTATUSCODES" \in cl.ext /\ ch.sh \in LeadShapes THEN EscFor(ch, k) ELSE "",
   rcpts |-> rc]
LocalErr(reason) == [NoErr EXCEPT !.haserr = TRUE, !.reason = reason]

-----------------------------------------------------------------------------
(* events *)

CmdEv(v, mm, rr, params, cred, mech) ==
  [ev |-> "cmd", verb |-> v, m |-> mm, r |-> rr, params |-> params, enc |-> cl.tls, cred |-> cred, mech |-> mech]

ReplyEv(v, ch, k, caps, code) ==
  CASE ch.c = "drop"  -> [ev |-> "drop"]
    [] ch.c = "stall" -> [ev |-> "stall"]
    [] OTHER -> [ev |-> "reply",
                 code |-> IF ch.c = "ok" THEN code ELSE CodeFor(ch, k),
                 cls  |-> ch.c,
                 esc  |-> IF ch.c \in {"t4", "p5"} /\ ch.sh \in LeadShapes THEN EscFor(ch, k) ELSE "",
                 caps |-> caps]

(* debug log records (only when the scenario switches debug logging on):   *)
(* inside the redaction window the payload is replaced                     *)
(* is debug logging on for the exchange that is about to happen? (cfg.latedebug: switched on by the caller *)
(* right before the first response of the AUTH exchange, and on from then)                               *)
Dbg == cfg.debug /\ (~cfg.latedebug \/ cl.lateOn \/ (cl.pc = "authMsg" /\ cl.astep >= 1))
LogEvs(cred, code) ==
  IF ~Dbg THEN <<>>
  ELSE LET red == cl.authWin IN
       << [ev |-> "log", dir |-> "c2s", leak |-> (cred /\ ~red), post |-> cl.authOver, verbatim |-> ~red, after |-> FALSE] >>
LogReply(code, ch) ==
  IF ~Dbg \/ Lost(ch.c) THEN <<>>
  ELSE << [ev |-> "log", dir |-> "s2c", leak |-> FALSE, post |-> cl.authOver, after |-> FALSE,
           verbatim |-> ~(cl.authWin /\ code >= 300 /\ code <= 400)] >>

RECURSIVE ObsAll(_, _)
ObsAll(o, es) == IF es = <<>> THEN o ELSE ObsAll(Observe(o, Head(es)), Tail(es))

(* a pending open dot-writer is terminated by the next command line        *)
(* (textproto closeDot) - only reachable under DEV_ImplicitDot             *)
ImplicitDot(o) ==
  IF cl.dotOpen > 0
  THEN ObsAll(o, << [ev |-> "eod", m |-> cl.dotOpen, content |-> "prefix"],
                    [ev |-> "reply", code |-> 250, cls |-> "ok", esc |-> "", caps |-> <<>>] >>)
  ELSE o

(* One command/reply exchange with environment choice ch: the observer and *)
(* the environment bookkeeping after it.                                   *)
XO(o0, v, mm, rr, params, cred, mech, ch, caps, okcode) ==
  LET ce == CmdEv(v, mm, rr, params, cred, mech)
      o1 == ImplicitDot(o0)
      code == IF ch.c = "ok" THEN okcode ELSE CodeFor(ch, env.nfault + 1)
      key == ProjOf(o1, ce)
      \* "wfail": the transport fails while the client writes this command - it is logged (before
      \* the write) but never reaches the server
      \* "xclose": the client is closed by another goroutine before the command: the command is still
      \* logged (cmd() logs before it writes), the write fails
      evs == IF ch.c = "wfail" THEN LogEvs(cred, 0) \o << [ev |-> "wfail"] >>
             ELSE IF ch.c = "xclose"
             THEN << [ev |-> "xclose"] >> \o (IF o1.conn = "open" THEN << [ev |-> "cclose"] >> ELSE <<>>) \o LogEvs(cred, 0)
             ELSE LogEvs(cred, 0) \o <<ce, ReplyEv(v, ch, env.nfault + 1, caps, okcode)>> \o LogReply(code, ch)
  IN [obs |-> ObsAll(o1, evs),
      env |-> [env EXCEPT
                 !.pred = IF ch.c \in {"wfail", "xclose"} THEN @ ELSE Append(@, key),
                 !.budget = IF ch.c = "ok" THEN @ ELSE @ - 1,
                 !.nfault = IF ch.c = "ok" THEN @ ELSE @ + 1,
                 !.hist = IF ch.c = "ok" THEN @
                          ELSE Append(@, [v |-> v, m |-> key.m, r |-> key.r, c |-> ch.c, sh |-> ch.sh])]]

X(v, mm, rr, params, cred, mech, ch, caps, okcode) == XO(obs, v, mm, rr, params, cred, mech, ch, caps, okcode)
Plain(v, mm, rr, params, ch) == X(v, mm, rr, params, FALSE, "", ch, <<>>, OkCode(v))

Params(v) ==
  IF v = "MAIL" THEN
        (IF "8BITMIME" \in cl.ext THEN <<"BODY">> ELSE <<>>)
     \o (IF "SMTPUTF8" \in cl.ext THEN <<"SMTPUTF8">> ELSE <<>>)
     \o (IF "DSN" \in cl.ext /\ cfg.dsn \in {"ret", "both"} THEN <<"RET">> ELSE <<>>)
  ELSE IF v = "RCPT" THEN
        (IF "DSN" \in cl.ext /\ cfg.dsn \in {"notify", "both"} THEN <<"NOTIFY">> ELSE <<>>)
  ELSE <<>>

CloseConn(o) == IF o.conn = "open" THEN Observe(o, [ev |-> "cclose"]) ELSE o
SetDl(o, a)  == Observe(o, [ev |-> "setdl", armed |-> a])

(* A stalled server is survived only when a deadline is armed: otherwise   *)
(* the client blocks for ever (pc = "blocked" has no successor).           *)
Blocks(ch) == ch.c = "stall" /\ ~cl.armed

-----------------------------------------------------------------------------
(* authentication mechanisms *)

MechOf(t) == CASE t \in {"PLAIN", "PLAIN-NOENC"} -> "PLAIN"
               [] t \in {"LOGIN", "LOGIN-NOENC"} -> "LOGIN"
               [] OTHER -> t
NoEncType(t) == t \in {"PLAIN-NOENC", "LOGIN-NOENC"}
IsPlus(mch)  == mch \in {"SCRAM-SHA-1-PLUS", "SCRAM-SHA-256-PLUS"}
(* client.go:1251: support is tested with strings.Contains on the advertised list *)
MechNames(mch) == CASE mch = "SCRAM-SHA-1"   -> {"SCRAM-SHA-1", "SCRAM-SHA-1-PLUS"}
                   [] mch = "SCRAM-SHA-256" -> {"SCRAM-SHA-256", "SCRAM-SHA-256-PLUS"}
                   [] OTHER -> {mch}
Supported(mch, list) == MechNames(mch) \cap list # {}
PreferEnc   == <<"SCRAM-SHA-256-PLUS", "SCRAM-SHA-256", "SCRAM-SHA-1-PLUS", "SCRAM-SHA-1", "CRAM-MD5", "PLAIN", "LOGIN">>
PreferClear == <<"SCRAM-SHA-256", "SCRAM-SHA-1", "CRAM-MD5">>
Discover(list, enc) ==
  LET pl == IF enc THEN PreferEnc ELSE PreferClear
      hits == {i \in DOMAIN pl : pl[i] \in list}
  IN IF hits = {} THEN "none" ELSE pl[CHOOSE i \in hits : \A j \in hits : i <= j]
(* number of 334 challenges of an honest exchange *)
Steps(mch) == CASE mch \in {"PLAIN", "XOAUTH2"} -> 0 [] mch = "LOGIN" -> 2 [] mch = "CRAM-MD5" -> 1 [] OTHER -> 3
(* does message j of the exchange (0 = the AUTH command) carry the password / token? *)
Reveals(mch, j) == (mch \in {"PLAIN", "XOAUTH2"} /\ j = 0) \/ (mch = "LOGIN" /\ j = 2)

-----------------------------------------------------------------------------
Cfgs ==
  {[op |-> OP, nr |-> nr, enc8 |-> e8, rf |-> rf, caps |-> cs, dsn |-> d, nonoop |-> nn, cs |-> rot,
    policy |-> pol, authtype |-> at, noenc |-> NoEncType(at), hostkind |-> hk, logauth |-> la,
    debug |-> (at # "NOAUTH"), logger |-> lg, fallback |-> fb, starttls |-> st, authlist |-> al, hs |-> hs, caps2 |-> c2, redial |-> rd, latedebug |-> ld, variant |-> va] :
     nr \in [1..N -> MINR..MAXR], e8 \in [1..N -> ENC8], rf \in [1..N -> {"ok"} \cup RENDERKINDS],
     cs \in CAPSETS, d \in DSNS, nn \in NONOOP, rot \in CODESETS, pol \in POLICIES, at \in AUTHTYPES,
     hk \in HOSTKINDS, la \in LOGAUTH, st \in STARTTLSADV, al \in AUTHLISTS, hs \in HANDSHAKES, c2 \in CAPS2, lg \in LOGGERS, fb \in FALLBACK, rd \in REDIAL, ld \in LATEDEBUG, va \in VARIANTS}

(* what the server puts into an EHLO reply *)
Advertised(enc) ==
  (IF enc THEN cfg.caps2 ELSE cfg.caps)
    \cup (IF cfg.starttls /\ ~enc THEN {"STARTTLS"} ELSE {})
    \cup (IF cfg.authlist # {} THEN {"AUTH"} ELSE {})

Init ==
  /\ cfg \in Cfgs
  /\ cl = [pc |-> IF cfg.redial THEN "preDial" ELSE "dial", m |-> 1, r |-> 1, ext |-> {}, dead |-> FALSE, rej |-> <<>>,
           dl |-> [i \in 1..N |-> FALSE], se |-> [i \in 1..N |-> NoErr], top |-> "",
           dotOpen |-> 0, tls |-> FALSE, armed |-> FALSE, authWin |-> FALSE, authOver |-> FALSE,
           mech |-> "", astep |-> 0, lateOn |-> FALSE, round |-> 1]
  /\ env = [budget |-> BUDGET, nfault |-> 0, hist |-> <<>>, pred |-> <<>>]
  /\ obs = Observe(InitObs, [ev |-> "begin", cfg |-> cfg])

Goto(p) == cl' = [cl EXCEPT !.pc = p]
DialOp  == IF OP \in {"Send", "Reset", "Reset2"} THEN "Dial" ELSE OP
Raw     == OP = "RawAuth"

(* a failed dial step: the transport is released before the error returns *)
DialFail(o) == IF DEV_LeakOnDialError \/ Raw THEN o ELSE CloseConn(o)

-----------------------------------------------------------------------------
(* dial phase: client.go:1003 DialToSMTPClientWithContext                  *)

(* client.go:1027: dial the primary port; when that fails and a fallback port is configured, dial *)
(* the fallback port.  The environment may refuse the primary port (class "refuse").             *)
(* a configuration change between two dials: the Client is dialled with TLS policy none (no faults), the *)
(* policy of the scenario is set, and the operation of the scenario starts - its dial must open a new   *)
(* connection that honours the new policy.  With DEV_DialKeepsConnection the second dial returns at     *)
(* once because the Client is connected already, and the send runs on the old cleartext connection.     *)
PreDial ==
  /\ cl.pc = "preDial"
  /\ UNCHANGED cfg
  /\ LET o1 == ObsAll(obs, << [ev |-> "setpolicy", policy |-> "none"], [ev |-> "call", op |-> "Dial"], [ev |-> "open"] >>)
         o2 == Observe(SetDl(o1, TRUE), [ev |-> "greet", cls |-> "ok", early |-> FALSE, code |-> 220])
         x  == XO(o2, "EHLO", 0, 1, <<>>, FALSE, "", OkChoice, SetToSeq(Advertised(FALSE)), 250)
         o3 == ObsAll(SetDl(x.obs, FALSE), << [ev |-> "ret", op |-> "Dial", err |-> FALSE, elapsed |-> "within"],
                                              [ev |-> "setpolicy", policy |-> cfg.policy] >>)
     IN /\ obs' = o3 /\ env' = x.env
        /\ cl' = [cl EXCEPT !.pc = IF DEV_DialKeepsConnection THEN "dialOK" ELSE "dial", !.ext = Advertised(FALSE)]

DialConnect ==
  /\ cl.pc = "dial"
  /\ UNCHANGED cfg
  /\ \E refused \in (IF DialFaults /\ env.budget > 0 /\ "refuse" \in CLASSES THEN BOOLEAN ELSE {FALSE}) :
       LET o0 == Observe(obs, [ev |-> "call", op |-> DialOp])
           e1 == IF refused THEN [env EXCEPT !.budget = @ - 1, !.nfault = @ + 1,
                                             !.hist = Append(@, [v |-> "DIAL", m |-> 0, r |-> 0, c |-> "refuse", sh |-> "none"])]
                 ELSE env IN
       /\ env' = e1
       /\ IF cfg.policy = "implicit"
          \* WithSSLPort: the dial function is a tls.Dialer, the handshake is part of the dial; when the
          \* primary port cannot be dialled (refused, or the handshake fails) the fallback port - if
          \* configured - is dialled the same way
          THEN obs' = o0 /\ cl' = [cl EXCEPT !.pc = IF refused THEN (IF cfg.fallback THEN "ifallback" ELSE "dialRet") ELSE "ihandshake",
                                             !.top = IF refused /\ ~cfg.fallback THEN "dial" ELSE @,
                                             !.dead = refused /\ ~cfg.fallback]
          ELSE
          \* SetTLSPortPolicy: 587, fallback 25 only when opportunistic - or (variant "stalefallback") left behind by an earlier,
          \* opportunistic port policy when the policy was set afterwards (SetTLSPolicy keeps the ports)
          IF refused /\ ~(cfg.fallback /\ (cfg.policy = "opportunistic" \/ cfg.variant = "stalefallback"))
          THEN obs' = o0 /\ cl' = [cl EXCEPT !.pc = "dialRet", !.top = "dial", !.dead = TRUE]
          ELSE LET o1 == Observe(o0, [ev |-> "open"]) IN
               IF DEV_NoDeadlineInDial \/ Raw THEN obs' = o1 /\ Goto("greeting")
               ELSE obs' = SetDl(o1, TRUE) /\ cl' = [cl EXCEPT !.pc = "greeting", !.armed = TRUE]

(* implicit TLS: the handshake happens before anything else; its outcome is a scenario parameter *)
ImplicitHandshake ==
  /\ cl.pc = "ihandshake"
  /\ UNCHANGED <<env, cfg>>
  /\ IF cfg.hs = "ok"
     THEN obs' = Observe(obs, [ev |-> "tls", ok |-> TRUE]) /\ cl' = [cl EXCEPT !.pc = "greeting", !.tls = TRUE, !.armed = TRUE]
     \* (a server that accepts the connection and never answers the ClientHello: the handshake is part of the dial and
     \* bounded by the dial context, which carries the timeout of the Client)
     ELSE /\ obs' = Observe(obs, IF cfg.hs = "stall" THEN [ev |-> "stall"] ELSE [ev |-> "tls", ok |-> FALSE])
          /\ cl' = [cl EXCEPT !.pc = IF cfg.fallback THEN "ifallback" ELSE "dialRet", !.top = "dial", !.dead = ~cfg.fallback]

(* the fallback port (25) is dialled with TLS as well; the server there speaks cleartext SMTP: it sees *)
(* a TLS ClientHello and nothing else, the dial fails. With DEV_FallbackInClear the client talks      *)
(* cleartext SMTP to it instead.                                                                       *)
ImplicitFallback ==
  /\ cl.pc = "ifallback"
  /\ UNCHANGED <<env, cfg>>
  /\ IF DEV_FallbackInClear
     THEN obs' = obs /\ cl' = [cl EXCEPT !.pc = "greeting", !.armed = TRUE, !.dead = FALSE, !.top = ""]
     ELSE obs' = Observe(obs, [ev |-> "tlshello"]) /\ cl' = [cl EXCEPT !.pc = "dialRet", !.top = "dial", !.dead = TRUE]

(* smtp.NewClient reads the greeting and closes the connection itself when *)
(* it is not a 220                                                         *)
ReadGreeting ==
  /\ cl.pc = "greeting"
  /\ \E ch \in {c \in DialChoices : c.c # "wfail"} :
       LET g == CASE ch.c = "drop" -> [ev |-> "drop"] [] ch.c = "stall" -> [ev |-> "stall"]
                  [] OTHER -> [ev |-> "greet", cls |-> ch.c, early |-> FALSE,
                               code |-> IF ch.c = "ok" THEN 220 ELSE CodeFor(ch, env.nfault + 1)] IN
       IF ch.c = "ok" THEN obs' = Observe(obs, g) /\ Goto("ehlo") /\ UNCHANGED env
       ELSE /\ env' = [env EXCEPT !.budget = @ - 1, !.nfault = @ + 1,
                                  !.hist = Append(@, [v |-> "GREET", m |-> 0, r |-> 0, c |-> ch.c, sh |-> ch.sh])]
            /\ IF Blocks(ch) THEN obs' = Observe(obs, g) /\ Goto("blocked")
               ELSE /\ obs' = CloseConn(Observe(obs, g))
                    /\ cl' = [cl EXCEPT !.pc = "dialRet", !.top = "dial", !.dead = TRUE]
  /\ UNCHANGED cfg

CmdEhlo ==
  /\ cl.pc = "ehlo"
  /\ \E ch \in DialChoices :
       LET adv == Advertised(cl.tls)
           x == X("EHLO", 0, 1, <<>>, FALSE, "", ch, IF ch.c = "ok" THEN SetToSeq(adv) ELSE <<>>, 250) IN
       /\ obs' = x.obs /\ env' = x.env
       /\ IF Blocks(ch) THEN Goto("blocked")
          ELSE IF ch.c = "ok" THEN cl' = [cl EXCEPT !.pc = "policy", !.ext = adv]
          ELSE cl' = [cl EXCEPT !.pc = "helo", !.dead = Lost(ch.c)]
  /\ UNCHANGED cfg

(* smtp.go:148 hello(): any EHLO error -> HELO; only the HELO error counts *)
CmdHelo ==
  /\ cl.pc = "helo"
  /\ IF cl.dead
     THEN obs' = DialFail(obs) /\ cl' = [cl EXCEPT !.pc = "dialRet", !.top = "dial"] /\ UNCHANGED env
     ELSE \E ch \in DialChoices :
          LET x == Plain("HELO", 0, 1, <<>>, ch) IN
          /\ env' = x.env
          /\ IF Blocks(ch) THEN obs' = x.obs /\ Goto("blocked")
             ELSE IF ch.c = "ok" THEN obs' = x.obs /\ cl' = [cl EXCEPT !.pc = "policy", !.ext = {}]
             ELSE obs' = DialFail(x.obs) /\ cl' = [cl EXCEPT !.pc = "dialRet", !.top = "dial", !.dead = TRUE]
  /\ UNCHANGED cfg

(* client.go:1545 tls(): policy decision *)
PolicyDecision ==
  /\ cl.pc = "policy"
  /\ UNCHANGED <<env, cfg>>
  /\ CASE cfg.policy \in {"none", "implicit"} \/ Raw \/ cfg.variant = "sslflag" -> Goto("authSel") /\ obs' = obs   \* useSSL: no STARTTLS
       [] cfg.policy = "mandatory" /\ "STARTTLS" \notin cl.ext ->
              obs' = DialFail(obs) /\ cl' = [cl EXCEPT !.pc = "dialRet", !.top = "dial", !.dead = TRUE]
       [] cfg.policy = "opportunistic" /\ "STARTTLS" \notin cl.ext -> Goto("authSel") /\ obs' = obs
       [] OTHER -> Goto("starttls") /\ obs' = obs

(* smtp.go:224 StartTLS: STARTTLS expecting 220 *)
CmdStartTLS ==
  /\ cl.pc = "starttls"
  /\ \E ch \in DialChoices :
       LET x == Plain("STARTTLS", 0, 0, <<>>, ch) IN
       /\ env' = x.env
       /\ IF Blocks(ch) THEN obs' = x.obs /\ Goto("blocked")
          ELSE IF ch.c = "ok" THEN obs' = x.obs /\ Goto("handshake")
          ELSE obs' = DialFail(x.obs) /\ cl' = [cl EXCEPT !.pc = "dialRet", !.top = "dial", !.dead = TRUE]
  /\ UNCHANGED cfg

(* the handshake runs on the first write after the wrap (the EHLO); its    *)
(* outcome is a scenario parameter (certificate valid for the host, wrong  *)
(* name, untrusted issuer, garbage, stall)                                 *)
Handshake ==
  /\ cl.pc = "handshake"
  /\ UNCHANGED <<env, cfg>>
  /\ IF cfg.hs = "ok"
     THEN obs' = Observe(obs, [ev |-> "tls", ok |-> TRUE]) /\ cl' = [cl EXCEPT !.pc = "ehlo2", !.tls = TRUE]
     ELSE IF cfg.hs = "stall" /\ ~cl.armed
     THEN obs' = Observe(obs, [ev |-> "stall"]) /\ Goto("blocked")
     ELSE /\ obs' = DialFail(Observe(obs, IF cfg.hs = "stall" THEN [ev |-> "stall"] ELSE [ev |-> "tls", ok |-> FALSE]))
          /\ cl' = [cl EXCEPT !.pc = "dialRet", !.top = "dial", !.dead = TRUE]

CmdEhloAfterTLS ==
  /\ cl.pc = "ehlo2"
  /\ \E ch \in DialChoices :
       LET adv == Advertised(TRUE)
           x == X("EHLO", 0, 2, <<>>, FALSE, "", ch, IF ch.c = "ok" THEN SetToSeq(adv) ELSE <<>>, 250) IN
       /\ env' = x.env
       /\ IF Blocks(ch) THEN obs' = x.obs /\ Goto("blocked")
          ELSE IF ch.c = "ok" THEN obs' = x.obs /\ cl' = [cl EXCEPT !.pc = "authSel", !.ext = adv]
          ELSE obs' = DialFail(x.obs) /\ cl' = [cl EXCEPT !.pc = "dialRet", !.top = "dial", !.dead = TRUE]
  /\ UNCHANGED cfg

(* client.go:1231 auth(): mechanism selection *)
AuthSelect ==
  /\ cl.pc = "authSel"
  /\ UNCHANGED <<env, cfg>>
  /\ LET t == cfg.authtype
         fail == obs' = DialFail(obs) /\ cl' = [cl EXCEPT !.pc = "dialRet", !.top = "dial", !.dead = TRUE]
         mch == IF t = "AUTODISCOVER" THEN Discover(cfg.authlist, cl.tls) ELSE MechOf(t) IN
     IF t = "NOAUTH" THEN Goto("dialOK") /\ obs' = obs
     ELSE IF Raw THEN obs' = obs /\ cl' = [cl EXCEPT !.pc = "authStart", !.mech = MechOf(t)]   \* smtp.Client.Auth tests nothing
     ELSE IF "AUTH" \notin cl.ext \/ mch = "none" \/ ~Supported(mch, cfg.authlist) \/ (IsPlus(mch) /\ ~cl.tls)
     THEN fail
     ELSE obs' = obs /\ cl' = [cl EXCEPT !.pc = "authStart", !.mech = mch]

(* smtp.go:275 Auth: Start() of PLAIN / LOGIN refuses to run in clear      *)
(* unless *-NOENC or a localhost server; a refusal ends with QUIT          *)
AuthStart ==
  /\ cl.pc = "authStart"
  /\ UNCHANGED <<env, cfg>>
  /\ obs' = obs
  /\ IF cl.mech \in {"PLAIN", "LOGIN"} /\ ~cfg.noenc /\ ~cl.tls /\ cfg.hostkind \notin LocalKinds
     THEN cl' = [cl EXCEPT !.pc = "authQuit", !.authWin = ~cfg.logauth /\ (DEV_WindowNeedsDebug => Dbg)]
     \* (the window is opened whether or not debug logging is on at this moment: it may be switched on later)
     ELSE cl' = [cl EXCEPT !.pc = "authMsg", !.astep = 0, !.authWin = ~cfg.logauth /\ (DEV_WindowNeedsDebug => Dbg)]

(* message j of the exchange: the AUTH command (j = 0) or a response; the  *)
(* honest server continues with 334 while j < Steps(mech), then sends 235  *)
AuthMsg ==
  /\ cl.pc = "authMsg"
  /\ \E ch \in AuthChoices :
       LET j == cl.astep
           cb == [cl EXCEPT !.lateOn = @ \/ (cfg.latedebug /\ j >= 1)]     \* the caller's SetDebugLog(true) stays in force
           honest == IF j < Steps(cl.mech) THEN 334 ELSE 235
           \* "xnoop": the NOOP of the other goroutine and its reply come first, then the command as usual
           xn == X("NOOP", 0, 0, <<>>, FALSE, "", OkChoice, <<>>, 250)
           xa == XO(xn.obs, "AUTH", 0, 0, <<>>, Reveals(cl.mech, 0), cl.mech, OkChoice, <<>>, honest)
           x == IF ch.c = "xnoop"
                THEN [obs |-> xa.obs,
                      env |-> [env EXCEPT !.pred = @ \o <<xn.env.pred[Len(xn.env.pred)], xa.env.pred[Len(xa.env.pred)]>>,
                                          !.budget = @ - 1, !.nfault = @ + 1,
                                          !.hist = Append(@, [v |-> "AUTH", m |-> 0, r |-> 0, c |-> "xnoop", sh |-> "none"])]]
                ELSE X(IF j = 0 THEN "AUTH" ELSE "AUTHRESP", 0, j, <<>>, Reveals(cl.mech, j),
                       IF j = 0 THEN cl.mech ELSE "", ch, <<>>, honest) IN
       /\ obs' = x.obs /\ env' = x.env
       /\ IF Blocks(ch) THEN Goto("blocked")
          ELSE IF ch.c \in {"ok", "xnoop"} /\ honest = 334 THEN cl' = [cb EXCEPT !.astep = j + 1]
          ELSE IF ch.c \in {"ok", "xnoop"} THEN cl' = [cb EXCEPT !.pc = "dialOK", !.authWin = DEV_WindowStaysOpen /\ @, !.authOver = TRUE]
          ELSE IF Lost(ch.c) THEN cl' = [cb EXCEPT !.pc = "authQuit", !.dead = TRUE]
          \* an unparsable reply is an error of cmd() itself: Auth returns at once, without "*" or QUIT
          ELSE IF ch.c = "garbage" THEN cl' = [cb EXCEPT !.pc = "authQuit", !.dead = TRUE]
          ELSE cl' = [cb EXCEPT !.pc = IF cl.mech = "XOAUTH2" THEN "authQuit" ELSE "authAbort"]
  /\ UNCHANGED cfg

(* "*" aborts the exchange (expects 501); not sent for XOAUTH2 *)
AuthAbort ==
  /\ cl.pc = "authAbort"
  /\ \E ch \in DialChoices :
       LET x == X("ABORT", 0, 0, <<>>, FALSE, "", ch, <<>>, 501) IN
       /\ obs' = x.obs /\ env' = x.env
       /\ IF Blocks(ch) THEN Goto("blocked")
          ELSE cl' = [cl EXCEPT !.pc = "authQuit", !.dead = Lost(ch.c)]
  /\ UNCHANGED cfg

(* Quit() inside Auth; whatever it yields the dial fails and the transport is released *)
AuthQuit ==
  /\ cl.pc = "authQuit"
  /\ IF cl.dead
     THEN /\ obs' = DialFail(obs) /\ UNCHANGED env
          /\ cl' = [cl EXCEPT !.pc = "dialRet", !.top = "dial", !.authWin = FALSE]
     ELSE \E ch \in DialChoices :
          LET x == Plain("QUIT", 0, 0, <<>>, ch) IN
          /\ env' = x.env
          /\ IF Blocks(ch) THEN obs' = x.obs /\ Goto("blocked")
             ELSE /\ obs' = IF ch.c = "ok" THEN CloseConn(x.obs) ELSE DialFail(x.obs)
                  /\ cl' = [cl EXCEPT !.pc = "dialRet", !.top = "dial", !.dead = TRUE, !.authWin = FALSE]
  /\ UNCHANGED cfg

DialOK ==
  /\ cl.pc = "dialOK"
  /\ UNCHANGED <<env, cfg>>
  /\ LET o1 == IF cl.armed THEN SetDl(obs, FALSE) ELSE obs IN      \* the dial deadline is cleared
     IF OP = "DialAndSend" THEN obs' = o1 /\ cl' = [cl EXCEPT !.pc = "sendBegin", !.armed = FALSE]
     ELSE /\ obs' = Observe(o1, [ev |-> "ret", op |-> DialOp, err |-> FALSE, elapsed |-> "within"])
          /\ cl' = [cl EXCEPT !.pc = CASE OP = "Send" -> "sendBegin" [] OP \in {"Reset", "Reset2"} -> "resetBegin" [] OTHER -> "quit",
                               !.armed = FALSE]

RetEv(op) ==
  LET failed == {i \in 1..N : cl.se[i].haserr} IN
  [ev |-> "ret", op |-> op, err |-> (cl.top # "" \/ failed # {}), elapsed |-> "within", top |-> cl.top,
   nerrs |-> IF cl.top # "" THEN 1 ELSE Cardinality(failed),
   entries |-> IF cl.top # "" THEN <<0>> ELSE SetToSeq(failed),       \* the joined error: one entry per failed message, naming it
   msgs |-> [i \in 1..N |-> [delivered |-> cl.dl[i], haserr |-> cl.se[i].haserr, reason |-> cl.se[i].reason,
                             code |-> cl.se[i].code, temp |-> cl.se[i].temp, temp2 |-> cl.se[i].temp, esc |-> cl.se[i].esc,
                             rcpts |-> cl.se[i].rcpts, ownmsg |-> TRUE]]]

DialRet ==     \* failed dial
  /\ cl.pc = "dialRet"
  /\ obs' = ObsAll(obs, << IF OP = "DialAndSend" THEN RetEv(OP)
                           ELSE [ev |-> "ret", op |-> DialOp, err |-> TRUE, elapsed |-> "within"], [ev |-> "end"] >>)
  /\ Goto("done")
  /\ UNCHANGED <<env, cfg>>

-----------------------------------------------------------------------------
(* send phase: client_120.go:34 SendWithSMTPClient, client.go:1368          *)

(* checkConn: extend the deadline, then NOOP *)
SendBegin ==
  /\ cl.pc = "sendBegin"
  /\ UNCHANGED <<env, cfg>>
  /\ LET o1 == IF OP = "Send" THEN Observe(obs, [ev |-> "call", op |-> "Send"]) ELSE obs
         nxt == IF cfg.nonoop THEN "msgStart" ELSE "noop0" IN
     IF DEV_NoopBeforeDeadline THEN obs' = o1 /\ Goto(nxt)
     ELSE obs' = SetDl(o1, TRUE) /\ cl' = [cl EXCEPT !.pc = nxt, !.armed = TRUE]

(* NOOP failure = ErrConnCheck, nothing is attempted *)
Noop0 ==
  /\ cl.pc = "noop0"
  /\ \E ch \in EnvChoices :
       LET x == Plain("NOOP", 0, 0, <<>>, ch) IN
       /\ obs' = IF DEV_NoopBeforeDeadline /\ ch.c = "ok" THEN SetDl(x.obs, TRUE) ELSE x.obs
       /\ env' = x.env
       /\ IF Blocks(ch) THEN Goto("blocked")
          ELSE IF ch.c = "ok" THEN cl' = [cl EXCEPT !.pc = "msgStart", !.armed = TRUE]
          ELSE cl' = [cl EXCEPT !.pc = "sendRet", !.top = "conncheck", !.dead = @ \/ Lost(ch.c)]
  /\ UNCHANGED cfg

MsgStart ==
  /\ cl.pc = "msgStart"
  /\ UNCHANGED <<env, cfg, obs>>
  /\ IF cl.m > N THEN Goto("sendRet")
     \* (the code looks at the encoding first, client.go sendSingleMsg: a message with both defects is refused for its encoding)
     ELSE IF cfg.enc8[cl.m] /\ "8BITMIME" \notin cl.ext
          THEN cl' = [cl EXCEPT !.se[cl.m] = LocalErr("noenc"), !.m = @ + 1]
     ELSE IF cfg.nr[cl.m] = 0                       \* no recipients: refused before anything is sent
          THEN cl' = [cl EXCEPT !.se[cl.m] = LocalErr("getrcpts"), !.m = @ + 1]
          ELSE Goto("mail")

(* a command on a connection that is gone fails locally: nothing on the wire *)
DeadStep(reason) ==
  /\ cl' = [cl EXCEPT !.se[cl.m] = IF @.haserr THEN @ ELSE LocalErr(reason), !.pc = "nextMsg"]
  /\ UNCHANGED <<env, cfg, obs>>

CmdMail ==
  /\ cl.pc = "mail"
  /\ IF cl.dead THEN DeadStep("mail") ELSE
     \E ch \in EnvChoices :
       LET x == Plain("MAIL", cl.m, 0, Params("MAIL"), ch) IN
       /\ obs' = x.obs /\ env' = x.env /\ UNCHANGED cfg
       /\ IF Blocks(ch) THEN Goto("blocked")
          ELSE IF ch.c = "ok" THEN cl' = [cl EXCEPT !.pc = "rcpt", !.r = 1, !.rej = <<>>]
          ELSE cl' = [cl EXCEPT !.se[cl.m] = ErrOf("mail", ch, env.nfault + 1, <<>>),
                                !.dead = Lost(ch.c), !.pc = "failRset"]

(* every recipient is tried; the last rejection decides code and class *)
CmdRcpt ==
  /\ cl.pc = "rcpt"
  /\ LET last == cl.r >= cfg.nr[cl.m] IN
     IF cl.dead
     THEN /\ cl' = [cl EXCEPT !.se[cl.m] = [LocalErr("rcpt") EXCEPT !.rcpts = Append(cl.rej, cl.r)],
                              !.rej = Append(@, cl.r), !.r = IF last THEN @ ELSE @ + 1,
                              !.pc = IF last THEN "failRset" ELSE "rcpt"]
          /\ UNCHANGED <<env, cfg, obs>>
     ELSE \E ch \in EnvChoices :
       LET x == Plain("RCPT", cl.m, cl.r, Params("RCPT"), ch)
           rej2 == IF ch.c = "ok" THEN cl.rej ELSE Append(cl.rej, cl.r) IN
       /\ obs' = x.obs /\ env' = x.env /\ UNCHANGED cfg
       /\ IF Blocks(ch) THEN Goto("blocked")
          ELSE cl' = [cl EXCEPT
                        !.rej = rej2,
                        !.se[cl.m] = IF ch.c = "ok" THEN @ ELSE ErrOf("rcpt", ch, env.nfault + 1, rej2),
                        !.dead = Lost(ch.c),
                        !.r = IF last THEN @ ELSE @ + 1,
                        !.pc = IF ~last THEN "rcpt" ELSE IF rej2 = <<>> THEN "data" ELSE "failRset"]

CmdData ==
  /\ cl.pc = "data"
  /\ IF cl.dead THEN DeadStep("data") ELSE
     \E ch \in EnvChoices :
       LET x == Plain("DATA", cl.m, 0, <<>>, ch) IN
       /\ obs' = x.obs /\ env' = x.env /\ UNCHANGED cfg
       /\ IF Blocks(ch) THEN Goto("blocked")
          ELSE IF ch.c = "ok" THEN Goto("content")
          ELSE cl' = [cl EXCEPT !.se[cl.m] = ErrOf("data", ch, env.nfault + 1, <<>>), !.dead = Lost(ch.c),
                                !.pc = IF DEV_NoRsetAfterDataReject THEN "nextMsg" ELSE "failRset"]

(* msg.go:2228 WriteTo into the dot-writer.  A render failure after DATA   *)
(* cannot be taken back inside the protocol: the client closes the         *)
(* connection so that the server discards the fragment.                    *)
WriteContent ==
  /\ cl.pc = "content"
  /\ UNCHANGED cfg
  /\ IF cfg.rf[cl.m] = "ok"
     THEN \E k \in {"ok"} \cup (IF env.budget > 0 THEN {"cstall", "cwfail"} \cap CLASSES ELSE {}) :
          IF k = "ok" THEN Goto("closeData") /\ obs' = obs /\ UNCHANGED env
          ELSE IF k = "cwfail"
          THEN \* the transport fails while the content is written: nothing complete reaches the server
               /\ env' = [env EXCEPT !.budget = @ - 1, !.nfault = @ + 1,
                                      !.hist = Append(@, [v |-> "CONTENT", m |-> cl.m, r |-> 0, c |-> "cwfail", sh |-> "none"])]
               /\ obs' = CloseConn(Observe(obs, [ev |-> "wfail"]))
               /\ cl' = [cl EXCEPT !.se[cl.m] = LocalErr("writecontent"), !.pc = "nextMsg", !.dead = TRUE]
          ELSE \* the server stops reading in the middle of the content: the client's write must time out
               /\ env' = [env EXCEPT !.budget = @ - 1, !.nfault = @ + 1,
                                      !.hist = Append(@, [v |-> "CONTENT", m |-> cl.m, r |-> 0, c |-> "cstall", sh |-> "none"])]
               /\ IF ~cl.armed THEN obs' = Observe(obs, [ev |-> "stall"]) /\ Goto("blocked")
                  ELSE /\ obs' = CloseConn(Observe(obs, [ev |-> "stall"]))
                       /\ cl' = [cl EXCEPT !.se[cl.m] = LocalErr("writecontent"), !.pc = "nextMsg", !.dead = TRUE]
     ELSE /\ UNCHANGED env
          /\ IF DEV_ImplicitDot
             THEN obs' = obs /\ cl' = [cl EXCEPT !.se[cl.m] = LocalErr("writecontent"), !.pc = "nextMsg", !.dotOpen = cl.m]
             ELSE obs' = CloseConn(obs) /\ cl' = [cl EXCEPT !.se[cl.m] = LocalErr("writecontent"), !.pc = "nextMsg", !.dead = TRUE]

(* smtp.go:400 dataCloser.Close: "." and the reply to it *)
CloseData ==
  /\ cl.pc = "closeData"
  /\ \E ch \in {c \in EnvChoices : c.c # "wfail"} :   \* a failing write of the content is class "cwfail"
       LET ee == [ev |-> "eod", m |-> cl.m, content |-> "complete"] IN
       /\ obs' = ObsAll(obs, <<ee, ReplyEv("EOD", ch, env.nfault + 1, <<>>, 250)>>)
       /\ env' = [env EXCEPT !.pred = Append(@, ProjOf(obs, ee)),
                             !.budget = IF ch.c = "ok" THEN @ ELSE @ - 1,
                             !.nfault = IF ch.c = "ok" THEN @ ELSE @ + 1,
                             !.hist = IF ch.c = "ok" THEN @
                                      ELSE Append(@, [v |-> "EOD", m |-> cl.m, r |-> 0, c |-> ch.c, sh |-> ch.sh])]
       /\ IF Blocks(ch) THEN Goto("blocked")
          ELSE IF ch.c = "ok" THEN cl' = [cl EXCEPT !.dl[cl.m] = TRUE, !.pc = "postNoop"]
          ELSE cl' = [cl EXCEPT !.se[cl.m] = ErrOf("dataclose", ch, env.nfault + 1, <<>>),
                                !.dead = Lost(ch.c), !.pc = "nextMsg"]
  /\ UNCHANGED cfg

(* client.go:1459 ResetWithSMTPClient after delivery: checkConn + RSET *)
PostNoop ==
  /\ cl.pc = "postNoop"
  /\ UNCHANGED cfg
  /\ LET o0 == IF DEV_NoopBeforeDeadline THEN obs ELSE SetDl(obs, TRUE) IN
     IF cfg.nonoop THEN obs' = SetDl(obs, TRUE) /\ Goto("postRset") /\ UNCHANGED env
     ELSE \E ch \in EnvChoices :
       LET x == XO(o0, "NOOP", cl.m, 0, <<>>, FALSE, "", ch, <<>>, 250) IN
       /\ obs' = IF DEV_NoopBeforeDeadline /\ ch.c = "ok" THEN SetDl(x.obs, TRUE) ELSE x.obs
       /\ env' = x.env
       /\ IF Blocks(ch) THEN Goto("blocked")
          ELSE IF ch.c = "ok" THEN Goto("postRset")
          ELSE cl' = [cl EXCEPT !.se[cl.m] = LocalErr("reset"), !.dead = Lost(ch.c), !.pc = "nextMsg"]

PostRset ==
  /\ cl.pc = "postRset"
  /\ \E ch \in EnvChoices :
       LET x == Plain("RSET", cl.m, 0, <<>>, ch) IN
       /\ obs' = x.obs /\ env' = x.env /\ UNCHANGED cfg
       /\ IF Blocks(ch) THEN Goto("blocked")
          ELSE cl' = [cl EXCEPT !.se[cl.m] = IF ch.c = "ok" THEN @ ELSE ErrOf("reset", ch, env.nfault + 1, <<>>),
                                !.dead = Lost(ch.c), !.pc = "nextMsg"]

(* RSET that abandons a failed transaction.  If the server refuses even    *)
(* that, its transaction state is unknown: the client closes.              *)
FailRset ==
  /\ cl.pc = "failRset"
  /\ IF cl.dead THEN Goto("nextMsg") /\ UNCHANGED <<env, cfg, obs>>
     ELSE \E ch \in EnvChoices :
       LET x == Plain("RSET", cl.m, 0, <<>>, ch) IN
       /\ env' = x.env /\ UNCHANGED cfg
       /\ IF Blocks(ch) THEN obs' = x.obs /\ Goto("blocked")
          ELSE IF ch.c = "ok" \/ DEV_ContinueAfterRsetFail
          THEN obs' = x.obs /\ cl' = [cl EXCEPT !.pc = "nextMsg", !.dead = Lost(ch.c)]
          ELSE obs' = CloseConn(x.obs) /\ cl' = [cl EXCEPT !.pc = "nextMsg", !.dead = TRUE]

(* Client.Reset (client.go:1111): checkConn (deadline, NOOP) + RSET *)
ResetBegin ==
  /\ cl.pc = "resetBegin"
  /\ UNCHANGED <<env, cfg>>
  /\ LET o1 == Observe(obs, [ev |-> "call", op |-> "Reset"]) IN
     IF DEV_NoopBeforeDeadline THEN obs' = o1 /\ Goto("resetNoop")
     ELSE obs' = SetDl(o1, TRUE) /\ cl' = [cl EXCEPT !.pc = "resetNoop", !.armed = TRUE]

ResetRet(o, failed) == Observe(o, [ev |-> "ret", op |-> "Reset", err |-> failed, elapsed |-> "within"])

(* OP = "Reset2": Reset is called a second time, whatever the first call returned *)
AfterReset == IF OP = "Reset2" /\ cl.round = 1 THEN "resetBegin" ELSE "quit"
NextRound  == IF OP = "Reset2" /\ cl.round = 1 THEN 2 ELSE cl.round

ResetNoop ==
  /\ cl.pc = "resetNoop"
  /\ UNCHANGED cfg
  /\ IF cl.dead        \* (second call) the connection is gone or silent: the check fails, nothing reaches the server
     THEN obs' = ResetRet(obs, TRUE) /\ cl' = [cl EXCEPT !.pc = AfterReset, !.round = NextRound] /\ UNCHANGED env
     ELSE IF cfg.nonoop THEN Goto("resetRset") /\ UNCHANGED <<env, obs>>
     ELSE \E ch \in (IF cl.round = 2 THEN {OkChoice} ELSE EnvChoices) :   \* (the script names a command, not its occurrence: faults in the first call only)
       LET x == Plain("NOOP", 0, 0, <<>>, ch) IN
       /\ env' = x.env
       /\ IF Blocks(ch) THEN obs' = x.obs /\ Goto("blocked")
          ELSE IF ch.c = "ok" THEN obs' = (IF DEV_NoopBeforeDeadline THEN SetDl(x.obs, TRUE) ELSE x.obs)
                                   /\ cl' = [cl EXCEPT !.pc = "resetRset", !.armed = TRUE]
          ELSE obs' = ResetRet(x.obs, TRUE) /\ cl' = [cl EXCEPT !.pc = AfterReset, !.round = NextRound, !.dead = Lost(ch.c)]

ResetRset ==
  /\ cl.pc = "resetRset"
  /\ UNCHANGED cfg
  /\ \E ch \in (IF cl.round = 2 THEN {OkChoice} ELSE EnvChoices) :   \* (the script names a command, not its occurrence: faults in the first call only)
       LET x == Plain("RSET", 0, 0, <<>>, ch) IN
       /\ env' = x.env
       /\ IF Blocks(ch) THEN obs' = x.obs /\ Goto("blocked")
          ELSE obs' = ResetRet(x.obs, ch.c # "ok") /\ cl' = [cl EXCEPT !.pc = AfterReset, !.round = NextRound, !.dead = Lost(ch.c)]

NextMsg ==
  /\ cl.pc = "nextMsg" /\ cl' = [cl EXCEPT !.m = @ + 1, !.pc = "msgStart"]
  /\ UNCHANGED <<env, cfg, obs>>

SendRet ==
  /\ cl.pc = "sendRet"
  /\ obs' = IF OP = "Send" THEN Observe(obs, RetEv("Send")) ELSE obs
  /\ Goto("quit")
  /\ UNCHANGED <<env, cfg>>

(* Client.Close / end of DialAndSend: QUIT; the transport is released      *)
(* whatever the server answers                                             *)
CmdQuit ==
  /\ cl.pc = "quit"
  /\ UNCHANGED cfg
  /\ IF cl.dead
     THEN /\ UNCHANGED env /\ Goto("finalRet")
          /\ obs' = IF DEV_QuitFailureLeavesConn THEN obs ELSE CloseConn(obs)
     ELSE \E ch \in {c \in EnvChoices : OP = "DialAndSend" \/ c.c # "stall"} :   \* a stand-alone Close is not in C17
       LET x == Plain("QUIT", 0, 0, <<>>, ch) IN
       /\ env' = x.env
       /\ IF Blocks(ch) THEN obs' = x.obs /\ Goto("blocked")
          ELSE /\ obs' = IF ch.c = "ok" \/ ~DEV_QuitFailureLeavesConn THEN CloseConn(x.obs) ELSE x.obs
               /\ cl' = [cl EXCEPT !.pc = "finalRet", !.dotOpen = 0,
                            !.dead = (ch.c = "ok" \/ ~DEV_QuitFailureLeavesConn \/ Lost(ch.c)),
                            !.top = IF ch.c # "ok" /\ OP = "DialAndSend" /\ @ = "" /\ \A i \in 1..N : ~cl.se[i].haserr
                                    THEN "close" ELSE @]

FinalRet ==
  /\ cl.pc = "finalRet"
  /\ obs' = ObsAll(obs, << IF OP = "DialAndSend" THEN RetEv("DialAndSend")
                           ELSE [ev |-> "ret", op |-> "Close", err |-> FALSE, elapsed |-> "within"],
                           [ev |-> "end"] >>)
  /\ Goto("done")
  /\ UNCHANGED <<env, cfg>>

Next == \/ PreDial \/ DialConnect \/ ImplicitHandshake \/ ImplicitFallback \/ ReadGreeting \/ CmdEhlo \/ CmdHelo \/ PolicyDecision \/ CmdStartTLS \/ Handshake
        \/ CmdEhloAfterTLS \/ AuthSelect \/ AuthStart \/ AuthMsg \/ AuthAbort \/ AuthQuit \/ DialOK \/ DialRet
        \/ ResetBegin \/ ResetNoop \/ ResetRset \/ SendBegin \/ Noop0 \/ MsgStart \/ CmdMail \/ CmdRcpt \/ CmdData \/ WriteContent
        \/ CloseData \/ PostNoop \/ PostRset \/ FailRset \/ NextMsg \/ SendRet \/ CmdQuit \/ FinalRet

Spec     == Init /\ [][Next]_vars
FairSpec == Spec /\ WF_vars(Next)

-----------------------------------------------------------------------------
(* properties *)

NoViolation == obs.viol = {}

TypeOK == /\ cl.pc \in STRING /\ cl.m \in 1..(N + 1) /\ env.budget \in 0..BUDGET /\ cl.dead \in BOOLEAN

(* C17 in the design: the client never blocks for ever - as an invariant   *)
(* (no state without successor except "done") and as liveness under weak   *)
(* fairness of the client (every behaviour reaches "done")                 *)
NeverBlocked == cl.pc # "blocked"
Terminates   == (ENABLED Next) \/ cl.pc = "done"
Returns      == <>(cl.pc = "done")

(* scenario emission: environment choices + predicted observable projection *)
Scenario == [cfg  |-> [cfg EXCEPT !.caps = SetToSeq(@), !.authlist = SetToSeq(@), !.caps2 = SetToSeq(@)],
             env  |-> env.hist,
             pred |-> env.pred,
             ret  |-> IF obs.ret.op = "none" THEN [op |-> "none", err |-> FALSE] ELSE RetProj(obs.ret),
             nfault |-> env.nfault]
Emit == cl.pc = "done" => PrintT(<<"SCENARIO", ToJson(Scenario)>>)
=============================================================================
