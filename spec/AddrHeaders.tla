---------------------------- MODULE AddrHeaders ----------------------------
(***************************************************************************)
(* The address state of a go-mail message (msg.go: addrHeader) as          *)
(* sequences of (display name, address) per kind, every address-setting    *)
(* call as a transition with its documented semantics, and the derived     *)
(* operators that ARE property C06:                                        *)
(*    EnvSender  = envelope-from when set, From otherwise                   *)
(*    EnvRcpts   = To \o Cc \o Bcc, one RCPT per occurrence                 *)
(*    Rendered   = From (or envelope-from), To, Cc, Reply-To; never Bcc     *)
(* TLC explores every call sequence up to a length bound; the real Msg     *)
(* executes each sequence, is rendered and sent to the reference server,   *)
(* and the trace monitor (TraceAddr.tla) folds Apply over the recorded     *)
(* calls and compares.                                                     *)
(***************************************************************************)
EXTENDS Naturals, Sequences, FiniteSets, TLC, Json

(* address tokens: string form handed to the API, parsed name / address, validity *)
Tok == [
  a1  |-> [s |-> "a1@to.test", n |-> "", a |-> "a1@to.test", ok |-> TRUE],
  a2  |-> [s |-> "\"Doe, John (Sales)\" <a2@to.test>", n |-> "Doe, John (Sales)", a |-> "a2@to.test", ok |-> TRUE],
  a3  |-> [s |-> "Grüße Ünï <a3@to.test>", n |-> "Grüße Ünï", a |-> "a3@to.test", ok |-> TRUE],
  a4  |-> [s |-> "<a4@cc.test>", n |-> "", a |-> "a4@cc.test", ok |-> TRUE],
  a5  |-> [s |-> "Plain Name <a5@bcc.test>", n |-> "Plain Name", a |-> "a5@bcc.test", ok |-> TRUE],
  a6  |-> [s |-> "user%relay.example@to.test", n |-> "", a |-> "user%relay.example@to.test", ok |-> TRUE],   \* '%' is atext
  a7  |-> [s |-> "\"user@internal\"@gw.test", n |-> "", a |-> "user@internal@gw.test", ok |-> TRUE],   \* a local part that needs quoting: it holds an '@'
  a8  |-> [s |-> "reply+0123456789abcdef0123456789abcdef0123456789@very-long-subdomain-name.of-a-corporation.example.org", n |-> "",
           a |-> "reply+0123456789abcdef0123456789abcdef0123456789@very-long-subdomain-name.of-a-corporation.example.org", ok |-> TRUE],   \* longer than a header line
  bad |-> [s |-> "not an address", n |-> "", a |-> "", ok |-> FALSE],
  bad2 |-> [s |-> "trailing@", n |-> "", a |-> "", ok |-> FALSE] ]
TokIds == DOMAIN Tok

Kinds == {"To", "Cc", "Bcc"}

InitSt == [To |-> <<>>, Cc |-> <<>>, Bcc |-> <<>>, From |-> <<>>, Env |-> <<>>, Reply |-> <<>>]

Entry(t) == [n |-> Tok[t].n, a |-> Tok[t].a]
AllOK(ts) == \A i \in DOMAIN ts : Tok[ts[i]].ok
Entries(ts) == [i \in DOMAIN ts |-> Entry(ts[i])]
ValidOnly(ts) == SelectSeq(ts, LAMBDA t : Tok[t].ok)

(* a call: [op, k, ts, name]  - and whether it returns an error *)
Fails(st, c) ==
  CASE c.op \in {"set", "add", "fromstr"}              -> ~AllOK(c.ts)
    [] c.op \in {"from", "envfrom", "replyto"}         -> ~AllOK(c.ts)
    [] c.op = "setign"                                 -> FALSE
    [] c.op \in {"addformat", "fromformat", "reset", "envign", "render"}   -> FALSE
    [] OTHER -> FALSE

Single(k) == k \in {"From", "Env", "Reply"}

Apply(st, c) ==
  IF Fails(st, c) THEN st
  ELSE CASE c.op \in {"set", "fromstr"} -> [st EXCEPT ![c.k] = Entries(c.ts)]
         [] c.op = "add"     -> [st EXCEPT ![c.k] = @ \o Entries(c.ts)]
         [] c.op = "setign"  -> [st EXCEPT ![c.k] = Entries(ValidOnly(c.ts))]
         [] c.op = "from"    -> [st EXCEPT !.From = IF c.ts = <<>> THEN @ ELSE <<Entry(c.ts[1])>>]
         [] c.op = "envfrom" -> [st EXCEPT !.Env = IF c.ts = <<>> THEN @ ELSE <<Entry(c.ts[1])>>]
         [] c.op = "replyto" -> [st EXCEPT !.Reply = IF c.ts = <<>> THEN @ ELSE <<Entry(c.ts[1])>>]
         [] c.op = "addformat"  -> [st EXCEPT ![c.k] = Append(@, [n |-> c.name, a |-> Tok[c.ts[1]].a])]
         [] c.op = "fromformat" -> [st EXCEPT !.From = <<[n |-> c.name, a |-> Tok[c.ts[1]].a]>>]
         \* SetAddrHeaderIgnoreInvalid(HeaderEnvelopeFrom, ...): the list of the valid addresses, possibly empty
         [] c.op = "envign"     -> [st EXCEPT !.Env = Entries(ValidOnly(c.ts))]
         [] c.op = "render"     -> st              \* a render between two setter calls changes nothing
         [] c.op = "reset"      -> InitSt          \* Msg.Reset: every address list, the envelope-from included
         [] OTHER -> st

RECURSIVE ApplyAll(_, _)
ApplyAll(st, cs) == IF cs = <<>> THEN st ELSE ApplyAll(Apply(st, Head(cs)), Tail(cs))

Addrs(s) == [i \in DOMAIN s |-> s[i].a]

(* ---- the property ---- *)
EnvSender(st) == IF st.Env # <<>> THEN st.Env[1].a ELSE IF st.From # <<>> THEN st.From[1].a ELSE ""
EnvRcpts(st)  == Addrs(st.To) \o Addrs(st.Cc) \o Addrs(st.Bcc)
RenderedFrom(st) == IF st.From # <<>> THEN st.From ELSE st.Env
Visible(st) == {st.To[i].a : i \in DOMAIN st.To} \cup {st.Cc[i].a : i \in DOMAIN st.Cc}
               \cup {RenderedFrom(st)[i].a : i \in DOMAIN RenderedFrom(st)} \cup {st.Reply[i].a : i \in DOMAIN st.Reply}
HiddenBcc(st) == {st.Bcc[i].a : i \in DOMAIN st.Bcc} \ Visible(st)

-----------------------------------------------------------------------------
(* design model: call sequences *)
CONSTANTS MAXLEN, MENU     \* MENU: name of the call menu ("small", "full")

NameCls == [plain |-> "Sales Team", quoted |-> "Smith,  John \"JS\" (Sales)", utf8 |-> "Grüße Ünï",
            utf8sp |-> "Müller, Jörg (Büro: Support) <x>"]    \* needs encoding AND holds characters special in a phrase

C(op, k, ts, name) == [op |-> op, k |-> k, ts |-> ts, name |-> name]

MenuSmall ==
     {C("set", k, <<t>>, "") : k \in Kinds, t \in {"a1", "a2"}}
  \cup {C("add", k, <<t>>, "") : k \in Kinds, t \in {"a3", "a1"}}
  \cup {C("set", k, <<"a1", "bad">>, "") : k \in {"To", "Bcc"}}
  \cup {C("setign", k, <<"a1", "bad", "a5">>, "") : k \in {"Cc", "Bcc"}}
  \cup {C("from", "From", <<t>>, "") : t \in {"a4", "bad"}}
  \cup {C("envfrom", "Env", <<"a5">>, ""), C("replyto", "Reply", <<"a2">>, "")}
  \cup {C("addformat", "Bcc", <<"a1">>, NameCls.quoted)}
  \cup {C("reset", "To", <<>>, ""), C("add", "Cc", <<"a6">>, ""), C("add", "To", <<"a7">>, "")}
  \cup {C("render", "To", <<>>, ""), C("envfrom", "Env", <<"a2">>, "")}
  \cup {C("addformat", "To", <<"a1">>, NameCls.utf8sp), C("add", "Cc", <<"a8">>, "")}
  \cup {C("envign", "Env", <<"bad">>, ""), C("envign", "Env", <<"bad", "a5">>, "")}

MenuFull ==
     {C("set", k, <<t>>, "") : k \in Kinds, t \in {"a1", "a2", "a3", "a4"}}
  \cup {C("set", k, <<"a1", "a2">>, "") : k \in Kinds}
  \cup {C("set", k, <<>>, "") : k \in Kinds}
  \cup {C("set", k, <<"a1", "bad">>, "") : k \in Kinds}
  \cup {C("add", k, <<t>>, "") : k \in Kinds, t \in {"a1", "a3", "a5", "bad2"}}
  \cup {C("setign", k, <<"a1", "bad", "a5">>, "") : k \in Kinds}
  \cup {C("setign", k, <<"bad", "bad2">>, "") : k \in Kinds}
  \cup {C("fromstr", k, <<"a1", "a4">>, "") : k \in Kinds}
  \cup {C("from", "From", <<t>>, "") : t \in {"a2", "a4", "bad"}}
  \cup {C("envfrom", "Env", <<t>>, "") : t \in {"a5", "bad"}}
  \cup {C("replyto", "Reply", <<t>>, "") : t \in {"a2", "a3"}}
  \cup {C("addformat", k, <<"a1">>, NameCls[nm]) : k \in Kinds, nm \in DOMAIN NameCls}
  \cup {C("fromformat", "From", <<"a4">>, NameCls[nm]) : nm \in DOMAIN NameCls}
  \cup {C("set", k, <<"a8">>, "") : k \in Kinds} \cup {C("from", "From", <<"a8">>, "")}
  \cup {C("reset", "To", <<>>, ""), C("render", "To", <<>>, "")} \cup {C("set", k, <<t>>, "") : k \in Kinds, t \in {"a6", "a7"}} \cup {C("envfrom", "Env", <<"a7">>, "")}
  \cup {C("envign", "Env", <<"bad">>, ""), C("envign", "Env", <<"bad2", "a5">>, ""), C("envign", "Env", <<>>, "")}

Menu == IF MENU = "full" THEN MenuFull ELSE MenuSmall

VARIABLES st, calls, pc
vars == <<st, calls, pc>>

Init == st = InitSt /\ calls = <<>> /\ pc = "build"
Call == /\ pc = "build" /\ Len(calls) < MAXLEN
        /\ \E c \in Menu : st' = Apply(st, c) /\ calls' = Append(calls, c)
        /\ pc' = "build"
Finish == pc = "build" /\ calls # <<>> /\ pc' = "done" /\ UNCHANGED <<st, calls>>
Next == Call \/ Finish
Spec == Init /\ [][Next]_vars

(* design invariants: the state is what folding the calls gives; Bcc never visible; counts *)
FoldAgrees   == st = ApplyAll(InitSt, calls)
RcptCount    == Len(EnvRcpts(st)) = Len(st.To) + Len(st.Cc) + Len(st.Bcc)
AtMostOneFrom == Len(st.From) <= 1 /\ Len(st.Env) <= 1 /\ Len(st.Reply) <= 1
SenderDefined == (st.From # <<>> \/ st.Env # <<>>) => EnvSender(st) # ""

Scenario == [calls |-> calls, toks |-> Tok,
             expect |-> [sender |-> EnvSender(st), rcpts |-> EnvRcpts(st)]]
Emit == pc = "done" => PrintT(<<"SCENARIO", ToJson(Scenario)>>)
=============================================================================
