------------------------------ MODULE TraceLife ------------------------------
(***************************************************************************)
(* Trace validation for the Client life cycle (ClientLife.tla).  The calls *)
(* recorded from the real Client are folded through ClientLife!Step; what  *)
(* each call returned, what the reference server read while it ran and     *)
(* which transports were opened / closed are compared with the result of   *)
(* Step.  Several traces are concatenated ("begin" resets).                *)
(***************************************************************************)
EXTENDS Naturals, Sequences, FiniteSets, TLC, Json, IOUtils, SequencesExt

R == INSTANCE Rfc5321
L == INSTANCE ClientLife WITH MAXOPS <- 0, OPNAMES <- {}, DEV_SendOnClosed <- FALSE, st <- 0, hist <- 0, outs <- 0

Trace == ndJsonDeserialize(IOEnv.TRACE_FILE)

VARIABLES l, b, st, cur, sharedCid, openSet, lastOpened, viol1, viols, stats,
          srv      \* per server-side connection: the RFC 5321 session state the recorded commands / replies drive
tvars == <<l, b, st, cur, sharedCid, openSet, lastOpened, viol1, viols, stats, srv>>
NoSrv == [ss |-> "pre", helo |-> FALSE, pend |-> ""]
SrvOf(c) == IF c \in DOMAIN srv THEN srv[c] ELSE NoSrv
PutSrv(c, x) == [k \in DOMAIN srv \cup {c} |-> IF k = c THEN x ELSE srv[k]]
Ev == Trace[l]

F(name, ok) == IF ok THEN {} ELSE {name}
NoCall == [active |-> FALSE, k |-> 0, op |-> "", f |-> "", res |-> 0, cmds |-> <<>>, opened |-> {}, closed |-> {}, acked |-> FALSE]
ZeroStats == [traces |-> 0, events |-> 0, calls |-> 0, delivered |-> 0, errors |-> 0, noconn |-> 0, gone |-> 0]

TInit == /\ l = 1 /\ b = [t |-> 0] /\ st = L!InitSt /\ cur = NoCall /\ sharedCid = 0 /\ openSet = {} /\ lastOpened = 0
         /\ viol1 = {} /\ viols = {} /\ stats = ZeroStats /\ srv = <<>>

(* judgement of one finished call: e is the ret event *)
RetFlags(e) ==
  LET r == cur.res
      onShared == {i \in DOMAIN cur.cmds : cur.cmds[i] = sharedCid}
      onOwn    == {i \in DOMAIN cur.cmds : cur.cmds[i] \in cur.opened}
  IN   F("X01_ErrorAsSpecified", e.err = r.err)
  \cup F("X01_DeliveredAsSpecified", e.delivered = r.delivered)
  \cup F("X01_DeliveredIffAcked", e.delivered = cur.acked)
  \cup F("X01_NoConnectionReported", r.noconn => e.noconn)
  \* nothing is put on the wire by a call that has no connection to use
  \cup F("X01_NothingSentWithoutConnection", r.wire = "none" => cur.cmds = <<>>)
  \cup F("X01_OnlyOwnConnection", r.wire = "own" => Cardinality(onOwn) = Len(cur.cmds))
  \cup F("X01_OnlySharedConnection", r.wire = "shared" => Cardinality(onShared) = Len(cur.cmds))
  \* transports: Close closes the shared connection; DialAndSend closes what it opened; a failed Dial leaves nothing open
  \cup F("X01_CloseClosesShared", r.closes = "shared" => sharedCid \in cur.closed)
  \cup F("X01_OwnConnectionClosed", (e.op \in L!OwnOps \/ (e.op = "Dial" /\ e.err)) => cur.opened \subseteq cur.closed)
  \* a successful Dial (and every DialAndSend that is not refused) opens exactly one new transport
  \cup F("X01_DialOpensConnection", ((e.op = "Dial" /\ ~e.err) \/ (e.op \in L!OwnOps /\ cur.f # "refused")) => Cardinality(cur.opened) = 1)
  \cup F("X01_NoForeignClose", (r.closes = "none" /\ e.op # "Dial") => cur.closed = {})

Step ==
  /\ l <= Len(Trace)
  /\ l' = l + 1
  /\ CASE Ev.ev = "eof" ->
            /\ JsonSerialize(IOEnv.OUT_FILE, [violations |-> SetToSeq(viols), drift |-> <<>>, stats |-> [stats EXCEPT !.events = l]])
            /\ UNCHANGED <<srv, b, st, cur, sharedCid, openSet, lastOpened, viol1, viols, stats>>
       [] Ev.ev = "begin" ->
            /\ b' = Ev /\ st' = L!InitSt /\ cur' = NoCall /\ sharedCid' = 0 /\ openSet' = {} /\ lastOpened' = 0 /\ viol1' = {}
            /\ srv' = <<>>
            /\ UNCHANGED <<viols, stats>>
       [] Ev.ev = "gone" ->
            /\ stats' = [stats EXCEPT !.gone = @ + 1]
            /\ UNCHANGED <<srv, b, st, cur, sharedCid, openSet, lastOpened, viol1, viols>>
       [] Ev.ev = "call" ->
            /\ cur' = [NoCall EXCEPT !.active = TRUE, !.k = Ev.k, !.op = Ev.op, !.f = Ev.f, !.res = L!Step(st, Ev.op, Ev.f)]
            /\ stats' = [stats EXCEPT !.calls = @ + 1]
            /\ UNCHANGED <<srv, b, st, sharedCid, openSet, lastOpened, viol1, viols>>
       [] Ev.ev = "open" ->
            /\ openSet' = openSet \cup {Ev.cid} /\ lastOpened' = Ev.cid
            /\ cur' = IF cur.active THEN [cur EXCEPT !.opened = @ \cup {Ev.cid}] ELSE cur
            /\ viol1' = viol1 \cup F("X01_NoDialOutsideCalls", cur.active)
            /\ UNCHANGED <<srv, b, st, sharedCid, viols, stats>>
       [] Ev.ev = "cclose" ->
            /\ openSet' = openSet \ {Ev.cid}
            /\ cur' = IF cur.active THEN [cur EXCEPT !.closed = @ \cup {Ev.cid}] ELSE cur
            /\ UNCHANGED <<srv, b, st, sharedCid, lastOpened, viol1, viols, stats>>
       [] Ev.ev = "cmd" ->    \* a command line read by the reference server on connection Ev.conn
            /\ cur' = IF cur.active THEN [cur EXCEPT !.cmds = Append(@, Ev.conn)] ELSE cur
            /\ viol1' = viol1 \cup F("X01_NoTrafficOutsideCalls", cur.active)
                               \* every connection of the history carries a legal RFC 5321 dialogue (Rfc5321.tla)
                               \cup F("X01_LegalDialogue", R!SrvLegal(SrvOf(Ev.conn).ss, SrvOf(Ev.conn).helo, Ev.verb))
            /\ srv' = PutSrv(Ev.conn, [SrvOf(Ev.conn) EXCEPT !.pend = Ev.verb])
            /\ UNCHANGED <<b, st, sharedCid, openSet, lastOpened, viols, stats>>
       [] Ev.ev = "eod" ->    \* the reply to the end-of-data follows on the same connection (events of other connections
                              \* may lie between the two); acked when it is positive
            /\ UNCHANGED cur
            /\ viol1' = viol1 \cup F("X01_LegalDialogue", SrvOf(Ev.conn).ss = "data")
            /\ srv' = PutSrv(Ev.conn, [SrvOf(Ev.conn) EXCEPT !.pend = "EOD"])
            /\ UNCHANGED <<b, st, sharedCid, openSet, lastOpened, viols, stats>>
       [] Ev.ev = "greet" ->
            /\ srv' = PutSrv(Ev.conn, [NoSrv EXCEPT !.ss = IF Ev.cls = "ok" THEN "idle" ELSE "pre"])
            /\ UNCHANGED <<b, st, cur, sharedCid, openSet, lastOpened, viol1, viols, stats>>
       [] Ev.ev = "reply" ->
            LET x == SrvOf(Ev.conn) IN
            /\ srv' = PutSrv(Ev.conn, [x EXCEPT !.ss = R!SrvNext(x.ss, x.pend, Ev.cls), !.pend = "",
                                                 !.helo = IF x.pend \in {"EHLO", "HELO"} /\ Ev.cls = "ok" THEN TRUE ELSE @])
            /\ cur' = IF cur.active /\ x.pend = "EOD" /\ Ev.code = 250 THEN [cur EXCEPT !.acked = TRUE] ELSE cur
            /\ UNCHANGED <<b, st, sharedCid, openSet, lastOpened, viol1, viols, stats>>
       [] Ev.ev = "ret" ->
            /\ viol1' = viol1 \cup RetFlags(Ev)
            /\ st' = cur.res.st
            /\ sharedCid' = IF Ev.op = "Dial" /\ ~Ev.err THEN lastOpened ELSE sharedCid
            /\ cur' = NoCall
            /\ stats' = [stats EXCEPT !.delivered = @ + (IF Ev.delivered THEN 1 ELSE 0), !.errors = @ + (IF Ev.err THEN 1 ELSE 0),
                                      !.noconn = @ + (IF Ev.noconn THEN 1 ELSE 0)]
            /\ UNCHANGED <<srv, b, openSet, lastOpened, viols>>
       [] Ev.ev = "end" ->
            \* what is still open at the end: at most the shared connection and the ones a second Dial replaced
            /\ viols' = viols \cup {[t |-> b.t, p |-> p] : p \in viol1 \cup
                           F("X01_NoLeakBeyondReplaced", Cardinality(openSet) <= st.replaced + (IF st.shared = "open" THEN 1 ELSE 0))}
            /\ stats' = [stats EXCEPT !.traces = @ + 1]
            /\ UNCHANGED <<srv, b, st, cur, sharedCid, openSet, lastOpened, viol1>>
       [] OTHER -> UNCHANGED <<srv, b, st, cur, sharedCid, openSet, lastOpened, viol1, viols, stats>>

TSpec == TInit /\ [][Step]_tvars
AllConsumed == TLCGet("stats").diameter - 1 = Len(Trace)
=============================================================================
