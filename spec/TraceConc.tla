------------------------------ MODULE TraceConc ------------------------------
(***************************************************************************)
(* Trace validation for C13.  The commands and end-of-data events the       *)
(* reference server read, tagged with their connection, are checked against *)
(* the invariants of SendLock.tla: transactions of different messages never *)
(* interleave on a connection, every message is committed exactly once,    *)
(* complete, with its own envelope, and is reported delivered.             *)
(***************************************************************************)
EXTENDS Naturals, Sequences, FiniteSets, TLC, Json, IOUtils, SequencesExt

Trace == ndJsonDeserialize(IOEnv.TRACE_FILE)
VARIABLES l, b, cs, commits, viol1, viols, stats
(* goroutines whose DialAndSend meets a refused dial (begin event; absent in hand-written replays) *)
Refused == IF "refused" \in DOMAIN b THEN {b.refused[i] : i \in DOMAIN b.refused} ELSE {}
tvars == <<l, b, cs, commits, viol1, viols, stats>>
Ev == Trace[l]
F(name, ok) == IF ok THEN {} ELSE {name}

NoTxn == [open |-> FALSE, m |-> 0, acc |-> {}, pend |-> "none", content |-> ""]
Conn(c) == IF c \in DOMAIN cs THEN cs[c] ELSE NoTxn
Put(c, v) == [x \in DOMAIN cs \cup {c} |-> IF x = c THEN v ELSE cs[x]]

ZeroStats == [traces |-> 0, events |-> 0, cmds |-> 0, commits |-> 0, imposed |-> 0, skipped |-> 0, conns |-> 0, goroutines |-> 0]
TInit == l = 1 /\ b = [t |-> 0] /\ cs = <<>> /\ commits = <<>> /\ viol1 = {} /\ viols = {} /\ stats = ZeroStats

Step ==
  /\ l <= Len(Trace)
  /\ l' = l + 1
  /\ CASE Ev.ev = "eof" ->
            /\ JsonSerialize(IOEnv.OUT_FILE, [violations |-> SetToSeq(viols), drift |-> <<>>, stats |-> [stats EXCEPT !.events = l]])
            /\ UNCHANGED <<b, cs, commits, viol1, viols, stats>>
       [] Ev.ev = "begin" ->
            /\ b' = Ev /\ cs' = <<>> /\ commits' = <<>> /\ viol1' = {}
            /\ stats' = [stats EXCEPT !.imposed = @ + (IF Ev.imposed THEN 1 ELSE 0), !.goroutines = @ + Ev.n]
            /\ UNCHANGED viols
       [] Ev.ev = "cmd" ->
            LET c == Ev.conn  s == Conn(c)  v == Ev.verb IN
            /\ viol1' = viol1 \cup
                 (IF s.open
                  THEN F("C13_TransactionsContiguous", (v = "RCPT" /\ Ev.m = s.m) \/ v = "DATA" \/ (v = "RSET" /\ s.m = b.reject))
                  ELSE F("C13_TransactionsContiguous", v \notin {"RCPT", "DATA"}))
            /\ cs' = Put(c, CASE v = "MAIL" -> [open |-> TRUE, m |-> Ev.m, acc |-> {}, pend |-> "MAIL", content |-> ""]
                               [] v = "RCPT" -> [s EXCEPT !.pend = "RCPT", !.acc = IF Ev.m = s.m THEN @ \cup {Ev.r} ELSE @ \cup {0}]
                               [] v = "RSET" -> [NoTxn EXCEPT !.pend = "RSET"]
                               [] OTHER -> [s EXCEPT !.pend = v])
            /\ stats' = [stats EXCEPT !.cmds = @ + 1, !.conns = IF c \in DOMAIN cs THEN @ ELSE @ + 1]
            /\ UNCHANGED <<b, commits, viols>>
       [] Ev.ev = "eod" ->
            LET c == Ev.conn  s == Conn(c) IN
            /\ viol1' = viol1 \cup F("C13_OwnEnvelope", /\ s.open /\ Ev.m = s.m /\ Ev.content = "complete"
                                                       /\ s.acc = 1..b.r)
            /\ cs' = Put(c, [s EXCEPT !.pend = "EOD", !.content = Ev.content, !.m = Ev.m])
            /\ UNCHANGED <<b, commits, viols, stats>>
       [] Ev.ev = "reply" ->
            LET c == Ev.conn  s == Conn(c) IN
            /\ commits' = IF s.pend = "EOD" /\ Ev.cls = "ok" THEN Append(commits, s.m) ELSE commits
            /\ cs' = Put(c, IF s.pend = "EOD" THEN [NoTxn EXCEPT !.pend = "none"] ELSE [s EXCEPT !.pend = "none"])
            /\ stats' = [stats EXCEPT !.commits = @ + (IF s.pend = "EOD" /\ Ev.cls = "ok" THEN 1 ELSE 0)]
            /\ UNCHANGED <<b, viol1, viols>>
       [] Ev.ev = "panic" ->        \* a sender goroutine panicked inside the library
            /\ viol1' = viol1 \cup {"C13_NoPanic"}
            /\ UNCHANGED <<b, cs, commits, viols, stats>>
       [] Ev.ev = "renderfail" ->   \* rendering a message into memory failed while other goroutines rendered theirs
            /\ viol1' = viol1 \cup {"C13_ConcurrentRender"}
            /\ UNCHANGED <<b, cs, commits, viols, stats>>
       [] Ev.ev = "hang" ->
            /\ viol1' = viol1 \cup {"C13_NoDeadlock"}
            /\ UNCHANGED <<b, cs, commits, viols, stats>>
       [] Ev.ev = "ret" ->
            /\ viol1' = viol1
                 \* (a message whose recipients the scenario rejects is committed zero times and reported as failed)
                 \* (the messages of a DialAndSend whose dial the server refused may stay undelivered: at most once, and the report says which)
                 \cup F("C13_ExactlyOnce", \A p \in 1..b.n : LET c == Cardinality({i \in DOMAIN commits : commits[i] = p}) IN
                                                                IF p \in Refused THEN c <= 1 ELSE c = (IF p = b.reject THEN 0 ELSE 1))
                 \cup F("C13_Delivered", \A i \in DOMAIN Ev.res : IF Ev.res[i].p \in Refused
                                                                     THEN (Ev.res[i].delivered <=> (\E k \in DOMAIN commits : commits[k] = Ev.res[i].p))
                                                                     ELSE IF Ev.res[i].p = b.reject THEN (~Ev.res[i].delivered /\ Ev.res[i].err)
                                                                     ELSE (Ev.res[i].delivered /\ ~Ev.res[i].err))
            /\ stats' = [stats EXCEPT !.skipped = @ + Ev.skipped]
            /\ UNCHANGED <<b, cs, commits, viols>>
       [] Ev.ev = "end" ->
            /\ viols' = viols \cup {[t |-> b.t, p |-> p] : p \in viol1}
            /\ stats' = [stats EXCEPT !.traces = @ + 1]
            /\ UNCHANGED <<b, cs, commits, viol1>>
       [] OTHER -> UNCHANGED <<b, cs, commits, viol1, viols, stats>>

TSpec == TInit /\ [][Step]_tvars
AllConsumed == TLCGet("stats").diameter - 1 = Len(Trace)
=============================================================================
