------------------------------ MODULE B64Line ------------------------------
(***************************************************************************)
(* The base64 line breaker (b64linebreaker.go): a writer that cuts the     *)
(* stream of base64 characters it is given into lines of exactly           *)
(* MaxBodyLength = 76 characters, whatever the sizes of the Write calls,   *)
(* and ends the last, shorter line when it is closed (property C18: "this  *)
(* holds however the content producers chunk their writes").               *)
(*                                                                         *)
(* State: used  (characters buffered for the current line, 0..75)          *)
(*        lines (lengths of the lines put out so far)                      *)
(*        rest  (characters of the current Write call still to be handled: *)
(*               the code recurses with the remainder after a full line)   *)
(* One action per call of Write as the code makes them (the recursive call *)
(* is a call of its own, exactly as the build-tag hook reports it), one    *)
(* for Close.  Call(used, n) is the step function shared with the trace    *)
(* monitor (TraceMime.tla), which folds it over the calls recorded from    *)
(* the real breaker and compares `used` at every call and the line lengths *)
(* of the encoded body that comes out.                                     *)
(***************************************************************************)
EXTENDS Naturals, Sequences, FiniteSets, TLC

MAXLINE == 76

CONSTANTS SIZES,          \* sizes of the Write calls of the encoder (a set of naturals)
          MAXCALLS,       \* Write calls per stream
          DEV_OffByOne    \* deviation: a line is flushed only when it would EXCEED the limit (<= instead of <)

(* one call Write(data) with len(data) = n in state used: [used', line (0 = none put out), rest (what the recursive call gets, -1 = no recursion)] *)
Call(used, n) ==
  IF (IF DEV_OffByOne THEN used + n <= MAXLINE ELSE used + n < MAXLINE)
  THEN [used |-> used + n, line |-> 0, rest |-> 0, rec |-> FALSE]
  ELSE [used |-> 0, line |-> MAXLINE, rest |-> n - (MAXLINE - used), rec |-> TRUE]

(* Close: the rest of the last line *)
CloseLine(used) == IF used > 0 THEN used ELSE 0

VARIABLES used, lines, rest, inrec, total, calls, closed
vars == <<used, lines, rest, inrec, total, calls, closed>>

Init == used = 0 /\ lines = <<>> /\ rest = 0 /\ inrec = FALSE /\ total = 0 /\ calls = 0 /\ closed = FALSE

(* a Write call of the encoder *)
Write == /\ ~closed /\ ~inrec /\ calls < MAXCALLS
         /\ \E n \in SIZES :
              LET r == Call(used, n) IN
              /\ used' = r.used /\ rest' = r.rest /\ inrec' = r.rec
              /\ lines' = IF r.line > 0 THEN Append(lines, r.line) ELSE lines
              /\ total' = total + n /\ calls' = calls + 1
         /\ UNCHANGED closed

(* the recursive call with the remainder of the data *)
Recurse == /\ inrec
           /\ LET r == Call(used, rest) IN
              /\ used' = r.used /\ rest' = r.rest /\ inrec' = r.rec
              /\ lines' = IF r.line > 0 THEN Append(lines, r.line) ELSE lines
           /\ UNCHANGED <<total, calls, closed>>

Close == /\ ~closed /\ ~inrec
         /\ lines' = IF CloseLine(used) > 0 THEN Append(lines, CloseLine(used)) ELSE lines
         /\ used' = 0 /\ closed' = TRUE
         /\ UNCHANGED <<rest, inrec, total, calls>>

Next == Write \/ Recurse \/ Close
Spec == Init /\ [][Next]_vars

(* every line that was put out is full, the buffer never holds a full line *)
FullLines == \A i \in DOMAIN lines : (i < Len(lines) \/ ~closed) => lines[i] = MAXLINE
NeverTooLong == used < MAXLINE /\ \A i \in DOMAIN lines : lines[i] <= MAXLINE /\ lines[i] > 0
Sum(s) == LET F[i \in 0..Len(s)] == IF i = 0 THEN 0 ELSE F[i - 1] + s[i] IN F[Len(s)]
(* nothing is lost or invented *)
Conserves == Sum(lines) + used + (IF inrec THEN rest ELSE 0) = total
Complete == closed => Sum(lines) = total
=============================================================================
