------------------------------ MODULE MsgCalls ------------------------------
(***************************************************************************)
(* Sequences of builder calls on one Msg (msg.go) and the message they     *)
(* leave behind - the "programs" of MimeBuild.tla were abstract messages;  *)
(* here the calls themselves are the input (property C01: "every message   *)
(* that can be built").                                                    *)
(*                                                                         *)
(*   SetBodyP / SetBodyH    SetBodyString: REPLACES all body parts          *)
(*   AddAltP / AddAltH      AddAlternativeString: appends a body part       *)
(*   Del1 / Del2            GetParts()[i].Delete(): the part stays in the   *)
(*                          list but is not rendered                        *)
(*   Embed / Attach         EmbedReadSeeker / AttachReadSeeker: append      *)
(*   UnsetAtt / UnsetEmb    UnsetAllAttachments / UnsetAllEmbeds            *)
(*   UnsetParts             UnsetAllParts: attachments AND embeds (not the  *)
(*                          body parts)                                     *)
(*   DropFirstAtt, RevAtt   SetAttachments(GetAttachments()[1:] / reversed) *)
(*   DropFirstEmb           SetEmbeds(GetEmbeds()[1:])                      *)
(*   Handover               a second Msg takes over the files, the first is  *)
(*                          reset and refilled (a Msg reused in a loop)      *)
(* Every leaf is named after the index of the call that created it, so the *)
(* expectation says WHICH content must appear WHERE.  The final message is  *)
(* emitted in the format of MimeBuild (parts / embeds / atts with content   *)
(* class "id<k>") together with the calls; the harness executes the calls   *)
(* on a real Msg and the monitors of TraceMime.tla judge the rendering      *)
(* against the expectation computed here.                                   *)
(***************************************************************************)
EXTENDS Naturals, Sequences, FiniteSets, TLC, Json

CONSTANTS MAXCALLS, CALLS, ENCS

VARIABLES parts, dels, embeds, atts, hist, enc
vars == <<parts, dels, embeds, atts, hist, enc>>

M == INSTANCE MimeBuild WITH MAXP <- 0, MAXE <- 0, MAXA <- 0, ENCS <- {}, PENCS <- {}, FENCS <- {}, CCS <- <<>>,
                        PRODS <- <<>>, SRCS <- <<>>, ROTS <- {}, BOUNDARIES <- {}, DELS <- {}, HDRS <- {}, PDESCS <- {}, FDESCS <- {},
                        FNAMES <- {}, FCIDS <- {}, OPSEQS <- {}, FAULTS <- {}, ROUNDTRIP <- {}, SMIMES <- {}, MWS <- {}, STYLES <- {}, PGPS <- {}, CHARSETS <- {}, PCHARSETS <- {}, prog <- 0, pc <- 0

Init == parts = <<>> /\ dels = {} /\ embeds = <<>> /\ atts = <<>> /\ hist = <<>> /\ enc \in ENCS

Rev(s) == [i \in 1..Len(s) |-> s[Len(s) + 1 - i]]
Id == Len(hist) + 1            \* the leaf a call creates is named after the call's index

Apply(c) ==
  /\ hist' = Append(hist, c) /\ UNCHANGED enc
  /\ CASE c \in {"SetBodyP", "SetBodyH"} ->
            parts' = << [id |-> Id, ct |-> IF c = "SetBodyP" THEN "plain" ELSE "html"] >> /\ UNCHANGED <<dels, embeds, atts>>
       [] c \in {"AddAltP", "AddAltH"} ->
            parts' = Append(parts, [id |-> Id, ct |-> IF c = "AddAltP" THEN "plain" ELSE "html"]) /\ UNCHANGED <<dels, embeds, atts>>
       [] c \in {"Del1", "Del2"} ->
            LET i == IF c = "Del1" THEN 1 ELSE 2 IN
            /\ dels' = IF i <= Len(parts) THEN dels \cup {parts[i].id} ELSE dels
            /\ UNCHANGED <<parts, embeds, atts>>
       [] c = "Embed"  -> embeds' = Append(embeds, Id) /\ UNCHANGED <<parts, dels, atts>>
       [] c = "Attach" -> atts' = Append(atts, Id) /\ UNCHANGED <<parts, dels, embeds>>
       [] c = "UnsetAtt" -> atts' = <<>> /\ UNCHANGED <<parts, dels, embeds>>
       [] c = "UnsetEmb" -> embeds' = <<>> /\ UNCHANGED <<parts, dels, atts>>
       [] c = "UnsetParts" -> atts' = <<>> /\ embeds' = <<>> /\ UNCHANGED <<parts, dels>>
       [] c = "DropFirstAtt" -> atts' = (IF atts = <<>> THEN atts ELSE Tail(atts)) /\ UNCHANGED <<parts, dels, embeds>>
       [] c = "DropFirstEmb" -> embeds' = (IF embeds = <<>> THEN embeds ELSE Tail(embeds)) /\ UNCHANGED <<parts, dels, atts>>
       [] c = "RevAtt" -> atts' = Rev(atts) /\ UNCHANGED <<parts, dels, embeds>>
       \* another Msg takes the files over (SetAttachments(GetAttachments()), SetEmbeds(GetEmbeds())), the first one is
       \* reset and refilled; the calls continue on the new message, which has no body part yet
       [] c = "Handover" -> parts' = <<>> /\ dels' = {} /\ UNCHANGED <<embeds, atts>>

Next == Len(hist) < MAXCALLS /\ \E c \in CALLS : Apply(c)
Spec == Init /\ [][Next]_vars

Live == SelectSeq(parts, LAMBDA p : p.id \notin dels)
NLeaves == Len(Live) + Len(embeds) + Len(atts)
Cc(k) == "id" \o ToString(k)

(* design invariants *)
IdsUnique == \A i, j \in DOMAIN parts : parts[i].id = parts[j].id => i = j
LeafIdsAreCalls == \A p \in {parts[i] : i \in DOMAIN parts} : p.id \in 1..Len(hist)
TreeWellFormed == M!WellNested(M!ExpectedToks(Len(Live), Len(embeds), Len(atts)), <<>>)

FileRec(k) == [enc |-> "", desc |-> "", ctype |-> FALSE, cid |-> "", name |-> Cc(k), src |-> "seeker", cc |-> Cc(k)]
Scenario ==
  [prog |-> [enc |-> enc, boundary |-> "", hdrs |-> <<>>, smime |-> [key |-> "", inter |-> FALSE], calls |-> hist,
             parts |-> [i \in 1..Len(Live) |-> [ct |-> Live[i].ct, enc |-> "", desc |-> "", cc |-> Cc(Live[i].id), prod |-> "string", del |-> FALSE]],
             embeds |-> [i \in 1..Len(embeds) |-> FileRec(embeds[i])],
             atts |-> [i \in 1..Len(atts) |-> FileRec(atts[i])]],
   ops |-> <<"WriteTo", "WriteTo">>, roundtrip |-> FALSE,
   tree |-> [toks |-> M!ExpectedToks(Len(Live), Len(embeds), Len(atts))]]
Emit == (Len(hist) = MAXCALLS /\ NLeaves >= 1) => PrintT(<<"SCENARIO", ToJson(Scenario)>>)
=============================================================================
