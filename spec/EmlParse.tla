------------------------------ MODULE EmlParse ------------------------------
(***************************************************************************)
(* The control flow of the EML parser (eml.go) over abstract inputs        *)
(* (property C09: parsing is total; also the expectation side of C10).     *)
(*                                                                         *)
(* An abstract input fixes the classes the parser branches on: the         *)
(* top-level media type, boundary parameter and transfer encoding, the     *)
(* address / date fields, and for multiparts the sequence of parts, each   *)
(* with media type class, disposition class, filename parameter class,     *)
(* content-id, transfer encoding and - for nested multiparts - sub-parts;   *)
(* plus a truncation point.  The parser is transcribed as a state machine  *)
(* that consumes the input: one action per branch of parseEML,             *)
(* parseEMLBodyParts, the goto loop of parseEMLMultipart (one part per     *)
(* iteration) and parseEMLAttachmentEmbed.  Design properties: every       *)
(* behaviour ends in "msg" or "err" (totality) and the loop variant        *)
(* (remaining parts) strictly decreases (termination).  TLC enumerates     *)
(* every input within the mutation budget; each becomes one concrete EML   *)
(* text (plus reader faults and byte noise) for the real parser.           *)
(***************************************************************************)
EXTENDS Naturals, Sequences, FiniteSets, TLC, Json

CONSTANTS BUDGET,          \* how many fields may deviate from the normal message
          MAXPARTS,        \* parts of a multipart
          DEV_SliceFilename \* pinned code: name[1:len(name)-1] panics for short filename parameters

(* ---- classes ---- *)
CTypes   == {"absent", "plain", "html", "mixed", "related", "alternative", "other", "unparsable",
             "plainlq", "plainqs", "plainempty"}    \* text/plain with a damaged charset parameter: lone quote, quoted ";...", empty
(* special / long70: well-formed boundaries out of the rarer bchars of RFC 2046 ( ' ( ) + _ , - . / : = ? ) and of the maximal length *)
OkBounds == {"ok", "special", "long70"}
Bounds   == OkBounds \cup {"absent", "empty", "mismatch"}
(* b64cutN: well-formed base64 that ends N characters short of a complete group of four (a message cut in transit) *)
B64Cuts  == {"b64cut1", "b64cut2", "b64cut3"}
(* cteparen / ctecomment: a known token followed by parentheses - unbalanced in the wrong order, or an RFC 5322 comment *)
OddCTEs  == {"cteparen", "ctecomment"}
CTEs     == {"absent", "7bit", "8bit", "qp", "b64", "unknown", "b64garbage"} \cup B64Cuts \cup OddCTEs
Addrs    == {"ok", "bad", "absent", "emptygroup"}
Dates    == {"ok", "bad", "absent"}
PTypes   == {"plain", "html", "related", "alternative", "mixed", "noctype", "other", "twoctypes"}
Disps    == {"absent", "attachment", "inline", "other", "empty"}
FNames   == {"absent", "quoted", "unquoted2", "unquoted1", "empty", "quoteonly", "unterminated", "dup", "encoded", "encodedkoi",
             "longcjk", "longumlaut", "long300", "long2231",   \* names beyond 255 octets: 90 CJK characters, 150 umlauts, 300 letters, RFC 2231 continuations
             "sizeneg", "sizehuge", "sizeok"}       \* a size parameter next to the file name: negative, absurdly large, plausible
Truncs   == {"none", "header", "boundary", "body", "noclose"}

NormalPart == [ptype |-> "plain", disp |-> "absent", fname |-> "absent", cid |-> FALSE, cte |-> "qp", sub |-> 0]
NormalTop  == [ctype |-> "mixed", boundary |-> "ok", cte |-> "absent", from |-> "ok", to |-> "ok", date |-> "ok", trunc |-> "none"]

(* distance from the normal message = number of deviating fields *)
PartDev(p) == (IF p.ptype # "plain" THEN 1 ELSE 0) + (IF p.disp # "absent" THEN 1 ELSE 0) + (IF p.fname # "absent" THEN 1 ELSE 0)
              + (IF p.cid THEN 1 ELSE 0) + (IF p.cte # "qp" THEN 1 ELSE 0)
TopDev(t) == (IF t.ctype # "mixed" THEN 1 ELSE 0) + (IF t.boundary # "ok" THEN 1 ELSE 0) + (IF t.cte # "absent" THEN 1 ELSE 0)
             + (IF t.from # "ok" THEN 1 ELSE 0) + (IF t.to # "ok" THEN 1 ELSE 0) + (IF t.date # "ok" THEN 1 ELSE 0)
             + (IF t.trunc # "none" THEN 1 ELSE 0)

Parts == [ptype : PTypes, disp : Disps, fname : FNames, cid : BOOLEAN, cte : CTEs, sub : 0..2]
Tops  == [ctype : CTypes, boundary : Bounds, cte : CTEs, from : Addrs, to : Addrs, date : Dates, trunc : Truncs]

SumDev(ps) == IF ps = <<>> THEN 0 ELSE PartDev(ps[1]) + (IF Len(ps) > 1 THEN PartDev(ps[2]) ELSE 0) + (IF Len(ps) > 2 THEN PartDev(ps[3]) ELSE 0)

(* the inputs within the mutation budget, built so that no large product is enumerated *)
WF(p) == p.sub > 0 => p.ptype \in {"related", "alternative", "mixed"}
PD0 == {p \in Parts : PartDev(p) = 0 /\ WF(p)}
PD1 == {p \in Parts : PartDev(p) <= 1 /\ WF(p)}
PD2 == {p \in Parts : PartDev(p) <= 2 /\ WF(p)}
PD(k) == IF k <= 0 THEN PD0 ELSE IF k = 1 THEN PD1 ELSE PD2
TD0 == {t \in Tops : TopDev(t) = 0}
TD1 == {t \in Tops : TopDev(t) <= 1}
TD2 == {t \in Tops : TopDev(t) <= 2}
TD(k) == IF k <= 0 THEN TD0 ELSE IF k = 1 THEN TD1 ELSE TD2
Min(a, c) == IF a < c THEN a ELSE c
(* part sequences of length <= MAXPARTS whose deviations sum up to at most k *)
Seqs1(k) == {<<p>> : p \in PD(k)}
Seqs2(k) == UNION {{<<p, q>> : q \in PD(k - PartDev(p))} : p \in PD(k)}
Seqs3(k) == UNION {{s \o <<q>> : q \in PD(k - SumDev(s))} : s \in Seqs2(k)}
PartSeqs(k) == {<<>>} \cup Seqs1(k) \cup (IF MAXPARTS >= 2 THEN Seqs2(k) ELSE {}) \cup (IF MAXPARTS >= 3 THEN Seqs3(k) ELSE {})
B2 == Min(BUDGET, 2)
Inputs == UNION {{[top |-> t, parts |-> ps] : t \in {x \in TD(B2) : TopDev(x) = k}, ps \in PartSeqs(B2 - k)} : k \in 0..B2}

Multi(ct) == ct \in {"mixed", "related", "alternative"}

-----------------------------------------------------------------------------
(* the parser as a state machine *)
VARIABLES inp, pc, i, out, nparts, natts, nembeds, steps
vars == <<inp, pc, i, out, nparts, natts, nembeds, steps>>

Init == /\ inp \in Inputs
        /\ pc = "read" /\ i = 1 /\ out = "" /\ nparts = 0 /\ natts = 0 /\ nembeds = 0 /\ steps = 0

Finish(o) == pc' = "done" /\ out' = o /\ UNCHANGED <<inp, i, nparts, natts, nembeds>> /\ steps' = steps + 1
Goto(p)   == pc' = p /\ UNCHANGED <<inp, i, out, nparts, natts, nembeds>> /\ steps' = steps + 1

(* netmail.ReadMessage: the header section must be complete *)
(* (a text cut inside the header section is still read by net/mail; which field is damaged depends on *)
(* the field order: the model leaves the outcome open, only totality is required)                      *)
Read == pc = "read" /\ IF inp.top.trunc = "header" THEN Finish("any") ELSE Goto("headers")

(* parseEMLHeaders: From / To / Cc / Bcc / Date *)
Headers == pc = "headers" /\
  IF inp.top.from \in {"bad", "emptygroup"} \/ inp.top.to = "bad" \/ inp.top.date = "bad" THEN Finish("err")
  ELSE Goto("body")

(* parseEMLBodyParts: dispatch on the media type *)
Body == pc = "body" /\
  LET t == inp.top IN
  CASE t.ctype = "unparsable" -> Finish("err")
    [] t.ctype = "other" -> Finish("err")
    [] t.ctype \in {"absent", "plain", "html"} -> Goto("plain")
    \* a damaged charset parameter: the media type may or may not be accepted - only totality is required
    [] t.ctype \in {"plainlq", "plainqs", "plainempty"} -> Finish("any")
    [] OTHER -> IF t.boundary = "absent" THEN Finish("err") ELSE Goto("nextpart")

(* parseEMLBodyPlain *)
Plain == pc = "plain" /\
  LET c == inp.top.cte IN
  IF c = "unknown" THEN Finish("err")
  ELSE IF c = "b64garbage" THEN Finish("err")
  ELSE IF c \in B64Cuts \cup OddCTEs THEN Finish("any")          \* an error or a message with what could be decoded: totality only
  ELSE pc' = "done" /\ out' = "msg" /\ nparts' = 1 /\ UNCHANGED <<inp, i, natts, nembeds>> /\ steps' = steps + 1

(* multipartReader.NextPart: the loop consumes one part per iteration *)
NextPart == pc = "nextpart" /\
  LET t == inp.top IN
  IF t.boundary \in {"empty", "mismatch"} THEN Finish(IF t.boundary = "empty" THEN "err" ELSE "msg")   \* no delimiter found: EOF
  ELSE IF i > Len(inp.parts)
       THEN Finish(IF t.trunc \in {"boundary", "body", "noclose"} /\ Len(inp.parts) > 0 THEN "err" ELSE "msg")
       ELSE Goto("part")

Part == pc = "part" /\
  LET p == inp.parts[i] IN
  IF p.ptype = "twoctypes" \/ p.disp # "absent" THEN Goto("disp")   \* nested multiparts are parsed recursively first (folded into "disp"/"content")
  ELSE Goto("content")

(* parseEMLAttachmentEmbed *)
Disp == pc = "disp" /\
  LET p == inp.parts[i] IN
  IF p.disp = "absent" THEN Goto("content")
  ELSE IF DEV_SliceFilename /\ p.fname \in {"empty", "unquoted1"} THEN Finish("panic")
  ELSE IF p.disp \in {"other", "empty"} THEN Finish("err")
  ELSE IF p.cte = "b64garbage" /\ ~Multi(p.ptype) THEN Finish("err")
  ELSE IF p.cte \in B64Cuts \cup OddCTEs /\ ~Multi(p.ptype) THEN Finish("any")
  ELSE /\ pc' = "nextpart" /\ i' = i + 1 /\ steps' = steps + 1
       /\ natts' = natts + (IF p.disp = "attachment" THEN 1 ELSE 0)
       /\ nembeds' = nembeds + (IF p.disp = "inline" THEN 1 ELSE 0)
       \* a nested related / alternative container is parsed recursively before the disposition is looked at
       /\ nparts' = nparts + (IF p.ptype \in {"related", "alternative"} THEN p.sub ELSE 0)
       /\ UNCHANGED <<inp, out>>

Content == pc = "content" /\
  LET p == inp.parts[i] IN
  IF p.ptype = "noctype" THEN Finish("err")
  ELSE IF p.ptype \in {"related", "alternative"}      \* nested container: its parts were added by the recursive call
       THEN pc' = "nextpart" /\ i' = i + 1 /\ steps' = steps + 1 /\ nparts' = nparts + p.sub /\ UNCHANGED <<inp, out, natts, nembeds>>
  ELSE IF p.cte \in {"unknown", "b64garbage"} /\ ~Multi(p.ptype) THEN Finish("err")
  ELSE IF p.cte \in B64Cuts \cup OddCTEs /\ ~Multi(p.ptype) THEN Finish("any")
  ELSE /\ pc' = "nextpart" /\ i' = i + 1 /\ steps' = steps + 1
       /\ nparts' = nparts + 1
       /\ UNCHANGED <<inp, out, natts, nembeds>>

Next == Read \/ Headers \/ Body \/ Plain \/ NextPart \/ Part \/ Disp \/ Content
Spec == Init /\ [][Next]_vars

(* totality and termination of the design *)
Total      == pc = "done" => out \in {"msg", "err", "any"}
Terminates == (ENABLED Next) \/ pc = "done"
Variant    == steps <= 4 + 4 * (MAXPARTS + 1)

Scenario == [input |-> inp, predict |-> [out |-> out, parts |-> nparts, atts |-> natts, embeds |-> nembeds]]
Emit == pc = "done" => PrintT(<<"SCENARIO", ToJson(Scenario)>>)
=============================================================================
