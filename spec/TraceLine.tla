------------------------------ MODULE TraceLine ------------------------------
(***************************************************************************)
(* Trace validation for C05: every line the reference server read outside  *)
(* DATA, as raw bytes, is parsed with the grammar of Rfc5321Line.tla.       *)
(*   C05_WellFormed      exactly one well-formed command, CRLF terminated  *)
(*   C05_MailboxEqual    reverse-path / forward-paths denote the mailboxes *)
(*                       put on the message (or the setter refused them)   *)
(*   C05_ParamsWellFormed / C05_NoExtraParams   ESMTP parameters            *)
(***************************************************************************)
EXTENDS Naturals, Sequences, FiniteSets, TLC, Json, IOUtils, SequencesExt

G == INSTANCE Rfc5321Line WITH ALPHABET <- {}, MAXLOCAL <- 0, SETTERS <- {}, FORMS <- {}, HELOS <- {}, DSNS <- {},
                               sc <- 0, pc <- 0

Trace == ndJsonDeserialize(IOEnv.TRACE_FILE)
VARIABLES l, b, nrcpt, nmail, viol1, viols, stats
tvars == <<l, b, nrcpt, nmail, viol1, viols, stats>>
Ev == Trace[l]
F(name, ok) == IF ok THEN {} ELSE {name}

ZeroStats == [traces |-> 0, events |-> 0, lines |-> 0, mails |-> 0, rcpts |-> 0, quoted |-> 0, refused |-> 0, params |-> 0]
TInit == l = 1 /\ b = [t |-> 0] /\ nrcpt = 0 /\ nmail = 0 /\ viol1 = {} /\ viols = {} /\ stats = ZeroStats

Keyword(p) == p.k
DsnKw == {<<78, 79, 84, 73, 70, 89>>, <<82, 69, 84>>}

LineFlags(e) ==
  LET p == G!ParseCmd(e.b) IN
       F("C05_WellFormed", e.crlf /\ p.ok)
  \cup (IF ~p.ok \/ p.verb \notin {"MAIL", "RCPT"} THEN {}
        ELSE LET want == IF p.verb = "MAIL" THEN b.mailexp
                         ELSE IF nrcpt + 1 \in DOMAIN b.rcptexp THEN b.rcptexp[nrcpt + 1] ELSE [local |-> <<>>, domain |-> <<>>]
             IN   F("C05_MailboxEqual", p.path.local = want.local /\ p.path.domain = want.domain)
             \cup F("C05_OneMailPerMessage", p.verb = "MAIL" => nmail = 0)
             \cup F("C05_ParamsWellFormed", \A i \in DOMAIN p.path.params : G!ParamOK(p.path.params[i]))
             \cup F("C05_NoExtraParams", \A i \in DOMAIN p.path.params : p.path.params[i].k \in DsnKw => b.dsn))

Step ==
  /\ l <= Len(Trace)
  /\ l' = l + 1
  /\ CASE Ev.ev = "eof" ->
            /\ JsonSerialize(IOEnv.OUT_FILE, [violations |-> SetToSeq(viols), drift |-> <<>>, stats |-> [stats EXCEPT !.events = l]])
            /\ UNCHANGED <<b, nrcpt, nmail, viol1, viols, stats>>
       [] Ev.ev = "begin" ->
            /\ b' = Ev /\ nrcpt' = 0 /\ nmail' = 0 /\ viol1' = {}
            /\ stats' = [stats EXCEPT !.refused = @ + (IF Ev.seterr THEN 1 ELSE 0)]
            /\ UNCHANGED viols
       [] Ev.ev = "rawline" ->
            LET p == G!ParseCmd(Ev.b) IN
            /\ viol1' = viol1 \cup LineFlags(Ev)
            /\ nrcpt' = IF p.ok /\ p.verb = "RCPT" THEN nrcpt + 1 ELSE nrcpt
            /\ nmail' = IF p.ok /\ p.verb = "MAIL" THEN nmail + 1 ELSE nmail
            /\ stats' = [stats EXCEPT !.lines = @ + 1,
                           !.mails = @ + (IF p.verb = "MAIL" THEN 1 ELSE 0), !.rcpts = @ + (IF p.verb = "RCPT" THEN 1 ELSE 0),
                           !.quoted = @ + (IF p.verb \in {"MAIL", "RCPT"} /\ \E i \in DOMAIN Ev.b : Ev.b[i] = 34 THEN 1 ELSE 0),
                           !.params = @ + (IF p.ok /\ p.verb \in {"MAIL", "RCPT"} THEN Len(p.path.params) ELSE 0)]
            /\ UNCHANGED <<b, viols>>
       [] Ev.ev = "handover" ->     \* a second mail.Client (with its own options) goes on using the same smtp connection
            /\ b' = [mailexp |-> b.mailexp2, rcptexp |-> b.rcptexp2, dsn |-> b.dsn2] @@ b
            /\ nrcpt' = 0 /\ nmail' = 0
            /\ UNCHANGED <<viol1, viols, stats>>
       [] Ev.ev = "end" ->
            \* every recipient that was put on the message got its RCPT (unless nothing was sent at all)
            /\ viols' = viols \cup {[t |-> b.t, p |-> p] : p \in viol1 \cup F("C05_AllRecipientsSent", nmail = 0 \/ nrcpt = Len(b.rcptexp))}
            /\ stats' = [stats EXCEPT !.traces = @ + 1]
            /\ UNCHANGED <<b, nrcpt, nmail, viol1>>
       [] OTHER -> UNCHANGED <<b, nrcpt, nmail, viol1, viols, stats>>

TSpec == TInit /\ [][Step]_tvars
AllConsumed == TLCGet("stats").diameter - 1 = Len(Trace)
=============================================================================
