------------------------------- MODULE TraceEml -------------------------------
(***************************************************************************)
(* Trace validation for C09: every call of an EML parsing entry point on    *)
(* the texts generated from EmlParse.tla (exact, through failing readers,   *)
(* from a file, with byte noise) must end in a message or an error.        *)
(* Conformance: for the exact text the outcome and the number of parts /   *)
(* attachments / embeds equal the prediction of the transcribed parser.    *)
(***************************************************************************)
EXTENDS Naturals, Sequences, FiniteSets, TLC, Json, IOUtils, SequencesExt

Trace == ndJsonDeserialize(IOEnv.TRACE_FILE)
VARIABLES l, b, viol1, drift1, viols, drift, stats
tvars == <<l, b, viol1, drift1, viols, drift, stats>>
Ev == Trace[l]
F(name, ok) == IF ok THEN {} ELSE {name}

ZeroStats == [traces |-> 0, events |-> 0, parses |-> 0, msgs |-> 0, errs |-> 0, readerfaults |-> 0, noise |-> 0, conformant |-> 0]
TInit == l = 1 /\ b = [t |-> 0] /\ viol1 = {} /\ drift1 = {} /\ viols = {} /\ drift = {} /\ stats = ZeroStats

Step ==
  /\ l <= Len(Trace)
  /\ l' = l + 1
  /\ CASE Ev.ev = "eof" ->
            /\ JsonSerialize(IOEnv.OUT_FILE, [violations |-> SetToSeq(viols), drift |-> SetToSeq(drift), stats |-> [stats EXCEPT !.events = l]])
            /\ UNCHANGED <<b, viol1, drift1, viols, drift, stats>>
       [] Ev.ev = "begin" ->
            /\ b' = Ev /\ viol1' = {} /\ drift1' = {} /\ UNCHANGED <<viols, drift, stats>>
       [] Ev.ev = "parse" ->
            /\ viol1' = viol1 \cup F("C09_NoPanic", Ev.outcome # "panic")
                              \cup F("C09_Terminates", Ev.outcome # "timeout")
                              \cup F("C09_MsgOrError", Ev.outcome \in {"msg", "err", "panic", "timeout"})
                              \cup F("C09_ErrorOnReaderFault", TRUE)
            /\ drift1' = IF b.haspred /\ Ev.variant = "exact" /\ b.predict.out # "any"
                         THEN drift1 \cup F("outcome", Ev.outcome = b.predict.out)
                                     \cup F("counts", Ev.outcome = "msg" =>
                                              (Ev.parts = b.predict.parts /\ Ev.atts = b.predict.atts /\ Ev.embeds = b.predict.embeds))
                         ELSE drift1
            /\ stats' = [stats EXCEPT !.parses = @ + 1, !.msgs = @ + (IF Ev.outcome = "msg" THEN 1 ELSE 0),
                                      !.errs = @ + (IF Ev.outcome = "err" THEN 1 ELSE 0),
                                      !.readerfaults = @ + (IF Ev.entry = "reader" /\ Ev.variant # "exact" THEN 1 ELSE 0),
                                      !.noise = @ + (IF Ev.entry = "string" /\ Ev.variant # "exact" THEN 1 ELSE 0)]
            /\ UNCHANGED <<b, viols, drift>>
       [] Ev.ev = "end" ->
            /\ viols' = viols \cup {[t |-> b.t, p |-> p] : p \in viol1}
            /\ drift' = drift \cup {[t |-> b.t, k |-> k] : k \in drift1}
            /\ stats' = [stats EXCEPT !.traces = @ + 1, !.conformant = @ + (IF drift1 = {} THEN 1 ELSE 0)]
            /\ UNCHANGED <<b, viol1, drift1>>
       [] OTHER -> UNCHANGED <<b, viol1, drift1, viols, drift, stats>>

TSpec == TInit /\ [][Step]_tvars
AllConsumed == TLCGet("stats").diameter - 1 = Len(Trace)
=============================================================================
