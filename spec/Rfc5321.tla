------------------------------ MODULE Rfc5321 ------------------------------
(***************************************************************************)
(* The server side of an SMTP session as RFC 5321 4.1.4 / 4.1.1 defines    *)
(* it, as pure operators.  It is shared by the design models (Session,     *)
(* SendLock) and by the trace monitors, which drive it with the commands   *)
(* and replies recorded on the wire.                                       *)
(*                                                                         *)
(*  pre      connection accepted, greeting not sent yet                     *)
(*  idle     greeted (and possibly EHLO'ed), no transaction open           *)
(*  mail     MAIL accepted, no recipient accepted yet                      *)
(*  rcpt     at least one RCPT accepted                                    *)
(*  data     DATA answered with 354: everything up to <CRLF>.<CRLF> is     *)
(*           content                                                       *)
(*  tlswait  STARTTLS answered with 220: the next bytes are a ClientHello  *)
(*  quit     QUIT answered with 221                                        *)
(***************************************************************************)
EXTENDS Naturals, Sequences, FiniteSets

SrvStates == {"pre", "idle", "mail", "rcpt", "data", "tlswait", "quit"}
Verbs     == {"EHLO", "HELO", "MAIL", "RCPT", "DATA", "EOD", "RSET", "NOOP",
              "QUIT", "STARTTLS", "AUTH", "AUTHRESP", "OTHER"}

(* reply classes: ok = the positive reply the command expects (2yz, 354   *)
(* for DATA, 334 for AUTH continuation), t4 = 4yz, p5 = 5yz               *)
Positive(c) == c = "ok"

(* Is it legal for a client to send verb v when the server is in state s? *)
SrvLegal(s, helo, v) ==
  CASE v \in {"EHLO", "HELO", "NOOP", "RSET", "QUIT"} -> s \in {"idle", "mail", "rcpt"}
    [] v = "MAIL"     -> s = "idle" /\ helo
    [] v = "RCPT"     -> s \in {"mail", "rcpt"}
    [] v = "DATA"     -> s = "rcpt"
    [] v = "EOD"      -> s = "data"
    [] v = "STARTTLS" -> s = "idle" /\ helo
    [] v = "AUTH"     -> s = "idle" /\ helo
    [] v = "AUTHRESP" -> s = "idle"
    [] OTHER          -> s \in {"idle", "mail", "rcpt"}

(* Transaction state after the server answered verb v with class c.       *)
SrvNext(s, v, c) ==
  CASE v \in {"EHLO", "HELO"} -> IF Positive(c) THEN "idle" ELSE s
    [] v = "MAIL"     -> IF Positive(c) /\ s = "idle" THEN "mail" ELSE s
    [] v = "RCPT"     -> IF Positive(c) /\ s \in {"mail", "rcpt"} THEN "rcpt" ELSE s
    [] v = "DATA"     -> IF Positive(c) /\ s = "rcpt" THEN "data" ELSE s
    [] v = "EOD"      -> "idle"           \* the transaction is over whatever the verdict
    [] v = "RSET"     -> IF Positive(c) /\ s \in {"idle", "mail", "rcpt"} THEN "idle" ELSE s
    [] v = "QUIT"     -> IF Positive(c) THEN "quit" ELSE s
    [] v = "STARTTLS" -> IF Positive(c) THEN "tlswait" ELSE s
    [] OTHER          -> s

(* ESMTP parameter keyword -> the extension that must have been advertised *)
ParamExt(p) ==
  CASE p = "BODY"     -> "8BITMIME"
    [] p = "SMTPUTF8" -> "SMTPUTF8"
    [] p \in {"RET", "ENVID", "NOTIFY", "ORCPT"} -> "DSN"
    [] p = "SIZE"     -> "SIZE"
    [] OTHER          -> "?" \o p

Rng(f) == {f[i] : i \in DOMAIN f}
=============================================================================
