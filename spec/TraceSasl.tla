------------------------------ MODULE TraceSasl ------------------------------
(***************************************************************************)
(* Trace validation for C15 (and C14): the server messages, the client      *)
(* messages and the outcome of real smtp.Client.Auth runs are fed to the    *)
(* observer of Sasl.tla; C14 events (honest exchanges) are judged by        *)
(* accepted <=> credentials right and by nonce freshness.                   *)
(***************************************************************************)
EXTENDS Naturals, Sequences, FiniteSets, TLC, Json, IOUtils, SequencesExt

S == INSTANCE Sasl WITH MAXSEQ <- 0, MECHS <- {}, ALPHA <- {}, DEV_Bare235 <- FALSE, DEV_EmptyStateFinal <- FALSE,
                        ph <- 0, full <- 0, k <- 0, sent <- 0, obs <- 0, mech <- 0

Trace == ndJsonDeserialize(IOEnv.TRACE_FILE)
VARIABLES l, o, b, clis, nonces, viol1, drift1, viols, drift, stats
tvars == <<l, o, b, clis, nonces, viol1, drift1, viols, drift, stats>>
Ev == Trace[l]
F(name, ok) == IF ok THEN {} ELSE {name}

ZeroStats == [traces |-> 0, events |-> 0, srv |-> 0, acks |-> 0, successes |-> 0, validfinals |-> 0, accepted |-> 0,
              rejected |-> 0, retries |-> 0, conformant |-> 0]
TInit == /\ l = 1 /\ o = S!ObsInit /\ b = [t |-> 0] /\ clis = <<>> /\ nonces = <<>> /\ viol1 = {} /\ drift1 = {}
         /\ viols = {} /\ drift = {} /\ stats = ZeroStats

Step ==
  /\ l <= Len(Trace)
  /\ l' = l + 1
  /\ CASE Ev.ev = "eof" ->
            /\ JsonSerialize(IOEnv.OUT_FILE, [violations |-> SetToSeq(viols), drift |-> SetToSeq(drift), stats |-> [stats EXCEPT !.events = l]])
            /\ UNCHANGED <<o, b, clis, nonces, viol1, drift1, viols, drift, stats>>
       [] Ev.ev = "begin" ->
            /\ b' = Ev /\ o' = S!ObsInit /\ clis' = <<>> /\ nonces' = <<>> /\ viol1' = {} /\ drift1' = {}
            /\ UNCHANGED <<viols, drift, stats>>
       [] Ev.ev \in {"srv", "cli"} /\ b.kind = "adv" ->
            /\ o' = S!SaslObserve(o, Ev)
            /\ clis' = IF Ev.ev = "cli" /\ Ev.kind \in {"first", "final", "ack"} THEN Append(clis, Ev.kind) ELSE clis
            /\ nonces' = IF Ev.ev = "cli" /\ Ev.kind = "first" THEN Append(nonces, Ev.nonce) ELSE nonces
            /\ stats' = [stats EXCEPT !.srv = @ + (IF Ev.ev = "srv" THEN 1 ELSE 0),
                                      !.validfinals = @ + (IF Ev.ev = "srv" /\ Ev.finalValid THEN 1 ELSE 0)]
            /\ UNCHANGED <<b, viol1, drift1, viols, drift>>
       [] Ev.ev = "ret" /\ b.kind = "adv" ->
            /\ o' = S!SaslObserve(o, Ev)
            /\ stats' = [stats EXCEPT !.successes = @ + (IF Ev.ok THEN 1 ELSE 0)]
            \* conformance with the design model: outcome and the messages the client sent
            \* (scenarios with an earlier connection are written by hand, not predicted by the design model)
            /\ drift1' = IF b.sc.prior # "" THEN drift1
                          ELSE drift1 \cup F("outcome", Ev.ok = b.sc.ok)
                                      \cup F("sent", clis = SelectSeq(b.sc.sent, LAMBDA x : x # "abort"))
            /\ UNCHANGED <<b, clis, nonces, viol1, viols, drift>>
       [] Ev.ev = "attempt" ->      \* C14: one honest exchange
            /\ viol1' = viol1 \cup F("C14_AcceptedIffCredentialsRight", Ev.judged => (Ev.accepted <=> Ev.right))
                              \cup F("C14_ClientAgrees", Ev.judged => (Ev.clientok <=> Ev.accepted))
                              \cup F("C14_FreshNonce", Ev.nonce = "" \/ \A i \in DOMAIN nonces : nonces[i] # Ev.nonce)
            /\ nonces' = IF Ev.nonce # "" THEN Append(nonces, Ev.nonce) ELSE nonces
            /\ stats' = [stats EXCEPT !.accepted = @ + (IF Ev.accepted THEN 1 ELSE 0), !.rejected = @ + (IF Ev.accepted THEN 0 ELSE 1),
                                      !.retries = @ + (IF Ev.n > 1 THEN 1 ELSE 0)]
            /\ UNCHANGED <<o, b, clis, drift1, viols, drift>>
       [] Ev.ev = "end" ->
            /\ viols' = viols \cup {[t |-> b.t, p |-> p] : p \in viol1 \cup o.viol
                                       \cup F("C14_FreshNonce", \A i, j \in DOMAIN nonces : i # j => nonces[i] # nonces[j])}
            /\ drift' = drift \cup {[t |-> b.t, k |-> k] : k \in drift1}
            /\ stats' = [stats EXCEPT !.traces = @ + 1, !.acks = @ + o.acks, !.conformant = @ + (IF drift1 = {} THEN 1 ELSE 0)]
            /\ UNCHANGED <<o, b, clis, nonces, viol1, drift1>>
       [] OTHER -> UNCHANGED <<o, b, clis, nonces, viol1, drift1, viols, drift, stats>>

TSpec == TInit /\ [][Step]_tvars
AllConsumed == TLCGet("stats").diameter - 1 = Len(Trace)
=============================================================================
