SPECIFICATION TSpec
POSTCONDITION AllConsumed
CHECK_DEADLOCK FALSE
