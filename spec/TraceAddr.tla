------------------------------ MODULE TraceAddr ------------------------------
(***************************************************************************)
(* Trace validation for C06.  The monitor folds AddrHeaders!Apply over the *)
(* calls of the scenario and compares the derived envelope and rendered    *)
(* address fields with what the real Msg produced: the MAIL / RCPT         *)
(* arguments the reference server read, GetSender / GetRecipients, and     *)
(* the address fields an independent reader found in the rendering.        *)
(***************************************************************************)
EXTENDS Naturals, Sequences, FiniteSets, TLC, Json, IOUtils, SequencesExt

A == INSTANCE AddrHeaders WITH MAXLEN <- 0, MENU <- "small", st <- 0, calls <- 0, pc <- 0

Trace == ndJsonDeserialize(IOEnv.TRACE_FILE)
VARIABLES l, st, b, rets, viol1, drift1, viols, drift, stats
tvars == <<l, st, b, rets, viol1, drift1, viols, drift, stats>>
Ev == Trace[l]

F(name, ok) == IF ok THEN {} ELSE {name}
Pairs(s) == [i \in DOMAIN s |-> <<s[i].n, s[i].a>>]
Cnt(s) == IF s = <<>> THEN 0 ELSE 1

ZeroStats == [traces |-> 0, events |-> 0, sent |-> 0, rcpts |-> 0, bccs |-> 0, named |-> 0, conformant |-> 0]

TInit == /\ l = 1 /\ st = A!InitSt /\ b = [t |-> 0] /\ rets = <<>> /\ viol1 = {} /\ drift1 = {}
         /\ viols = {} /\ drift = {} /\ stats = ZeroStats

FieldFlags(e) ==
  LET rf == A!RenderedFrom(st) IN
       F("C06_RenderedOnce", /\ e.counts["From"] = Cnt(rf) /\ e.counts["To"] = Cnt(st.To)
                             /\ e.counts["Cc"] = Cnt(st.Cc) /\ e.counts["Reply-To"] = Cnt(st.Reply))
  \cup F("C06_RenderedAddresses", /\ e.parsed
                                  /\ e.from = Pairs(rf) /\ e.to = Pairs(st.To)
                                  /\ e.cc = Pairs(st.Cc) /\ e.replyto = Pairs(st.Reply))
  \cup F("C06_BccHidden", /\ e.counts["Bcc"] = 0
                          /\ \A id \in DOMAIN e.present : A!Tok[id].a \in A!HiddenBcc(st) => ~e.present[id])

ApiFlags(e) ==
       F("C06_EnvelopeSender", IF A!EnvSender(st) = "" THEN e.senderr ELSE (~e.senderr /\ e.sender = A!EnvSender(st)))
  \cup F("C06_EnvelopeRecipients", IF A!EnvRcpts(st) = <<>> THEN e.rcpterr ELSE (~e.rcpterr /\ e.rcpts = A!EnvRcpts(st)))

WireFlags(e) ==
  IF ~e.sent THEN F("C06_Sendable", A!EnvSender(st) = "" \/ A!EnvRcpts(st) = <<>>)
  ELSE   F("C06_EnvelopeSender", e.mails = 1 /\ e.mail = A!EnvSender(st))
    \cup F("C06_EnvelopeRecipients", e.rcpts = A!EnvRcpts(st))

Step ==
  /\ l <= Len(Trace)
  /\ l' = l + 1
  /\ CASE Ev.ev = "eof" ->
            /\ JsonSerialize(IOEnv.OUT_FILE, [violations |-> SetToSeq(viols), drift |-> SetToSeq(drift),
                                              stats |-> [stats EXCEPT !.events = l]])
            /\ UNCHANGED <<st, b, rets, viol1, drift1, viols, drift, stats>>
       [] Ev.ev = "begin" ->
            /\ b' = Ev /\ st' = A!ApplyAll(A!InitSt, Ev.calls) /\ rets' = <<>> /\ viol1' = {} /\ drift1' = {}
            /\ UNCHANGED <<viols, drift, stats>>
       [] Ev.ev = "callret" ->
            \* conformance: a call fails exactly when the model says its arguments are invalid
            /\ LET pre == A!ApplyAll(A!InitSt, SubSeq(b.calls, 1, Ev.i - 1)) IN
               drift1' = drift1 \cup F("calls", Ev.err = A!Fails(pre, b.calls[Ev.i]))
            /\ UNCHANGED <<st, b, rets, viol1, viols, drift, stats>>
       [] Ev.ev = "state" ->
            \* conformance: the state of the real Msg (address getters) after call i is the state of the model after call i
            /\ LET post == A!ApplyAll(A!InitSt, SubSeq(b.calls, 1, Ev.i)) IN
               drift1' = drift1 \cup F("state", /\ Ev.to = Pairs(post.To) /\ Ev.cc = Pairs(post.Cc) /\ Ev.bcc = Pairs(post.Bcc)
                                                /\ Ev.from = Pairs(post.From) /\ Ev.env = Pairs(post.Env) /\ Ev.reply = Pairs(post.Reply)
                                                /\ Ev.strings)
            /\ UNCHANGED <<st, b, rets, viol1, viols, drift, stats>>
       [] Ev.ev = "fields" ->
            /\ viol1' = viol1 \cup FieldFlags(Ev)
            /\ stats' = [stats EXCEPT !.bccs = @ + Len(st.Bcc),
                                      !.named = @ + Cardinality({i \in DOMAIN st.To : st.To[i].n # ""})]
            /\ UNCHANGED <<st, b, rets, drift1, viols, drift>>
       [] Ev.ev = "api" ->
            /\ viol1' = viol1 \cup ApiFlags(Ev)
            /\ UNCHANGED <<st, b, rets, drift1, viols, drift, stats>>
       [] Ev.ev = "wire" ->
            /\ viol1' = viol1 \cup WireFlags(Ev)
            /\ stats' = [stats EXCEPT !.sent = @ + (IF Ev.sent THEN 1 ELSE 0), !.rcpts = @ + Len(Ev.rcpts)]
            /\ UNCHANGED <<st, b, rets, drift1, viols, drift>>
       [] Ev.ev = "end" ->
            /\ viols' = viols \cup {[t |-> b.t, p |-> p] : p \in viol1}
            /\ drift' = drift \cup {[t |-> b.t, k |-> k] : k \in drift1}
            /\ stats' = [stats EXCEPT !.traces = @ + 1, !.conformant = @ + (IF drift1 = {} THEN 1 ELSE 0)]
            /\ UNCHANGED <<st, b, rets, viol1, drift1>>
       [] OTHER -> UNCHANGED <<st, b, rets, viol1, drift1, viols, drift, stats>>

TSpec == TInit /\ [][Step]_tvars
AllConsumed == TLCGet("stats").diameter - 1 = Len(Trace)
=============================================================================
