---------------------------- MODULE TraceSession ----------------------------
(***************************************************************************)
(* Trace validation for the Session family.  The events recorded while the *)
(* real library ran are fed, in order, to the observer of SessionObs.tla - *)
(* the same Observe and the same predicates the design model is checked    *)
(* with.  Several traces are concatenated; "begin" resets the observer.    *)
(*                                                                         *)
(*   monitors     the predicate names left in obs.viol when a trace ends   *)
(*                (the only source of verdicts)                            *)
(*   conformance  the recorded command sequence and API result compared    *)
(*                with what the design model predicted for this scenario   *)
(*                (drift: reported, never a verdict)                       *)
(* The result is written as JSON when the "eof" event is consumed.         *)
(***************************************************************************)
EXTENDS SessionObs, Json, IOUtils, SequencesExt

Trace == ndJsonDeserialize(IOEnv.TRACE_FILE)

VARIABLES l, obs, tid, proj, viols, drift, stats
tvars == <<l, obs, tid, proj, viols, drift, stats>>

Ev == Trace[l]

ZeroStats == [traces |-> 0, events |-> 0, acked |-> 0, judged |-> 0, failfacts |-> 0,
              closes |-> 0, rets |-> 0, conformant |-> 0, logs |-> 0, leaks |-> 0, postlogs |-> 0,
              clearcmds |-> 0, enccmds |-> 0, credcmds |-> 0, stalls |-> 0]

TInit == /\ l = 1 /\ obs = InitObs /\ tid = 0 /\ proj = <<>>
         /\ viols = {} /\ drift = {} /\ stats = ZeroStats

AtEnd(o) ==
  LET b == Trace[tid]                     \* tid doubles as the line of the begin event
      predicted == b.haspred
      cmdsOK == proj = b.pred
      retOK  == b.pret.op = "none" \/ o.ret.op = "none" \/ RetProj(o.ret) = b.pret
      judged == IF "msgs" \in DOMAIN o.ret
                THEN Cardinality({m \in DOMAIN o.ret.msgs : Judged(o, m)}) ELSE 0
  IN /\ viols' = viols \cup {[t |-> b.t, p |-> p] : p \in o.viol}
     /\ drift' = IF ~predicted THEN drift
                 ELSE drift \cup (IF cmdsOK THEN {} ELSE {[t |-> b.t, k |-> "cmds"]})
                            \cup (IF retOK THEN {} ELSE {[t |-> b.t, k |-> "ret"]})
     /\ stats' = [stats EXCEPT !.traces = @ + 1, !.acked = @ + Len(o.committed),
                               !.judged = @ + judged, !.failfacts = @ + o.nf,
                               !.closes = @ + (IF o.conn = "closed" THEN 1 ELSE 0),
                               !.conformant = @ + (IF predicted /\ cmdsOK /\ retOK THEN 1 ELSE 0)]

Step ==
  /\ l <= Len(Trace)
  /\ l' = l + 1
  /\ IF Ev.ev = "eof"
     THEN /\ JsonSerialize(IOEnv.OUT_FILE,
                 [violations |-> SetToSeq(viols), drift |-> SetToSeq(drift),
                  stats |-> [stats EXCEPT !.events = l]])
          /\ UNCHANGED <<obs, tid, proj, viols, drift, stats>>
     ELSE LET o2 == Observe(obs, Ev) IN
          /\ obs' = o2
          /\ tid' = IF Ev.ev = "begin" THEN l ELSE tid
          /\ proj' = IF Ev.ev = "begin" THEN <<>>
                     ELSE IF IsProjected(Ev) THEN Append(proj, ProjOf(obs, Ev)) ELSE proj
          /\ IF Ev.ev = "end" THEN AtEnd(o2)
             ELSE /\ UNCHANGED <<viols, drift>>
                  /\ stats' = CASE Ev.ev = "log" ->
                                     [stats EXCEPT !.logs = @ + 1, !.leaks = @ + (IF Ev.leak THEN 1 ELSE 0),
                                                   !.postlogs = @ + (IF Ev.post THEN 1 ELSE 0)]
                                [] Ev.ev = "cmd" ->
                                     [stats EXCEPT !.clearcmds = @ + (IF Ev.enc THEN 0 ELSE 1),
                                                   !.enccmds = @ + (IF Ev.enc THEN 1 ELSE 0),
                                                   !.credcmds = @ + (IF Ev.cred THEN 1 ELSE 0)]
                                [] Ev.ev = "stall" -> [stats EXCEPT !.stalls = @ + 1]
                                [] OTHER -> stats

TSpec == TInit /\ [][Step]_tvars

(* every line of the trace file was consumed *)
AllConsumed == TLCGet("stats").diameter - 1 = Len(Trace)
=============================================================================
