----------------------------- MODULE SessionObs -----------------------------
(***************************************************************************)
(* The observer of an SMTP client session.                                 *)
(*                                                                         *)
(* `obs` is the *observable* state of a session: what a strict server, a   *)
(* tap on the transport, a capturing logger and the API results reveal.    *)
(* Observe(o, e) is a total function over the event alphabet below; the    *)
(* property predicates C03_*, C04_*, C07_*, C16_*, C17_*, C19_*, C20_* are *)
(* evaluated inside it and the names of the ones that are false are        *)
(* accumulated in o.viol.                                                  *)
(*                                                                         *)
(* The same text is used twice:                                            *)
(*   - the design model Session.tla feeds it the events the *model* emits  *)
(*     and checks  obs.viol = {}  as an invariant over every environment   *)
(*     behaviour (reply scripts, drops, render faults, stalls);            *)
(*   - the trace specification TraceSession.tla feeds it the events that   *)
(*     were *recorded* while the real library ran, and reports o.viol.     *)
(* The observer never looks at the client's internal state.                *)
(*                                                                         *)
(* Event alphabet (records; JSON objects in recorded traces):              *)
(*  begin  cfg                      start of a scenario (resets obs)       *)
(*  call   op                       API call starts                        *)
(*  open                            transport connected (client side)      *)
(*  greet  cls early                server greeting; early = bytes seen    *)
(*                                  before the greeting was sent           *)
(*  cmd    verb m r params enc cred one command line read by the server    *)
(*  reply  code cls esc caps        the server's reply to the last cmd/eod *)
(*  drop                            server closes instead of replying      *)
(*  eod    m content                <CRLF>.<CRLF> received; content in     *)
(*                                  {complete, prefix, other}              *)
(*  tls    ok                       server side of a TLS handshake ended   *)
(*  setdl  armed                    SetDeadline on the transport           *)
(*  stall                           the server stops answering from here   *)
(*  wfail                           the transport failed under a client    *)
(*                                  write (scripted connection reset)      *)
(*  log    leak redacted verbatim   one debug-log record                   *)
(*  cclose                          client closed the transport            *)
(*  ret    op err elapsed top msgs  API call returned                      *)
(*  end                             all server-side events are in          *)
(***************************************************************************)
EXTENDS Rfc5321, TLC

NoCmd == [verb |-> "none", m |-> 0, r |-> 0, content |-> ""]
NoRet == [op |-> "none"]
NoCfg == [op |-> "none"]

InitObs == [
  cfg       |-> NoCfg,
  conn      |-> "none",     \* transport, client side: none / open / closed (of the latest connection)
  ncon      |-> 0,          \* transports opened so far; the k-th one has id k
  openSet   |-> {},         \* ids of the transports that are open
  callOpened |-> {},        \* ids of the transports the running call opened
  srvGone   |-> FALSE,      \* the server dropped the connection
  ss        |-> "pre",      \* Rfc5321 server state
  helo      |-> FALSE,
  caps      |-> {},         \* extensions of the latest EHLO reply ({} after HELO)
  enc       |-> FALSE,      \* a TLS handshake completed on this connection
  cur       |-> 0,          \* message of the open transaction (latest accepted MAIL)
  last      |-> 0,          \* message of the latest MAIL command, accepted or not (0: none in this call)
  acc       |-> {},         \* accepted / rejected recipients of the open transaction
  rej       |-> {},
  pend      |-> NoCmd,      \* command waiting for its reply
  committed |-> <<>>,       \* acknowledged end-of-data: [m, content]
  fails     |-> {},         \* negative replies: [n, m, r, step, code, cls, esc]
  nf        |-> 0,
  started   |-> {},         \* messages whose MAIL the server has read
  quitSent  |-> FALSE,
  armed     |-> FALSE,      \* a deadline is armed on the transport
  stalled   |-> FALSE,      \* the server went silent during the running call
  rwaits    |-> 0,          \* reads of the running call that began with (at least half of) the timeout ahead and ran into it
  authOpen  |-> FALSE,      \* between AUTH and the end of the exchange
  authMech  |-> "",         \* mechanism named by the latest AUTH command
  authDone  |-> FALSE,
  ret       |-> NoRet,
  viol      |-> {} ]

Flag(name, ok) == IF ok THEN {} ELSE {name}

Nr(o, m)   == IF m \in DOMAIN o.cfg.nr THEN o.cfg.nr[m] ELSE 0
Enc8(o, m) == IF m \in DOMAIN o.cfg.enc8 THEN o.cfg.enc8[m] ELSE FALSE
Rf(o, m)   == IF m \in DOMAIN o.cfg.rf THEN o.cfg.rf[m] ELSE "ok"

-----------------------------------------------------------------------------
(* C04 (and the cleartext part of C07) at a command line                   *)

CleartextAllowed == {"EHLO", "HELO", "STARTTLS", "QUIT"}
(* host kinds: "localhost" (the name), "loopback" (127.0.0.1, ::1) are the localhost servers of C07;  *)
(* "lookalike" (127.mail.example.test, localhost.example.test ...) and "other" are not                *)
LocalKinds == {"localhost", "loopback"}

CmdFlags(o, e) ==
  LET v == e.verb IN
       Flag("C04_AfterGreeting", o.ss # "pre")
  \* every line the server reads outside DATA / AUTH is a command it knows (an empty line or a lone "." is not)
  \cup Flag("C04_KnownCommand", v # "OTHER")
  \cup Flag("C04_MailOutsideTxn", v = "MAIL" => (o.ss = "idle" /\ o.helo))
  \cup Flag("C04_RcptInsideTxn", v = "RCPT" => o.ss \in {"mail", "rcpt"})
  \cup Flag("C04_DataAllAccepted",
            v = "DATA" => /\ o.ss = "rcpt" /\ o.rej = {}
                          /\ (o.cur > 0 => o.acc = 1..Nr(o, o.cur)))
  \cup Flag("C04_ParamsAdvertised", \A p \in Rng(e.params) : ParamExt(p) \in o.caps)
  \cup Flag("C04_8bitRefused",
            (v = "MAIL" /\ e.m > 0 /\ Enc8(o, e.m)) => "8BITMIME" \in o.caps)
  \cup Flag("C04_NoCmdAfterQuit", o.ss # "quit")
  \cup Flag("C07_MandatoryTLS",
            (o.cfg.policy = "mandatory" /\ ~e.enc) => v \in CleartextAllowed)
  \cup Flag("C07_ImplicitTLS", o.cfg.policy = "implicit" => e.enc)
  \cup Flag("C07_CredInTLS",
            (e.cred /\ ~e.enc /\ (IF v = "AUTH" THEN e.mech ELSE o.authMech) \in {"PLAIN", "LOGIN"})
               => (o.cfg.noenc \/ o.cfg.hostkind \in LocalKinds))
  \cup Flag("C07_AutoDiscover",
            (o.cfg.authtype = "AUTODISCOVER" /\ v = "AUTH" /\ ~e.enc)
               => e.mech \notin {"PLAIN", "LOGIN", "XOAUTH2"})

ObserveCmd(o, e) ==
  LET v == e.verb IN
  [o EXCEPT
     !.pend     = [verb |-> v, m |-> IF v \in {"MAIL", "RCPT"} THEN e.m ELSE o.last,
                   r |-> e.r, content |-> ""],
     !.last     = IF v = "MAIL" THEN e.m ELSE @,
     !.started  = IF v = "MAIL" /\ e.m > 0 THEN @ \cup {e.m} ELSE @,
     !.quitSent = @ \/ v = "QUIT",
     !.authOpen = @ \/ v = "AUTH",
     !.authMech = IF v = "AUTH" THEN e.mech ELSE @,
     !.viol     = @ \cup CmdFlags(o, e)]

-----------------------------------------------------------------------------
(* end of data                                                             *)

ObserveEod(o, e) ==
  [o EXCEPT
     !.pend = [verb |-> "EOD", m |-> e.m, r |-> 0, content |-> e.content],
     !.viol = @ \cup Flag("C04_EodInsideData", o.ss = "data")]

-----------------------------------------------------------------------------
(* replies                                                                 *)

FailFact(o, e) ==
  [n |-> o.nf + 1, m |-> o.pend.m, r |-> o.pend.r,
   step |-> CASE o.pend.verb = "MAIL" -> "mail" [] o.pend.verb = "RCPT" -> "rcpt"
              [] o.pend.verb = "DATA" -> "data" [] o.pend.verb = "EOD"  -> "dataclose"
              [] o.pend.verb = "RSET" -> "rset" [] o.pend.verb = "NOOP" -> "noop"
              [] OTHER -> "other",
   code |-> e.code, cls |-> e.cls,
   esc  |-> IF "ENHANCEDSTATUSCODES" \in o.caps THEN e.esc ELSE ""]

ObserveReply(o, e) ==
  LET p  == o.pend
      v  == p.verb
      ok == Positive(e.cls)
      inTxn == o.ss \in {"mail", "rcpt"}
  IN [o EXCEPT
     !.pend  = NoCmd,
     !.ss    = SrvNext(o.ss, v, e.cls),
     !.helo  = IF v \in {"EHLO", "HELO"} /\ ok THEN TRUE ELSE @,
     !.caps  = IF v = "EHLO" /\ ok THEN Rng(e.caps)
               ELSE IF v = "HELO" /\ ok THEN {} ELSE @,
     !.cur   = IF v = "MAIL" /\ ok /\ o.ss = "idle" THEN p.m ELSE @,
     !.acc   = CASE v = "MAIL" /\ ok /\ o.ss = "idle" -> {}
                 [] v = "RCPT" /\ ok /\ inTxn -> @ \cup {p.r}
                 [] v \in {"RSET", "EHLO", "HELO"} /\ ok -> {}
                 [] v = "EOD" -> {}
                 [] OTHER -> @,
     !.rej   = CASE v = "MAIL" /\ ok /\ o.ss = "idle" -> {}
                 [] v = "RCPT" /\ ~ok /\ inTxn -> @ \cup {p.r}
                 [] v \in {"RSET", "EHLO", "HELO"} /\ ok -> {}
                 [] v = "EOD" -> {}
                 [] OTHER -> @,
     !.committed = IF v = "EOD" /\ ok THEN Append(@, [m |-> p.m, content |-> p.content]) ELSE @,
     !.fails = IF ok THEN @ ELSE @ \cup {FailFact(o, e)},
     !.nf    = IF ok THEN @ ELSE @ + 1,
     !.authOpen = IF v \in {"AUTH", "AUTHRESP"} /\ e.code # 334 THEN FALSE ELSE @,
     !.authDone = IF v \in {"AUTH", "AUTHRESP"} /\ e.code = 235 THEN TRUE ELSE @,
     !.viol  = @ \cup Flag("C03_CompleteOnly", (v = "EOD" /\ ok) => p.content = "complete")
                 \cup Flag("C03_AtMostOnce",
                           (v = "EOD" /\ ok) => \A i \in DOMAIN o.committed : o.committed[i].m # p.m)
                 \cup Flag("C04_ReplyHasCommand", v # "none")]

ObserveDrop(o, e) ==
  [o EXCEPT
     !.srvGone = TRUE,
     !.pend  = NoCmd,
     !.fails = IF o.pend.verb = "none" THEN @
               ELSE @ \cup {[FailFact(o, [code |-> 0, cls |-> "drop", esc |-> ""]) EXCEPT !.esc = ""]},
     !.nf    = IF o.pend.verb = "none" THEN @ ELSE @ + 1,
     !.ss    = IF o.pend.verb = "EOD" THEN "idle" ELSE @]

-----------------------------------------------------------------------------
(* API return: C19 is decided here, C03 / C20 when all server events are in *)

Dialing(op) == op \in {"Dial", "DialAndSend"}
(* C17 names DialWithContext, DialAndSend, Send and Reset *)
Bounded(op) == op \in {"Dial", "DialAndSend", "Send", "Reset"}

ObserveRet(o, e) ==
  [o EXCEPT
     !.ret  = IF e.op \in {"Dial", "Send", "DialAndSend", "Reset"} THEN e ELSE @,
     !.viol = @ \cup Flag("C19_ClosedOnError",
                          (Dialing(e.op) /\ e.err /\ o.conn # "none") => (o.conn = "closed" /\ o.callOpened \cap o.openSet = {}))
                \cup Flag("C19_ClosedAfterDialAndSend",
                          \* (o.conn = "none": implicit TLS over the library's own dialer - the transport cannot be tapped)
                          (e.op = "DialAndSend" /\ ~e.err) => (o.quitSent /\ (o.conn # "none" => o.conn = "closed")))
                \cup Flag("C17_Bounded", Bounded(e.op) => e.elapsed = "within")
                \cup Flag("C17_ErrorOnStall", o.stalled => e.err)
                \* "within the configured timeout": a call waits for the silent server once - it does not renew the
                \* deadline after it expired and wait again (measured by what the transport saw, not by the clock)
                \cup Flag("C17_OneTimeoutPerCall", Bounded(e.op) => o.rwaits <= 1),
     !.stalled = FALSE, !.rwaits = 0]

Committed(o, m) == \E i \in DOMAIN o.committed : o.committed[i].m = m
FailsOf(o, m)   == {f \in o.fails : f.m = m /\ f.step # "other"}
First(S)        == CHOOSE f \in S : \A g \in S : f.n <= g.n
Last(S)         == CHOOSE f \in S : \A g \in S : f.n >= g.n

(* The verdict the API must report for message m, as a function of the    *)
(* replies the server really gave (C20).  It is only defined - Judge -    *)
(* for messages whose fate was decided by 4yz / 5yz replies.              *)
Expected(o, m) ==
  LET F == FailsOf(o, m) IN
  IF F = {} THEN [haserr |-> FALSE, step |-> "", code |-> 0, temp |-> FALSE, esc |-> "", rcpts |-> {}]
  ELSE LET f == First(F) IN
       IF f.step = "rcpt"
       THEN LET R == {g \in F : g.step = "rcpt"}  l == Last(R) IN
            [haserr |-> TRUE, step |-> "rcpt", code |-> l.code, temp |-> l.cls = "t4",
             esc |-> l.esc, rcpts |-> {g.r : g \in R}]
       ELSE [haserr |-> TRUE, step |-> f.step, code |-> f.code, temp |-> f.cls = "t4",
             esc |-> f.esc, rcpts |-> {}]

(* API name of the failing step: NOOP and RSET after an acknowledged       *)
(* end-of-data are both reported as a failed reset                         *)
ReasonOf(step) == IF step \in {"rset", "noop"} THEN "reset" ELSE step

(* a message is judged when the server saw its MAIL, nothing was dropped,  *)
(* no rendering up to it was made to fail and the initial connection check *)
(* passed; everything else is decided by 4yz / 5yz replies alone           *)
Judged(o, m) == /\ m \in o.started /\ ~o.srvGone
                /\ \A k \in 1..m : Rf(o, k) = "ok"
                /\ \A f \in o.fails : f.step # "other" => (f.cls \in {"t4", "p5"} /\ f.m # 0)

(* C20, field by field so that the report names what differs.  The reply   *)
(* to the NOOP that precedes the post-delivery RSET is not a position the  *)
(* property lists: only "an error is reported as a reset failure" is       *)
(* required there.                                                         *)
VerdictFlags(o, m, x) ==
  LET ex == Expected(o, m) IN
  IF ~Judged(o, m) THEN {}
  ELSE IF ~ex.haserr THEN Flag("C20_NoErrorWhenUnaffected", ~x.haserr)
  ELSE   Flag("C20_ErrorReported", x.haserr)
    \cup (IF ~x.haserr THEN {} ELSE
            Flag("C20_Step", x.reason = ReasonOf(ex.step))
       \cup Flag("C20_Recipients", Rng(x.rcpts) = ex.rcpts)
       \cup (IF ex.step = "noop" THEN {} ELSE
                 Flag("C20_Code", x.code = ex.code)
            \cup Flag("C04_ReplyAttribution", x.code = ex.code)
            \cup Flag("C20_Temporary", x.temp = ex.temp /\ x.temp2 = ex.temp)   \* SendError.IsTemp and Msg.SendErrorIsTemp
            \cup Flag("C20_EnhancedCode", x.esc = ex.esc)))

ObserveEnd(o, e) ==
  LET r == o.ret IN
  IF r.op \notin {"Send", "DialAndSend"} \/ ~("msgs" \in DOMAIN r) THEN o
  ELSE LET M == DOMAIN r.msgs
           failed == {m \in M : r.msgs[m].haserr} IN
  [o EXCEPT !.viol = @
     \cup Flag("C03_DeliveredIffAck", \A m \in M : r.msgs[m].delivered <=> Committed(o, m))
     \cup Flag("C03_RenderFailReported",
               \A m \in M : Rf(o, m) # "ok" =>
                    (~Committed(o, m) /\ ~r.msgs[m].delivered
                       /\ (m \in o.started => r.msgs[m].haserr)))
     \cup UNION {VerdictFlags(o, m, r.msgs[m]) : m \in M}
     \cup Flag("C20_OneEntryPerFailedMessage",
               (r.top = "" /\ \A m \in M : Judged(o, m)) => r.nerrs = Cardinality(failed))
     \* (DialAndSend: whatever else goes wrong while the connection is closed, the error it returns is the joined error
     \* of the failed messages)
     \cup Flag("C20_OneEntryPerFailedMessage", (r.op = "DialAndSend" /\ failed # {}) => r.top = "")
     \* ... and every entry names its message (SendError.Msg): the entries are the failed messages, each once
     \cup Flag("C20_EntriesNameFailedMessages",
               (r.top = "" /\ \A m \in M : Judged(o, m)) => (Rng(r.entries) = failed /\ Len(r.entries) = Cardinality(failed)
                                                              /\ \A m \in failed : r.msgs[m].ownmsg))
     \* a message the client did not even start although nothing stood in its way (the connection is there, no earlier
     \* message failed to render, no RSET / NOOP between the transactions was refused, it has recipients and needs no
     \* extension the server lacks) was not affected by any reply: it carries no error
     \cup Flag("C20_NoErrorWhenUnaffected",
               (r.top = "" /\ ~o.srvGone) =>
                  \A m \in M : (/\ m \notin o.started /\ Nr(o, m) > 0 /\ ~Enc8(o, m)
                                /\ \A k \in 1..m : Rf(o, k) = "ok"
                                /\ ~\E f \in o.fails : f.step \in {"rset", "noop", "other"}) => ~r.msgs[m].haserr)
     \cup Flag("C20_ErrIffAnyFailed", (r.top = "" /\ r.op = "Send") => (r.err <=> failed # {}))
     \* a message of the batch that was not delivered is a failed message: it carries an error (and so has its
     \* entry in the joined error) - unless the whole call failed before any message was tried (r.top)
     \cup Flag("C20_UndeliveredCarriesError", (r.top = "" /\ ~o.stalled) => \A m \in M : ~r.msgs[m].delivered => r.msgs[m].haserr)]

-----------------------------------------------------------------------------
(* Observable projection used for conformance between the design model and *)
(* recorded traces: the commands in wire order, keyed like the scenario     *)
(* scripts (message of the latest MAIL for NOOP / RSET / DATA).            *)
IsProjected(e) == e.ev \in {"cmd", "eod"}
ProjOf(o, e) ==
  IF e.ev = "eod" THEN [v |-> "EOD", m |-> e.m, r |-> 0]
  ELSE [v |-> e.verb,
        m |-> IF e.verb \in {"MAIL", "RCPT"} THEN e.m
              ELSE IF e.verb \in {"NOOP", "RSET", "DATA"} THEN o.last ELSE 0,
        r |-> IF e.verb \in {"RCPT", "EHLO", "HELO", "AUTHRESP"} THEN e.r ELSE 0]

RetProj(x) ==
  IF ~("msgs" \in DOMAIN x) THEN [op |-> x.op, err |-> x.err]
  ELSE [op |-> x.op, err |-> x.err, top |-> x.top, nerrs |-> x.nerrs,
        msgs |-> [i \in DOMAIN x.msgs |->
                    [delivered |-> x.msgs[i].delivered, haserr |-> x.msgs[i].haserr,
                     reason |-> x.msgs[i].reason, code |-> x.msgs[i].code, temp |-> x.msgs[i].temp,
                     esc |-> x.msgs[i].esc, rcpts |-> x.msgs[i].rcpts]]]

-----------------------------------------------------------------------------
Observe(o, e) ==
  CASE e.ev = "begin"  -> [InitObs EXCEPT !.cfg = e.cfg]
    [] e.ev = "call"   -> [o EXCEPT !.last = 0, !.callOpened = {}, !.rwaits = 0]
    [] e.ev = "rwait"  -> [o EXCEPT !.rwaits = @ + 1]
    [] e.ev = "open"   -> [o EXCEPT !.conn = "open", !.ncon = @ + 1, !.openSet = @ \cup {o.ncon + 1}, !.callOpened = @ \cup {o.ncon + 1}]
    [] e.ev = "greet"  -> [o EXCEPT !.ss = IF Positive(e.cls) THEN "idle" ELSE @,
                                    !.viol = @ \cup Flag("C04_NothingBeforeGreeting", ~e.early)]
    [] e.ev = "cmd"    -> ObserveCmd(o, e)
    [] e.ev = "eod"    -> ObserveEod(o, e)
    [] e.ev = "reply"  -> ObserveReply(o, e)
    [] e.ev = "drop"   -> ObserveDrop(o, e)
    [] e.ev = "tls"    -> [o EXCEPT !.enc = e.ok, !.helo = FALSE, !.caps = {},
                                    !.ss = IF e.ok THEN "idle" ELSE @,
                                    !.viol = @ \cup Flag("C07_CertValidated", e.ok => o.cfg.hs = "ok")]
    [] e.ev = "setdl"  -> [o EXCEPT !.armed = e.armed]
    [] e.ev = "wfail"  -> [o EXCEPT !.srvGone = TRUE]      \* the transport broke under a client write
    \* the call panicked inside the library: whatever the property says about its result does not hold
    [] e.ev = "panic" -> [o EXCEPT !.viol = @ \cup {"C03_CallPanicked", "C04_CallPanicked", "C07_CallPanicked", "C16_CallPanicked",
                                                   "C17_CallPanicked", "C19_CallPanicked", "C20_CallPanicked"}]
    [] e.ev = "setpolicy" -> [o EXCEPT !.cfg.policy = e.policy]   \* Client.SetTLSPolicy between two calls
    [] e.ev = "tlshello" -> o                              \* a cleartext server saw a TLS ClientHello: nothing in clear
    [] e.ev = "xclose" -> [o EXCEPT !.srvGone = TRUE]      \* another goroutine closed the client
    [] e.ev = "stall"  -> [o EXCEPT !.stalled = TRUE, !.srvGone = TRUE, !.pend = NoCmd]
    [] e.ev = "log"    -> [o EXCEPT !.viol = @
                              \cup Flag("C16_NoSecretInLog", o.cfg.logauth \/ ~e.leak)
                              \* ("after": the record was written after smtp.Client.Auth had returned, successfully or not)
                              \cup Flag("C16_WindowCloses", (e.post \/ e.after) => e.verbatim)]
    \* (recorded events name the transport; the design model always closes the latest one)
    [] e.ev = "cclose" -> LET id == IF "cid" \in DOMAIN e THEN e.cid ELSE o.ncon IN
                          [o EXCEPT !.conn = IF id = o.ncon THEN "closed" ELSE @, !.openSet = @ \ {id}]
    [] e.ev = "ret"    -> ObserveRet(o, e)
    [] e.ev = "end"    -> ObserveEnd(o, e)
    [] OTHER           -> o
=============================================================================
