------------------------------ MODULE TraceMime ------------------------------
(***************************************************************************)
(* Trace validation for the render family (C01 C02 C11 C12 C18).  The      *)
(* events recorded while the real builder / renderer ran are consumed in   *)
(* order; several traces are concatenated ("begin" resets).                *)
(*                                                                         *)
(*   line   -> MimeStream automaton (structure tokens, header sections,    *)
(*             line discipline)                                            *)
(*   tree   -> the tree the harness' independent RFC 2046 reader found,    *)
(*             compared with MimeBuild!ExpectedToks and with the tokens    *)
(*             the automaton derived from the lines; leaf attributes       *)
(*             compared with the slots of the program                      *)
(*   leaf   -> decoded content equal to what the caller supplied           *)
(*   hdr    -> unfolded, RFC 2047-decoded field value equals the value set *)
(*   out    -> result of one render operation: C11 (same bytes as the      *)
(*             first render) and C12 (error / byte count / no panic)       *)
(***************************************************************************)
EXTENDS MimeStream, Json, IOUtils, TLC, SequencesExt

INSTANCE MimeBuild WITH MAXP <- 0, MAXE <- 0, MAXA <- 0, ENCS <- {}, PENCS <- {}, FENCS <- {}, CCS <- <<>>,
                        PRODS <- <<>>, SRCS <- <<>>, ROTS <- {}, BOUNDARIES <- {}, DELS <- {}, HDRS <- {}, PDESCS <- {}, FDESCS <- {}, FNAMES <- {}, FCIDS <- {}, OPSEQS <- {}, FAULTS <- {}, ROUNDTRIP <- {}, SMIMES <- {}, MWS <- {}, STYLES <- {}, PGPS <- {}, CHARSETS <- {}, PCHARSETS <- {},
                        prog <- 0, pc <- 0

B == INSTANCE B64Line WITH SIZES <- {}, MAXCALLS <- 0, DEV_OffByOne <- FALSE, used <- 0, lines <- 0, rest <- 0, inrec <- 0,
                         total <- 0, calls <- 0, closed <- 0

Trace == ndJsonDeserialize(IOEnv.TRACE_FILE)

(* the calls of one base64 line breaker as the build-tag hook recorded them (<<kind, n, used>>, kind 0 = Write, 1 = Close), *)
(* from index i up to its Close, folded through B64Line!Call: the line lengths the specification puts out and whether   *)
(* `used` and the recursion agree with it at every call                                                                  *)
RECURSIVE B64Seg(_, _, _, _, _, _)
B64Seg(cs, i, used, lines, pend, ok) ==      \* pend: [has, n] - the recursive call the specification expects next
  IF i > Len(cs) THEN [next |-> i, lines |-> lines, ok |-> FALSE]
  ELSE LET c == cs[i] IN
       IF c[1] = 1
       THEN [next |-> i + 1, lines |-> IF B!CloseLine(used) > 0 THEN Append(lines, B!CloseLine(used)) ELSE lines,
             ok |-> ok /\ c[3] = used /\ ~pend.has]
       ELSE LET r == B!Call(used, c[2]) IN
            B64Seg(cs, i + 1, r.used, IF r.line > 0 THEN Append(lines, r.line) ELSE lines,
                   [has |-> r.rec, n |-> r.rest], ok /\ c[3] = used /\ (pend.has => c[2] = pend.n))

VARIABLES l, ms, b, lastline, viol1, viols, stats, second
tvars == <<l, ms, b, lastline, viol1, viols, stats, second>>

Ev == Trace[l]

ZeroStats == [traces |-> 0, events |-> 0, lines |-> 0, outs |-> 0, faulted |-> 0, leaves |-> 0, hdrs |-> 0,
              trees |-> 0, multiparts |-> 0, rerenders |-> 0, rts |-> 0, smimes |-> 0, smimes2 |-> 0, b64segs |-> 0]

TInit == /\ l = 1 /\ ms = MSInit /\ b = [t |-> 0] /\ lastline = 0 /\ second = FALSE
         /\ viol1 = {} /\ viols = {} /\ stats = ZeroStats

(* C10: what the monitors find in the SECOND rendering (of the parsed message) is reported under C10 *)
(* (well-formedness and content only: attributes the parser does not carry over - a declared media type, *)
(* descriptions, the exact layering - are not part of C10)                                               *)
R2Keep == {"C01_LeafCount", "C01_ContentEqual", "C01_FileNames", "C01_ReaderProblems", "C01_AllMultipartsClosed", "C01_BoundaryNesting",
           "C01_BoundaryDeclared", "C01_BoundaryUnique", "C01_EpilogueEmpty", "C01_NothingAfterEnd", "C02_TopFields",
           "C02_PartFields", "C02_HeaderSyntax", "C02_NoControlInHeader", "C02_HeaderSectionEnds", "C02_SingleOccurrence"}
(* C18: the second rendering is output of the library as well: its line discipline (top-level header sections and encoded bodies; *)
(* the part headers are the open finding of the first rendering) is reported under C18                                            *)
R2Lines == {"C18_HeaderLineLength", "C18_CRLF", "C18_NoBareCR", "C18_EncodedLineLength"}
Tag(S) == IF second THEN {"C10_R2_" \o p : p \in S \cap R2Keep} \cup {"C18_R2_" \o p : p \in S \cap R2Lines} ELSE S

(* X02: a message with a PGP type lies outside the builder calls C01 quantifies over; what the C01 monitors find in  *)
(* its rendering is reported under X02                                                                               *)
C01Names == {"Structure", "StructureFromLines", "LeafCount", "LeafAttributes", "ContentEqual", "ReaderProblems", "AllMultipartsClosed",
             "BoundaryNesting", "BoundaryDeclared", "BoundaryUnique", "EpilogueEmpty", "NothingAfterEnd", "RenderPanicked"}
ForPgp(S) == {IF \E n \in C01Names : p = "C01_" \o n THEN "X02_" \o (CHOOSE n \in C01Names : p = "C01_" \o n) ELSE p : p \in S}

RECURSIVE Flatten(_)
RECURSIVE FlattenKids(_)
Flatten(node) == IF node.mp = "" THEN <<"L">> ELSE <<"(" \o node.mp>> \o FlattenKids(node.kids) \o <<")">>
FlattenKids(s) == IF s = <<>> THEN <<>> ELSE Flatten(Head(s)) \o FlattenKids(Tail(s))
RECURSIVE LeavesOf(_)
RECURSIVE LeavesOfKids(_)
LeavesOf(node) == IF node.mp = "" THEN <<node>> ELSE LeavesOfKids(node.kids)
LeavesOfKids(s) == IF s = <<>> THEN <<>> ELSE LeavesOf(Head(s)) \o LeavesOfKids(Tail(s))

Count(slots, kind) == Cardinality({i \in DOMAIN slots : slots[i].kind = kind})

(* attributes of leaf i against slot i of the program *)
LeafOK(lf, s) ==
  /\ (s.declared => lf.ctype = s.ctype)
  /\ (s.kind = "part" => lf.charset = s.charset)
  /\ lf.cte = s.cte
  /\ (s.kind # "part" => (lf.disp = s.disp /\ lf.fname = s.fname))
  /\ (s.kind = "embed" => lf.hascid)

(* C02 for the free-text values of a MIME part: file name (after the documented replacement), *)
(* description and content-id read back as they were set (whitespace-normalised by the reader) *)
LeafValuesOK(lf, s) ==
  /\ (s.kind # "part" => lf.fname = s.fname)
  /\ lf.desc = s.desc                       \* also: no description where none was set (nothing of another part's header)
  /\ (s.cid # "" => lf.cid = s.cid)
  /\ ((s.kind = "att" /\ s.cid = "") => ~lf.hascid)

TreeFlags(e) ==
  LET np == Count(b.slots, "part")  ne == Count(b.slots, "embed")  na == Count(b.slots, "att")
      expected == ExpectedFor(b.prog.pgp, np, ne, na)
      \* of a signed message the signed entity (first part of the multipart/signed wrapper) is judged
      inner == IF b.signed /\ e.tree.mp = "signed" /\ Len(e.tree.kids) >= 1 THEN e.tree.kids[1] ELSE e.tree
      byReader == Flatten(inner)
      byLines  == IF b.signed /\ Len(ms.toks) >= 3 /\ ms.toks[1] = "(signed" THEN SubSeq(ms.toks, 2, Len(ms.toks) - 2) ELSE ms.toks
      lvs == LeavesOf(inner)
      n == np + ne + na
  IN   F("C01_Structure", SameStructure(expected, byReader, n))
  \cup F("C01_StructureFromLines", SameStructure(expected, byLines, n))
  \cup F("C01_LeafCount", Len(lvs) = n)
  \cup F("C01_LeafAttributes", Len(lvs) = n => \A i \in 1..n : LeafOK(lvs[i], b.slots[i]))
  \* (the file names alone: they are carried over by the EML parser, so they are judged in a re-rendering too - C10)
  \cup F("C01_FileNames", Len(lvs) = n => \A i \in 1..n : b.slots[i].kind # "part" => lvs[i].fname = b.slots[i].fname)
  \cup F("C02_PartValues", Len(lvs) = n => \A i \in 1..n : LeafValuesOK(lvs[i], b.slots[i]))
  \cup F("C01_ReaderProblems", e.problems = <<>> \/ e.problems = [x \in {} |-> 0])

(* C08: the rendering of a signed message as the independent CMS verifier of the harness found it *)
SmimeFlags(e) ==
       F("C08_Wrapper", e.wrapper = "signed" /\ e.nkids = 2 /\ e.sigtype = "application/pkcs7-signature" /\ e.sigcte = "base64")
  \cup F("C08_ProtocolMicalg", e.protocol = "application/pkcs7-signature" /\ e.micalg = "sha-256" /\ (e.parsed => e.digestalg = "sha-256"))
  \cup F("C08_SignedDataParses", e.parsed /\ e.detached)
  \cup F("C08_DigestEqual", e.digest)
  \cup F("C08_SignatureValid", e.sigvalid /\ e.signer /\ e.signerleaf)
  \cup F("C08_IntermediateIncluded", e.wantinter => e.inter)
  \* the harness' verifier and openssl must agree, otherwise the machinery is wrong (not a verdict)
  \cup F("INFRA_OpensslDisagrees", e.openssl = "skipped" \/ ((e.openssl = "ok") <=> (e.digest /\ e.sigvalid /\ e.parsed)))
  \* conformance with the prediction of Smime.tla
  \cup F("DRIFT_C08_Digest", (b.haspredict /\ e.k \in DOMAIN b.predict.ok) => (b.predict.ok[e.k] <=> e.digest))

OutFlags(e) ==
       F("C12_NoPanic", ~e.panic)
  \* a render operation that panics produces nothing any of the render properties could hold for
  \cup (IF e.panic /\ ~e.faulted THEN {"C01_RenderPanicked", "C02_RenderPanicked", "C10_RenderPanicked", "C18_RenderPanicked"} ELSE {})
  \cup F("C12_ErrorOnFault", e.faulted => e.err)
  \cup F("C12_CountOnFault", (e.faulted /\ ~e.panic) => e.n = e.accepted)
  \cup F("C12_CountOnSuccess", e.ok => e.n = e.len)
  \cup F("C11_SameBytes", e.ok => e.id = 1)
  \cup F("C11_RenderSucceeds", ~e.faulted => e.ok)
  \cup F("C08_RenderSucceeds", (b.signed /\ ~e.faulted) => e.ok)

Step ==
  /\ l <= Len(Trace)
  /\ l' = l + 1
  /\ CASE Ev.ev = "eof" ->
            /\ JsonSerialize(IOEnv.OUT_FILE, [violations |-> SetToSeq(viols), drift |-> <<>>,
                                              stats |-> [stats EXCEPT !.events = l]])
            /\ UNCHANGED <<ms, b, lastline, viol1, viols, stats, second>>
       [] Ev.ev = "begin" ->
            /\ b' = Ev /\ ms' = MSInit /\ viol1' = {} /\ lastline' = 0 /\ second' = FALSE
            /\ UNCHANGED <<viols, stats>>
       [] Ev.ev = "render" ->       \* the lines of the next distinct output follow
            /\ ms' = MSInit /\ second' = Ev.second
            /\ UNCHANGED <<b, lastline, viol1, viols, stats>>
       [] Ev.ev = "rt" ->           \* comparison of the parsed message with the built one
            /\ viol1' = viol1 \cup F("C10_" \o Ev.what, Ev.eq)
            /\ stats' = [stats EXCEPT !.rts = @ + 1]
            /\ UNCHANGED <<ms, b, lastline, viols, second>>
       [] Ev.ev = "line" ->
            \* the last line of an output is the one followed by the tree event
            /\ ms' = MSStep(ms, Ev, Trace[l + 1].ev # "line")
            /\ stats' = [stats EXCEPT !.lines = @ + 1]
            /\ UNCHANGED <<b, lastline, viol1, viols, second>>
       [] Ev.ev = "tree" ->
            /\ LET mf == MSFinal(ms) IN
               /\ ms' = mf
               /\ viol1' = viol1 \cup Tag(TreeFlags(Ev) \cup mf.viol \cup SectionFlags(mf, Rg(b.topnames)))
            /\ stats' = [stats EXCEPT !.trees = @ + 1,
                                      !.multiparts = @ + Cardinality({i \in DOMAIN ms.toks : ms.toks[i] = ")"})]
            /\ UNCHANGED <<b, lastline, viols, second>>
       [] Ev.ev = "smime" ->
            /\ viol1' = viol1 \cup SmimeFlags(Ev)
            /\ stats' = [stats EXCEPT !.smimes = @ + 1, !.smimes2 = @ + (IF Ev.k > 1 THEN 1 ELSE 0)]
            /\ UNCHANGED <<ms, b, lastline, viols, second>>
       [] Ev.ev = "b64" ->          \* the line breaker calls of the rendering that follows
            /\ b' = [calls |-> Ev.calls, seg |-> 1] @@ b
            /\ UNCHANGED <<ms, lastline, viol1, viols, stats, second>>
       [] Ev.ev = "leaf" ->
            \* writeBody creates (and closes) a line breaker for every quoted-printable and base64 leaf; only base64 content passes through it
            LET judged == "calls" \in DOMAIN b /\ ~second /\ Ev.cte \in {"base64", "quoted-printable"}
                sg == IF judged THEN B64Seg(b.calls, b.seg, 0, <<>>, [has |-> FALSE, n |-> 0], TRUE)
                      ELSE [next |-> 0, lines |-> <<>>, ok |-> TRUE] IN
            /\ viol1' = viol1 \cup Tag(F("C01_ContentEqual", Ev.eq))
                               \* conformance of the real line breaker with B64Line.tla (not a verdict of C18)
                               \cup F("DRIFT_B64_Calls", sg.ok) \cup F("DRIFT_B64_Lines", judged => sg.lines = (IF Ev.b64 THEN Ev.b64lines ELSE <<>>))
            /\ b' = IF judged THEN [seg |-> sg.next] @@ b ELSE b
            /\ stats' = [stats EXCEPT !.leaves = @ + 1, !.b64segs = @ + (IF judged THEN 1 ELSE 0)]
            /\ UNCHANGED <<ms, lastline, viols, second>>
       [] Ev.ev = "hdr" ->
            /\ viol1' = viol1 \cup Tag(F("C02_ValueRoundTrip", Ev.got = Ev.want)
                              \cup F("C18_UnfoldsToValue", Ev.gotx = Ev.wantx)
                              \cup F("C02_SingleOccurrence", Ev.count = 1))
            /\ stats' = [stats EXCEPT !.hdrs = @ + 1]
            /\ UNCHANGED <<ms, b, lastline, viols, second>>
       [] Ev.ev = "out" ->
            /\ viol1' = viol1 \cup OutFlags(Ev)
            /\ stats' = [stats EXCEPT !.outs = @ + 1, !.faulted = @ + (IF Ev.faulted THEN 1 ELSE 0),
                                      !.rerenders = @ + (IF ~Ev.faulted /\ Ev.k > 1 THEN 1 ELSE 0)]
            /\ UNCHANGED <<ms, b, lastline, viols, second>>
       [] Ev.ev = "end" ->
            /\ viols' = viols \cup {[t |-> b.t, p |-> p] : p \in (IF b.prog.pgp # "" THEN ForPgp(viol1) ELSE viol1)}
            /\ stats' = [stats EXCEPT !.traces = @ + 1]
            /\ UNCHANGED <<ms, b, lastline, viol1, second>>
       [] OTHER -> UNCHANGED <<ms, b, lastline, viol1, viols, stats, second>>

TSpec == TInit /\ [][Step]_tvars
AllConsumed == TLCGet("stats").diameter - 1 = Len(Trace)
=============================================================================
