----------------------------- MODULE SmtpCalls -----------------------------
(***************************************************************************)
(* The low-level SMTP client (package smtp, forked from net/smtp) used      *)
(* directly: any history of calls on one smtp.Client that was handed a      *)
(* greeted connection -                                                    *)
(*   Hello, Noop, Reset, Verify, Mail, Rcpt, Data (+ content + Close),     *)
(*   StartTLS, TLSConnectionState, GetTLSConnectionState,                  *)
(*   Quit, Close, Extension, HasConnection, UpdateDeadline,                *)
(*   SetDSNMailReturnOption, SetDSNRcptNotifyOption.                       *)
(* Beyond the listed properties (X03): mail.Client drives this type in one *)
(* fixed order (Session.tla); a caller of package smtp may use any order.  *)
(*                                                                         *)
(* What the calls depend on:                                               *)
(*   hello  none / ok (EHLO accepted, extensions known) / helo (EHLO       *)
(*          refused, HELO accepted, no extensions) / failed (both refused  *)
(*          - or nothing could be sent: the error is kept and returned by   *)
(*          every later call that needs the greeting exchange)             *)
(*   conn   open / closed (Quit, Close)                                    *)
(*   srv    transaction state of the server (Rfc5321.tla): the design      *)
(*          model only makes calls the server may legally receive          *)
(*   ret, notify   DSN options set on the client                           *)
(* Step(st, env, c) is the specification of one call: new state, whether   *)
(* it returns an error, the command lines it puts on the wire (verb and    *)
(* ESMTP parameter keywords) and - for the query calls - the answer.       *)
(*                                                                         *)
(* Facts of the code the model states (smtp.go): arguments are validated   *)
(* BEFORE anything is sent, the implicit greeting exchange included; Hello *)
(* is refused once the exchange has happened; Rcpt and Data do not trigger *)
(* the implicit exchange (Mail must have); Quit sends QUIT even if the     *)
(* greeting exchange failed; extensions are only known after a successful  *)
(* EHLO, so after the HELO fallback no parameter is ever sent.             *)
(***************************************************************************)
EXTENDS Naturals, Sequences, FiniteSets, TLC, Json

CONSTANTS MAXOPS,        \* length of the histories
          CALLS,         \* the calls of the menu: records [op, arg]
          EHLOS,         \* subset of {"ok", "ehlo5", "both5"}: how the server treats EHLO / HELO
          CAPSETS,       \* sets of advertised extension keywords
          DEV_ValidateLate \* deviation: arguments are checked after the implicit greeting exchange

InitSt == [hello |-> "none", conn |-> "open", srv |-> "idle", ret |-> FALSE, notify |-> FALSE, tls |-> FALSE]

W(v, ps) == [v |-> v, ps |-> ps]
HelloWire(env) == IF env.ehlo = "ok" THEN <<W("EHLO", {})>> ELSE <<W("EHLO", {}), W("HELO", {})>>
HelloRes(env) == CASE env.ehlo = "ok" -> "ok" [] env.ehlo = "ehlo5" -> "helo" [] OTHER -> "failed"

(* the implicit greeting exchange of a call that needs it *)
Ensure(st, env) ==
  IF st.hello # "none" THEN [st |-> st, wire |-> <<>>]
  ELSE IF st.conn = "closed" THEN [st |-> [st EXCEPT !.hello = "failed"], wire |-> <<>>]
  ELSE [st |-> [st EXCEPT !.hello = HelloRes(env)], wire |-> HelloWire(env)]

Known(st, env, cap) == st.hello = "ok" /\ cap \in env.caps

R(st, err, wire, res) == [st |-> st, err |-> err, wire |-> wire, res |-> res]

MailParams(st, env) == (IF Known(st, env, "8BITMIME") THEN {"BODY"} ELSE {})
                       \cup (IF Known(st, env, "SMTPUTF8") THEN {"SMTPUTF8"} ELSE {})
                       \cup (IF Known(st, env, "DSN") /\ st.ret THEN {"RET"} ELSE {})
RcptParams(st, env) == IF Known(st, env, "DSN") /\ st.notify THEN {"NOTIFY"} ELSE {}

VerbOf(op) == CASE op = "Noop" -> "NOOP" [] op = "Reset" -> "RSET" [] op = "Verify" -> "VRFY" [] op = "Mail" -> "MAIL" [] OTHER -> op
SrvAfter(s, op) == CASE op = "Mail" -> "mail" [] op = "Rcpt" -> "rcpt" [] op \in {"Data", "Reset"} -> "idle" [] OTHER -> s

Step(st, env, c) ==
  LET e == Ensure(st, env)
      s1 == e.st
      closed == st.conn = "closed"
      badarg == c.arg \notin {"", "ok"}
  IN
  CASE c.op = "Hello" ->
         IF badarg THEN R(st, TRUE, <<>>, "")
         ELSE IF st.hello # "none" THEN R(st, TRUE, <<>>, "")            \* "Hello called after other methods"
         ELSE R(s1, s1.hello = "failed", e.wire, "")
    [] c.op \in {"Noop", "Reset", "Verify", "Mail"} ->
         IF badarg /\ ~DEV_ValidateLate THEN R(st, TRUE, <<>>, "")
         ELSE IF s1.hello = "failed" THEN R(s1, TRUE, e.wire, "")
         ELSE IF badarg THEN R(s1, TRUE, e.wire, "")                      \* (only under the deviation)
         ELSE IF closed THEN R(s1, TRUE, <<>>, "")
         ELSE R([s1 EXCEPT !.srv = SrvAfter(@, c.op)], FALSE,
                e.wire \o <<W(VerbOf(c.op), IF c.op = "Mail" THEN MailParams(s1, env) ELSE {})>>, "")
    [] c.op = "Rcpt" ->                                                   \* no implicit greeting exchange
         IF badarg THEN R(st, TRUE, <<>>, "")
         ELSE IF closed THEN R(st, TRUE, <<>>, "")
         ELSE R([st EXCEPT !.srv = "rcpt"], FALSE, <<W("RCPT", RcptParams(st, env))>>, "")
    [] c.op = "Data" ->                                                   \* Data, Write, Close of the writer
         IF closed THEN R(st, TRUE, <<>>, "")
         ELSE R([st EXCEPT !.srv = "idle"], FALSE, <<W("DATA", {}), W("EOD", {})>>, "")
    [] c.op = "Quit" ->                                                   \* a failed greeting exchange does not stop QUIT
         IF closed THEN R(s1, TRUE, <<>>, "")
         ELSE R([s1 EXCEPT !.conn = "closed"], FALSE, e.wire \o <<W("QUIT", {})>>, "")
    [] c.op = "StartTLS" ->                                               \* STARTTLS, handshake, and the EHLO that must follow it:
         IF s1.hello = "failed" THEN R(s1, TRUE, e.wire, "")               \* the extensions are known afterwards even if the first
         ELSE IF closed THEN R(s1, TRUE, <<>>, "")                         \* exchange fell back to HELO
         ELSE R([s1 EXCEPT !.tls = TRUE, !.hello = "ok", !.srv = "idle"], FALSE, e.wire \o <<W("STARTTLS", {}), W("EHLO", {})>>, "")
    [] c.op = "TLSState" -> R(st, FALSE, <<>>, IF st.tls THEN "yes" ELSE "no")        \* TLSConnectionState: the transport, open or not
    [] c.op = "GetTLSState" -> R(st, closed \/ ~st.tls, <<>>, "")                      \* GetTLSConnectionState: needs a connection
    [] c.op = "Close" -> R([st EXCEPT !.conn = "closed"], FALSE, <<>>, "")
    [] c.op = "Extension" -> R(s1, FALSE, e.wire, IF Known(s1, env, c.arg2) THEN "yes" ELSE "no")
    [] c.op = "HasConnection" -> R(st, FALSE, <<>>, IF closed THEN "no" ELSE "yes")
    [] c.op = "UpdateDeadline" -> R(st, FALSE, <<>>, "")
    [] c.op = "SetRet" -> R([st EXCEPT !.ret = TRUE], FALSE, <<>>, "")
    [] c.op = "SetNotify" -> R([st EXCEPT !.notify = TRUE], FALSE, <<>>, "")
    [] OTHER -> R(st, FALSE, <<>>, "")

(* which calls the design model makes in a state: only what the server may legally receive, and after the end of *)
(* the connection only calls whose outcome does not depend on the transport implementation                        *)
Enabled(st, env, c) ==
  LET greeted == Ensure(st, env).st.hello \in {"ok", "helo"} IN
  IF st.conn = "closed" THEN c.op \in {"Noop", "Mail", "Rcpt", "Data", "HasConnection", "Extension", "Hello", "SetRet", "TLSState", "GetTLSState"} /\ c.arg \in {"", "ok"}
  ELSE CASE c.op = "Mail" -> c.arg # "ok" \/ (st.srv = "idle" /\ greeted)
         [] c.op = "Rcpt" -> c.arg # "ok" \/ st.srv \in {"mail", "rcpt"}
         [] c.op = "Data" -> st.srv = "rcpt"
         [] c.op = "StartTLS" -> ~st.tls /\ st.srv = "idle"
         [] c.op = "UpdateDeadline" -> TRUE
         [] OTHER -> TRUE

-----------------------------------------------------------------------------
VARIABLES st, env, hist, outs
vars == <<st, env, hist, outs>>

Init == /\ st = InitSt /\ hist = <<>> /\ outs = <<>>
        /\ env \in {[ehlo |-> e, caps |-> cs] : e \in EHLOS, cs \in CAPSETS}
Call == /\ Len(hist) < MAXOPS
        /\ \E c \in CALLS :
             /\ Enabled(st, env, c)
             /\ LET r == Step(st, env, c) IN
                /\ st' = r.st
                /\ hist' = Append(hist, c)
                /\ outs' = Append(outs, [err |-> r.err, wire |-> r.wire, res |-> r.res])
        /\ UNCHANGED env
Next == Call
Spec == Init /\ [][Next]_vars

Verbs(i) == [j \in DOMAIN outs[i].wire |-> outs[i].wire[j].v]
Count(seq, v) == Cardinality({j \in DOMAIN seq : seq[j] = v})

(* a call with an argument that cannot be put on a command line sends nothing at all *)
NoWireOnBadArgument == \A i \in DOMAIN hist : hist[i].arg \notin {"", "ok"} => outs[i].wire = <<>>
(* the greeting exchange happens at most once per connection, before anything else *)
HelloOnce == /\ Cardinality({i \in DOMAIN outs : Count(Verbs(i), "EHLO") > 0 /\ hist[i].op # "StartTLS"}) <= 1
             /\ \A i \in DOMAIN outs : Count(Verbs(i), "EHLO") <= (IF hist[i].op = "StartTLS" THEN 2 ELSE 1)
(* once the greeting exchange failed nothing but QUIT is ever sent *)
FailedHelloIsSticky ==
  \A i, j \in DOMAIN outs : (i < j /\ Count(Verbs(i), "HELO") > 0 /\ env.ehlo = "both5") =>
     \A k \in DOMAIN outs[j].wire : outs[j].wire[k].v = "QUIT"
(* parameters only for advertised extensions, and never after the HELO fallback *)
ParamsAdvertised ==
  \A i \in DOMAIN outs : \A k \in DOMAIN outs[i].wire :
     outs[i].wire[k].ps # {} => ((env.ehlo = "ok" \/ \E j \in 1..i : hist[j].op = "StartTLS") /\ \A p \in outs[i].wire[k].ps :
                                   (CASE p = "BODY" -> "8BITMIME" [] p = "SMTPUTF8" -> "SMTPUTF8" [] OTHER -> "DSN") \in env.caps)
(* nothing is sent on a connection the client has ended *)
NothingAfterEnd == \A i, j \in DOMAIN outs : (i < j /\ hist[i].op \in {"Quit", "Close"} /\ ~outs[i].err) => outs[j].wire = <<>>
TypeOK == st.hello \in {"none", "ok", "helo", "failed"} /\ st.conn \in {"open", "closed"} /\ st.srv \in {"idle", "mail", "rcpt"}

Scenario == [ops |-> hist, env |-> [ehlo |-> env.ehlo, caps |-> env.caps],
             predict |-> [i \in DOMAIN outs |-> [err |-> outs[i].err, res |-> outs[i].res, verbs |-> Verbs(i)]]]
Emit == Len(hist) = MAXOPS => PrintT(<<"SCENARIO", ToJson(Scenario)>>)
=============================================================================
