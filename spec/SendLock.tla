------------------------------ MODULE SendLock ------------------------------
(***************************************************************************)
(* Concurrent use of one mail.Client (property C13).                       *)
(*                                                                         *)
(* N goroutines, goroutine p sends message p (R recipients) either through *)
(* Send on the ONE shared connection or through DialAndSend on a private   *)
(* connection.  The critical sections of the code are the actions:         *)
(*   Acquire / Release     Client.sendMutex around SendWithSMTPClient      *)
(*                         (client.go:1206; only taken by Send)            *)
(*   Cmd(p)                one command + its reply under smtp.Client.mutex *)
(*                         (smtp.go:180)                                   *)
(*   Write(p), CloseData(p)  dataCloser.Write / Close under the same mutex *)
(* Each connection's command stream is consumed by the server automaton of *)
(* Rfc5321.tla; a command line that arrives while the server is inside a   *)
(* DATA section becomes content (the message is corrupted).                *)
(*                                                                         *)
(* With UseSendLock = TRUE the invariants hold for every interleaving.     *)
(* With UseSendLock = FALSE TLC enumerates the interleavings a missing or  *)
(* narrowed lock would allow: these are emitted as SCHEDULES and imposed   *)
(* on the real code through the gate hooks (smtp.VerifHook); with the real *)
(* lock in place every imposed schedule degenerates into a serial one.     *)
(***************************************************************************)
EXTENDS Rfc5321, TLC, Json

CONSTANTS N,            \* goroutines / messages
          R,            \* recipients per message
          MODES,        \* per goroutine: "send" (shared connection) or "das" (DialAndSend, private connection)
          UseSendLock,  \* is Client.sendMutex taken by Send
          MAXPRE        \* preemption bound for schedule generation

Procs == 1..N

(* program of one goroutine: the steps after which another goroutine may run *)
Prog == <<"NOOP", "MAIL">> \o [i \in 1..R |-> "RCPT"] \o <<"DATA", "WRITE", "EOD", "NOOP", "RSET">>

VARIABLES mode,     \* mode[p]
          ip,       \* ip[p]: index of the next step of p (Len(Prog)+1 = finished)
          holder,   \* sendMutex holder (0 = free)
          srv,      \* per connection: [ss, cur, acc, tainted]
          log,      \* per connection: sequence of [v, m] read by the server (commands and content markers)
          commits,  \* set of [conn, m, rcpts, clean]: acknowledged end-of-data
          sched,    \* the schedule so far: sequence of goroutine ids, one per step
          lastp, pre
vars == <<mode, ip, holder, srv, log, commits, sched, lastp, pre>>

Conn(p) == IF mode[p] = "send" THEN 0 ELSE p        \* connection 0 is the shared one
Conns == {0} \cup Procs

Init == /\ mode \in [Procs -> MODES]
        /\ ip = [p \in Procs |-> 1] /\ holder = 0
        /\ srv = [c \in Conns |-> [ss |-> "idle", cur |-> 0, acc |-> 0, tainted |-> FALSE]]
        /\ log = [c \in Conns |-> <<>>] /\ commits = {} /\ sched = <<>> /\ lastp = 0 /\ pre = 0

Done(p) == ip[p] > Len(Prog)
NeedsLock(p) == UseSendLock /\ mode[p] = "send"
Enabled(p) == ~Done(p) /\ (NeedsLock(p) => holder \in {0, p})

(* the server reads one line / one content chunk of message m on connection c *)
ServerReads(c, v, m) ==
  LET s == srv[c] IN
  IF s.ss = "data" /\ v \notin {"WRITE", "EOD"}
  THEN [s EXCEPT !.tainted = TRUE]                       \* a command line inside DATA is content
  ELSE CASE v = "MAIL"  -> IF s.ss = "idle" THEN [s EXCEPT !.ss = "mail", !.cur = m, !.acc = 0, !.tainted = FALSE] ELSE [s EXCEPT !.tainted = TRUE]
         [] v = "RCPT"  -> IF s.ss \in {"mail", "rcpt"} /\ s.cur = m THEN [s EXCEPT !.ss = "rcpt", !.acc = @ + 1]
                           ELSE IF s.ss \in {"mail", "rcpt"} THEN [s EXCEPT !.ss = "rcpt", !.acc = @ + 1, !.tainted = TRUE]   \* a foreign recipient in this envelope
                           ELSE s
         [] v = "DATA"  -> IF s.ss = "rcpt" THEN [s EXCEPT !.ss = "data", !.tainted = @ \/ s.cur # m] ELSE s
         [] v = "WRITE" -> IF s.ss = "data" THEN [s EXCEPT !.tainted = @ \/ s.cur # m] ELSE s
         [] v = "EOD"   -> IF s.ss = "data" THEN [s EXCEPT !.ss = "idle", !.tainted = @ \/ s.cur # m] ELSE s
         [] v = "RSET"  -> [s EXCEPT !.ss = "idle", !.cur = 0, !.acc = 0]
         [] OTHER -> s

Step(p) ==
  /\ Enabled(p)
  /\ LET v == Prog[ip[p]]  c == Conn(p)  s2 == ServerReads(c, v, p) IN
     /\ srv' = [srv EXCEPT ![c] = s2]
     /\ log' = [log EXCEPT ![c] = Append(@, [v |-> v, m |-> p])]
     /\ commits' = IF v = "EOD" /\ srv[c].ss = "data"
                   THEN commits \cup {[conn |-> c, m |-> srv[c].cur, rcpts |-> srv[c].acc, clean |-> ~s2.tainted]}
                   ELSE commits
  /\ holder' = IF NeedsLock(p) THEN (IF ip[p] = Len(Prog) THEN 0 ELSE p) ELSE holder
  /\ ip' = [ip EXCEPT ![p] = @ + 1]
  /\ sched' = Append(sched, p)
  \* preemption: switching away from a goroutine that could have continued
  /\ pre' = IF lastp # 0 /\ lastp # p /\ Enabled(lastp) THEN pre + 1 ELSE pre
  /\ pre' <= MAXPRE
  /\ lastp' = p
  /\ UNCHANGED mode

Next == \E p \in Procs : Step(p)
Spec == Init /\ [][Next]_vars

AllDone == \A p \in Procs : Done(p)

-----------------------------------------------------------------------------
(* properties (hold with the lock, violated without it) *)

(* between the MAIL of a message and its end-of-data, the connection carries nothing of another goroutine *)
Contiguous ==
  \A c \in Conns : \A i, j \in DOMAIN log[c] :
     (i < j /\ log[c][i].v = "MAIL" /\ log[c][j].v = "EOD" /\ log[c][i].m = log[c][j].m)
        => \A x \in i..j : log[c][x].m = log[c][i].m

(* every finished message was committed exactly once, untainted, with its own envelope *)
ExactlyOnce ==
  \A p \in Procs : Done(p) =>
     /\ Cardinality({k \in commits : k.m = p}) = 1
     /\ \A k \in commits : k.m = p => (k.clean /\ k.rcpts = R /\ k.conn = Conn(p))

Scenario == [n |-> N, r |-> R, mode |-> mode, schedule |-> sched, lock |-> UseSendLock]
Emit == AllDone => PrintT(<<"SCENARIO", ToJson(Scenario)>>)
=============================================================================
