---------------------------- MODULE Rfc5321Line ----------------------------
(***************************************************************************)
(* Character-level grammar of SMTP command lines (RFC 5321 4.1.2, 4.1.1.1, *)
(* RFC 3461 for the DSN parameters, RFC 4954 for AUTH) written as TLA+     *)
(* operators over sequences of byte values, and the enumeration of         *)
(* envelope addresses used for property C05.                               *)
(*                                                                         *)
(* ParseCmd(line) decides, from the raw bytes of one line read by the      *)
(* server, whether the line is exactly one well-formed command and - for   *)
(* MAIL / RCPT - which mailbox (unquoted local part, domain) it denotes    *)
(* and which ESMTP parameters it carries.                                  *)
(* Quote(local) is the reference rendering of a local part; the design     *)
(* invariant RoundTrip says that parsing the reference rendering gives the *)
(* mailbox back, for every local part of the bounded alphabet.             *)
(***************************************************************************)
EXTENDS Naturals, Sequences, FiniteSets, TLC, Json

Chr(c) == CASE c = "A" -> 65 [] c = "a" -> 97 [] c = "." -> 46 [] c = " " -> 32 [] c = "<" -> 60 [] c = ">" -> 62
            [] c = "@" -> 64 [] c = "," -> 44 [] c = ";" -> 59 [] c = ":" -> 58 [] c = "\\" -> 92 [] c = "\"" -> 34
            [] c = "=" -> 61 [] c = "-" -> 45 [] c = "*" -> 42 [] c = "[" -> 91 [] c = "]" -> 93 [] c = "+" -> 43
            [] c = "/" -> 47 [] c = "%" -> 37 [] c = "!" -> 33 [] OTHER -> 0

Upper(b) == IF b >= 97 /\ b <= 122 THEN b - 32 ELSE b
IsAlpha(b) == (b >= 65 /\ b <= 90) \/ (b >= 97 /\ b <= 122)
IsDigit(b) == b >= 48 /\ b <= 57
IsAlnum(b) == IsAlpha(b) \/ IsDigit(b)
IsHigh(b)  == b >= 128                        \* UTF-8 (RFC 6531)
(* atext, RFC 5322 3.2.3 *)
IsAtext(b) == IsAlnum(b) \/ b \in {33, 35, 36, 37, 38, 39, 42, 43, 45, 47, 61, 63, 94, 95, 96, 123, 124, 125, 126} \/ IsHigh(b)
(* qtextSMTP, RFC 5321 4.1.2 *)
IsQtext(b) == b \in {32, 33} \/ (b >= 35 /\ b <= 91) \/ (b >= 93 /\ b <= 126) \/ IsHigh(b)
IsB64(b) == IsAlnum(b) \/ b \in {43, 47, 61}

(* bytes of an ASCII string constant, given as a tuple of one-character strings *)
Bytes(t) == [i \in DOMAIN t |-> Chr(t[i])]
MAILFROM == <<77, 65, 73, 76, 32, 70, 82, 79, 77, 58, 60>>     \* "MAIL FROM:<"
RCPTTO   == <<82, 67, 80, 84, 32, 84, 79, 58, 60>>             \* "RCPT TO:<"

HasPrefixCI(s, p) == Len(s) >= Len(p) /\ \A i \in DOMAIN p : Upper(s[i]) = p[i]

(* ---- local part ---- *)
(* index after a quoted-string starting at i (s[i] = DQUOTE), 0 when malformed *)
RECURSIVE QEnd(_, _)
QEnd(s, j) ==
  IF j > Len(s) THEN 0
  ELSE IF s[j] = 34 THEN j + 1
  ELSE IF s[j] = 92 THEN (IF j + 1 <= Len(s) /\ s[j + 1] >= 32 /\ s[j + 1] <= 126 THEN QEnd(s, j + 2) ELSE 0)
  ELSE IF IsQtext(s[j]) THEN QEnd(s, j + 1)
  ELSE 0

RECURSIVE Unquote(_, _, _)
Unquote(s, j, e) ==       \* content of the quoted-string between j and e (exclusive, the closing quote)
  IF j >= e THEN <<>>
  ELSE IF s[j] = 92 THEN <<s[j + 1]>> \o Unquote(s, j + 2, e)
  ELSE <<s[j]>> \o Unquote(s, j + 1, e)

(* index after the maximal run of atext / "." starting at i *)
RECURSIVE RunEnd(_, _)
RunEnd(s, j) == IF j <= Len(s) /\ (IsAtext(s[j]) \/ s[j] = 46) THEN RunEnd(s, j + 1) ELSE j

DotStringOK(s, i, e) ==     \* s[i..e-1] is Atom *("." Atom)
  /\ e > i /\ s[i] # 46 /\ s[e - 1] # 46
  /\ \A k \in i..(e - 2) : ~(s[k] = 46 /\ s[k + 1] = 46)

(* ---- domain: sub-domains of letters / digits / hyphen, or an address literal ---- *)
RECURSIVE DomEnd(_, _)
DomEnd(s, j) == IF j <= Len(s) /\ (IsAlnum(s[j]) \/ s[j] \in {45, 46} \/ IsHigh(s[j])) THEN DomEnd(s, j + 1) ELSE j
DomainOK(s, i, e) ==
  /\ e > i /\ s[i] \notin {45, 46} /\ s[e - 1] \notin {45, 46}
  /\ \A k \in i..(e - 2) : ~(s[k] = 46 /\ s[k + 1] = 46)

(* ---- esmtp parameters: *(SP keyword ["=" value]) up to the end of the line ---- *)
RECURSIVE KwEnd(_, _)
KwEnd(s, j) == IF j <= Len(s) /\ (IsAlnum(s[j]) \/ s[j] = 45) THEN KwEnd(s, j + 1) ELSE j
RECURSIVE ValEnd(_, _)
ValEnd(s, j) == IF j <= Len(s) /\ s[j] >= 33 /\ s[j] <= 126 /\ s[j] # 61 THEN ValEnd(s, j + 1) ELSE j

RECURSIVE Params(_, _)
Params(s, j) ==      \* sequence of [k, v] records, or <<[k |-> <<>>, v |-> <<>>, bad |-> TRUE]>> when malformed
  IF j > Len(s) THEN <<>>
  ELSE IF s[j] # 32 THEN << [k |-> <<>>, v |-> <<>>, bad |-> TRUE] >>
  ELSE LET ke == KwEnd(s, j + 1) IN
       IF ke = j + 1 \/ ~IsAlnum(s[j + 1]) THEN << [k |-> <<>>, v |-> <<>>, bad |-> TRUE] >>
       ELSE IF ke <= Len(s) /\ s[ke] = 61
            THEN LET ve == ValEnd(s, ke + 1) IN
                 IF ve = ke + 1 THEN << [k |-> <<>>, v |-> <<>>, bad |-> TRUE] >>
                 ELSE << [k |-> [i \in 1..(ke - j - 1) |-> Upper(s[j + i])], v |-> SubSeq(s, ke + 1, ve - 1), bad |-> FALSE] >>
                      \o Params(s, ve)
            ELSE << [k |-> [i \in 1..(ke - j - 1) |-> Upper(s[j + i])], v |-> <<>>, bad |-> FALSE] >> \o Params(s, ke)

NoPath == [ok |-> FALSE, local |-> <<>>, domain |-> <<>>, params |-> <<>>]

(* "<" Mailbox ">" [params], the path starts at index i (after "<") *)
ParsePath(s, i) ==
  IF i > Len(s) THEN NoPath
  ELSE LET quoted == s[i] = 34
           le == IF quoted THEN QEnd(s, i + 1) ELSE RunEnd(s, i) IN
       IF le = 0 \/ le > Len(s) \/ s[le] # 64 \/ (~quoted /\ ~DotStringOK(s, i, le)) THEN NoPath
       ELSE LET de == DomEnd(s, le + 1) IN
            IF de > Len(s) \/ s[de] # 62 \/ ~DomainOK(s, le + 1, de) THEN NoPath
            ELSE LET ps == Params(s, de + 1) IN
                 IF \E k \in DOMAIN ps : ps[k].bad THEN NoPath
                 ELSE [ok |-> TRUE,
                       local |-> IF quoted THEN Unquote(s, i + 1, le - 1) ELSE SubSeq(s, i, le - 1),
                       domain |-> SubSeq(s, le + 1, de - 1), params |-> ps]

AllIn(s, i, P(_)) == \A k \in i..Len(s) : P(s[k])
Exactly(s, t) == Len(s) = Len(t) /\ \A i \in DOMAIN t : Upper(s[i]) = t[i]

(* one line, without its CRLF *)
ParseCmd(s) ==
  LET clean == \A k \in DOMAIN s : s[k] >= 32 /\ s[k] # 127    \* no CR, LF, NUL, other controls
      none == [verb |-> "?", ok |-> FALSE, path |-> NoPath] IN
  IF ~clean \/ s = <<>> THEN none
  ELSE IF HasPrefixCI(s, MAILFROM) THEN LET p == ParsePath(s, Len(MAILFROM) + 1) IN [verb |-> "MAIL", ok |-> p.ok, path |-> p]
  ELSE IF HasPrefixCI(s, RCPTTO) THEN LET p == ParsePath(s, Len(RCPTTO) + 1) IN [verb |-> "RCPT", ok |-> p.ok, path |-> p]
  ELSE IF HasPrefixCI(s, <<69, 72, 76, 79, 32>>) \/ HasPrefixCI(s, <<72, 69, 76, 79, 32>>)       \* EHLO / HELO SP Domain
       THEN [verb |-> "HELLO", path |-> NoPath,
             \* exactly one argument: visible characters only (the syntax of the domain itself is not judged)
             ok |-> Len(s) > 5 /\ AllIn(s, 6, LAMBDA b : b >= 33 /\ b <= 126)]
  ELSE IF HasPrefixCI(s, <<65, 85, 84, 72, 32>>)                                              \* AUTH SP mech [SP initial-response]
       THEN LET me == KwEnd(s, 6) IN
            [verb |-> "AUTH", path |-> NoPath,
             ok |-> me > 6 /\ (me > Len(s) \/ (s[me] = 32 /\ me < Len(s) /\ AllIn(s, me + 1, IsB64)))]
  ELSE IF \E t \in {<<68, 65, 84, 65>>, <<82, 83, 69, 84>>, <<78, 79, 79, 80>>, <<81, 85, 73, 84>>,
                    <<83, 84, 65, 82, 84, 84, 76, 83>>, <<42>>} : Exactly(s, t)              \* DATA RSET NOOP QUIT STARTTLS *
       THEN [verb |-> "SIMPLE", ok |-> TRUE, path |-> NoPath]
  ELSE IF AllIn(s, 1, IsB64) THEN [verb |-> "B64", ok |-> TRUE, path |-> NoPath]                 \* a SASL response
  ELSE none

(* DSN parameter values (RFC 3461 4.1, 4.3) *)
RECURSIVE SplitComma(_)
SplitComma(v) ==
  IF v = <<>> THEN << <<>> >>
  ELSE LET i == IF \E k \in DOMAIN v : v[k] = 44 THEN CHOOSE k \in DOMAIN v : v[k] = 44 /\ \A j \in 1..(k - 1) : v[j] # 44 ELSE 0 IN
       IF i = 0 THEN <<v>> ELSE <<SubSeq(v, 1, i - 1)>> \o SplitComma(SubSeq(v, i + 1, Len(v)))
NEVER == <<78, 69, 86, 69, 82>>
NotifyWords == {<<83, 85, 67, 67, 69, 83, 83>>, <<70, 65, 73, 76, 85, 82, 69>>, <<68, 69, 76, 65, 89>>}
NotifyOK(v) == v = NEVER \/ (LET ws == SplitComma(v) IN \A i \in DOMAIN ws : ws[i] \in NotifyWords)
RetOK(v) == v \in {<<70, 85, 76, 76>>, <<72, 68, 82, 83>>}
KW(t) == Bytes(t)
ParamOK(p) ==
  CASE p.k = <<78, 79, 84, 73, 70, 89>> -> NotifyOK(p.v)                            \* NOTIFY
    [] p.k = <<82, 69, 84>> -> RetOK(p.v)                                            \* RET
    [] p.k = <<66, 79, 68, 89>> -> p.v \in {<<56, 66, 73, 84, 77, 73, 77, 69>>, <<55, 66, 73, 84>>}   \* BODY=8BITMIME|7BIT
    [] p.k = <<83, 77, 84, 80, 85, 84, 70, 56>> -> p.v = <<>>                        \* SMTPUTF8
    [] OTHER -> FALSE

-----------------------------------------------------------------------------
(* reference rendering of a local part and the enumeration of addresses (design model) *)

NeedsQuote(lp) == ~(\A i \in DOMAIN lp : IsAtext(lp[i]) \/ lp[i] = 46) \/ ~DotStringOK(lp, 1, Len(lp) + 1)
RECURSIVE Escape(_)
Escape(lp) == IF lp = <<>> THEN <<>>
              ELSE (IF Head(lp) \in {34, 92} THEN <<92, Head(lp)>> ELSE <<Head(lp)>>) \o Escape(Tail(lp))
Quote(lp) == <<34>> \o Escape(lp) \o <<34>>
Render(lp) == IF NeedsQuote(lp) THEN Quote(lp) ELSE lp
DOMAINB == <<116, 111, 46, 116, 101, 115, 116>>       \* "to.test"

CONSTANTS ALPHABET,      \* byte sequences (one symbol each), e.g. <<97>>, <<32>>, <<195, 169>>
          MAXLOCAL,      \* local parts of 1..MAXLOCAL symbols
          SETTERS,       \* where the address is put: From, EnvelopeFrom, To, AddCc, Bcc, ToIgnoreInvalid, ToFromString
          FORMS,         \* subset of {"plain", "named"}: with / without a display name
          HELOS,         \* HELO name classes
          DSNS           \* DSN option classes

VARIABLES sc, pc
vars == <<sc, pc>>

RECURSIVE Cat(_)
Cat(ss) == IF ss = <<>> THEN <<>> ELSE Head(ss) \o Cat(Tail(ss))
Locals == UNION {{Cat(t) : t \in [1..n -> ALPHABET]} : n \in 1..MAXLOCAL}

Scenarios ==
     \* (the *FromString setters trim white space - Unicode white space included - around every list item: a local part
     \* that begins with a no-break space is not "the address the caller put" there and is left out for that setter)
     {x \in {[kind |-> "addr", local |-> lp, setter |-> s, form |-> f, helo |-> "plain", dsn |-> "off"] :
                lp \in Locals, s \in SETTERS, f \in FORMS} :
        ~(x.setter = "ToFromString" /\ Len(x.local) >= 2 /\ x.local[1] = 194 /\ x.local[2] = 160)}
  \cup {[kind |-> "helo", local |-> <<97>>, setter |-> "To", form |-> "plain", helo |-> h, dsn |-> "off"] : h \in HELOS}
  \cup {[kind |-> "rawhelo", local |-> <<97>>, setter |-> "To", form |-> "plain", helo |-> h, dsn |-> "off"] : h \in HELOS}
  \* the smtp package used directly: Mail / Rcpt with a value that carries a line break
  \* (with and without DSN options set on the smtp.Client: the commands take another format then)
  \cup {[kind |-> "rawaddr", local |-> <<97>>, setter |-> st, form |-> "plain", helo |-> h, dsn |-> d] :
           h \in HELOS \cap {"plain", "cr", "lf", "crlf"}, st \in {"From", "To"}, d \in {"off", "all"}}
  \* one smtp connection used by two mail.Clients with different DSN options, one after the other
  \cup {[kind |-> "dsnshare", local |-> <<97>>, setter |-> "To", form |-> "plain", helo |-> "plain", dsn |-> d] : d \in DSNS \cap {"never", "succfail", "all", "hdrs", "plain"}}
  \cup {[kind |-> "dsn", local |-> <<97>>, setter |-> "To", form |-> "plain", helo |-> "plain", dsn |-> d] : d \in DSNS}

Init == sc \in Scenarios /\ pc = "gen"
Next == pc = "gen" /\ pc' = "done" /\ UNCHANGED sc
Spec == Init /\ [][Next]_vars

(* the reference rendering of every enumerated local part parses back to it *)
RefLine(lp) == MAILFROM \o Render(lp) \o <<64>> \o DOMAINB \o <<62>>
RoundTrip == LET p == ParseCmd(RefLine(sc.local)) IN p.ok /\ p.path.local = sc.local /\ p.path.domain = DOMAINB
(* an unquoted rendering of a local part that needs quoting is never accepted as that mailbox *)
NoSmuggle == NeedsQuote(sc.local) =>
               LET p == ParseCmd(MAILFROM \o sc.local \o <<64>> \o DOMAINB \o <<62>>) IN
               ~(p.ok /\ p.path.local = sc.local /\ p.path.domain = DOMAINB /\ p.path.params = <<>>)

Scenario == [kind |-> sc.kind, local |-> sc.local, addr |-> Render(sc.local) \o <<64>> \o DOMAINB, domain |-> DOMAINB,
             setter |-> sc.setter, form |-> sc.form, helo |-> sc.helo, dsn |-> sc.dsn]
Emit == pc = "done" => PrintT(<<"SCENARIO", ToJson(Scenario)>>)
=============================================================================
