----------------------------- MODULE MimeStream -----------------------------
(***************************************************************************)
(* Line-level automata over a rendered message (properties C01 C02 C18).   *)
(*                                                                         *)
(* The input is the sequence of physical lines of the output, split at LF  *)
(* bytes only, each with purely lexical facts (length, terminator, first   *)
(* byte, "--" token, field-name shape, blanks, control characters, the     *)
(* multipart subtype / boundary parameter / transfer encoding a header     *)
(* line mentions).  The automaton reconstructs from them:                  *)
(*   - the header sections (RFC 5322 2.2: field start / continuation /     *)
(*     empty line) with the field names of every section,                  *)
(*   - the multipart structure as a boundary stack (RFC 2046 5.1.1) and    *)
(*     its preorder token sequence  "(mixed" "L" ")" ...,                  *)
(*   - the transfer encoding governing every body line,                    *)
(* and flags every line that breaks the structure or the line discipline.  *)
(***************************************************************************)
EXTENDS Naturals, Sequences, FiniteSets

SP == 32
HT == 9

MSInit == [
  mode    |-> "hdr",       \* hdr: inside a header section; body: inside a body / preamble / epilogue
  stack   |-> <<>>,        \* boundaries of the open multiparts, innermost last
  names   |-> <<>>,        \* field names of the current header section
  secs    |-> <<>>,        \* completed header sections: [names, mp]
  pendMp  |-> "",          \* multipart subtype declared in the current section
  pendB   |-> "",          \* boundary parameter declared in the current section
  cte     |-> "7bit",      \* transfer encoding of the current entity
  leaf    |-> FALSE,       \* the current body belongs to a leaf
  closed  |-> FALSE,       \* a close-delimiter was seen and no delimiter since
  toks    |-> <<>>,        \* preorder tokens
  lines   |-> 0,
  viol    |-> {} ]

F(name, ok) == IF ok THEN {} ELSE {name}
Rg(f) == {f[i] : i \in DOMAIN f}
Top(s) == s[Len(s)]
Pop(s) == SubSeq(s, 1, Len(s) - 1)

Encoded(cte) == cte \in {"quoted-printable", "base64"}

(* discipline every generated line obeys (C18): CRLF terminated, no bare CR *)
LineFlags(l, last) ==
       F("C18_CRLF", l.eol = "crlf" \/ (last /\ l.eol = "none"))
  \cup F("C18_NoBareCR", ~l.barecr)

HeaderLine(ms, l, last) ==
  LET common == LineFlags(l, last)
                \cup F("C02_NoControlInHeader", ~l.ctl /\ ~l.barecr /\ l.eol = "crlf")
                \* the header section of the message itself / of a MIME part inside a multipart
                \cup F(IF ms.secs = <<>> THEN "C18_HeaderLineLength" ELSE "C18_PartHeaderLineLength",
                        l.len <= 78 \/ ~l.inner)
  IN
  IF l.len = 0 THEN          \* end of the header section
     [ms EXCEPT
        !.mode   = "body",
        !.secs   = Append(@, [names |-> ms.names, mp |-> ms.pendMp]),
        !.stack  = IF ms.pendMp # "" THEN Append(@, ms.pendB) ELSE @,
        !.toks   = Append(@, IF ms.pendMp # "" THEN "(" \o ms.pendMp ELSE "L"),
        !.leaf   = ms.pendMp = "",
        !.closed = FALSE,
        !.viol   = @ \cup LineFlags(l, last)
                     \cup F("C01_BoundaryDeclared", ms.pendMp # "" => ms.pendB # "")
                     \* a nested multipart must not reuse the boundary of an enclosing one
                     \cup F("C01_BoundaryUnique", ms.pendMp # "" => ms.pendB \notin Rg(ms.stack))]
  ELSE IF l.name # "" /\ l.first \notin {SP, HT} THEN     \* a new field
     [ms EXCEPT
        !.names  = Append(@, l.name),
        !.pendMp = IF l.mp # "" THEN l.mp ELSE @,
        !.pendB  = IF l.bparam # "" THEN l.bparam ELSE @,
        !.cte    = IF l.cte # "" THEN l.cte ELSE @,
        !.viol   = @ \cup common]
  ELSE IF l.first \in {SP, HT} THEN                        \* continuation of the current field
     [ms EXCEPT
        !.pendB  = IF l.bparam # "" THEN l.bparam ELSE @,
        !.viol   = @ \cup common \cup F("C02_HeaderSyntax", ms.names # <<>>)]
  ELSE [ms EXCEPT !.viol = @ \cup common \cup {"C02_HeaderSyntax"}]

BodyLine(ms, l, last) ==
  IF l.dd /\ ms.stack # <<>> /\ l.tok = Top(ms.stack) THEN
     IF l.close
     THEN [ms EXCEPT !.stack = Pop(@), !.toks = Append(@, ")"), !.closed = TRUE, !.leaf = FALSE,
                     !.viol = @ \cup LineFlags(l, last)]
     ELSE [ms EXCEPT !.mode = "hdr", !.names = <<>>, !.pendMp = "", !.pendB = "", !.cte = "7bit",
                     !.closed = FALSE, !.leaf = FALSE, !.viol = @ \cup LineFlags(l, last)]
  ELSE
     [ms EXCEPT !.viol = @
        \* a delimiter of an enclosing multipart while an inner one is still open
        \cup F("C01_BoundaryNesting", ~(l.dd /\ l.tok \in Rg(ms.stack)))
        \* between the close-delimiter of a nested multipart and the next delimiter: only empty lines
        \cup F("C01_EpilogueEmpty", (ms.closed /\ ms.stack # <<>>) => l.len = 0)
        \* nothing after the outermost close-delimiter
        \cup F("C01_NothingAfterEnd", (ms.closed /\ ms.stack = <<>>) => l.len = 0)
        \cup (IF ms.leaf /\ Encoded(ms.cte)
              THEN LineFlags(l, last)
                   \cup F("C18_EncodedLineLength", l.len <= 76)
                   \cup F("C18_Base64Alphabet", ms.cte = "base64" => (l.b64 \/ l.len = 0))
                   \cup F("C18_EncodedIs7bit", ~l.high /\ ~l.ctl)
              ELSE {})]

MSStep(ms, l, last) ==
  LET m2 == IF ms.mode = "hdr" THEN HeaderLine(ms, l, last) ELSE BodyLine(ms, l, last)
  IN [m2 EXCEPT !.lines = @ + 1]

(* when the last line has been consumed *)
MSFinal(ms) ==
  [ms EXCEPT !.viol = @ \cup F("C01_AllMultipartsClosed", ms.stack = <<>>)
                        \cup F("C02_HeaderSectionEnds", ms.mode = "body")]

-----------------------------------------------------------------------------
(* C02: the fields of every header section *)

(* field names are compared case-insensitively: the lexer lower-cases them *)
PartFields == {"content-type", "content-transfer-encoding", "content-disposition", "content-id",
               "content-description"}

NoDup(s) == \A i, j \in DOMAIN s : i # j => s[i] # s[j]

(* top-level section: exactly the fields the caller set plus the documented defaults; the MIME   *)
(* fields of a single body part / file may appear there too; nothing twice                      *)
TopSectionOK(names, expected) ==
  /\ NoDup(names)
  /\ expected \subseteq Rg(names)
  /\ Rg(names) \subseteq expected \cup PartFields
PartSectionOK(names) ==
  /\ NoDup(names) /\ Rg(names) \subseteq PartFields /\ "content-type" \in Rg(names)

SectionFlags(ms, expectedTop) ==
  IF ms.secs = <<>> THEN {"C02_TopFields"}
  ELSE F("C02_TopFields", TopSectionOK(ms.secs[1].names, expectedTop))
       \cup F("C02_PartFields", \A i \in 2..Len(ms.secs) : PartSectionOK(ms.secs[i].names))
=============================================================================
