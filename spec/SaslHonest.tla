----------------------------- MODULE SaslHonest -----------------------------
(***************************************************************************)
(* Honest SASL exchanges (property C14) with symbolic message terms.       *)
(*                                                                         *)
(* A client that knows (cu, cp) runs mechanism m against a conforming      *)
(* server that stores (su, sp).  Messages are terms over user, password,   *)
(* salt, iteration count, nonces and channel-binding data; the server's    *)
(* acceptance relation Accepts is what RFC 4616 / 2195 / 5802 / 7677 /     *)
(* 5929 / 9266 say.  Design invariant: for an honest client                *)
(*      Accepts  <=>  cu = su /\ cp = sp,                                  *)
(* and every attempt - also a retry with the same Auth object - draws a    *)
(* fresh client nonce.  TLC enumerates mechanism x credential classes x    *)
(* wrong-credential kind x TLS version x retry; salt / iteration / nonce   *)
(* classes are rotated.  The real client is run against the independent    *)
(* reference verifiers of the harness for every scenario.                  *)
(***************************************************************************)
EXTENDS Naturals, Sequences, FiniteSets, TLC, Json

CONSTANTS MECHS, UCLASSES, PCLASSES, WRONGS, TLSVERS, RETRY, ITERS, SALTS, SUFFIXES,
          VIAS,    \* "smtp": smtp.Client.Auth with an Auth object of the caller; "client": mail.Client dials (twice when retry)
          ABORTS   \* how the server cuts the FIRST attempt of a retry short: "" (not), "t4" (4yz to the second response), "drop"

Scram(m) == m \in {"SCRAM-SHA-1", "SCRAM-SHA-256", "SCRAM-SHA-1-PLUS", "SCRAM-SHA-256-PLUS"}
Plus(m)  == m \in {"SCRAM-SHA-1-PLUS", "SCRAM-SHA-256-PLUS"}
HashOf(m) == IF m \in {"SCRAM-SHA-1", "SCRAM-SHA-1-PLUS"} THEN "sha1" ELSE "sha256"

(* channel binding the server expects on a connection of TLS version v (RFC 5929 / 9266) *)
CbType(v) == IF v = "1.3" THEN "tls-exporter" ELSE "tls-unique"

(* symbolic terms *)
Salted(p, salt, it, h) == [t |-> "Hi", p |-> p, salt |-> salt, it |-> it, h |-> h]
ClientFirstBare(u, cn) == [t |-> "cfb", n |-> u, r |-> cn]
Gs2(m, v) == IF Plus(m) THEN [flag |-> "p", cb |-> CbType(v)] ELSE [flag |-> "n", cb |-> ""]
ServerFirst(cn, sn, salt, it) == [t |-> "sf", r |-> <<cn, sn>>, s |-> salt, i |-> it]
AuthMessage(cfb, sf, cfwp) == <<cfb, sf, cfwp>>
ClientFinalWP(gs2, cbdata, cn, sn) == [t |-> "cfwp", c |-> <<gs2, cbdata>>, r |-> <<cn, sn>>]
Proof(sp, am) == [t |-> "proof", key |-> sp, am |-> am]

(* one honest SCRAM exchange and the server's verdict *)
ScramAccepts(m, v, cu, cp, su, sp, salt, it, cn, sn) ==
  LET h == HashOf(m)
      gs2 == Gs2(m, v)
      cbdata == IF Plus(m) THEN [conn |-> "this", type |-> CbType(v)] ELSE "none"
      cfb == ClientFirstBare(cu, cn)
      sf == ServerFirst(cn, sn, salt, it)
      cfwp == ClientFinalWP(gs2, cbdata, cn, sn)
      am == AuthMessage(cfb, sf, cfwp)
      proof == Proof(Salted(cp, salt, it, h), am)
      \* server side
      expectCb == IF Plus(m) THEN [conn |-> "this", type |-> CbType(v)] ELSE "none"
  IN /\ cfb.n = su
     /\ cfwp.c = <<Gs2(m, v), expectCb>>
     /\ cfwp.r = <<cn, sn>>
     /\ proof = Proof(Salted(sp, salt, it, h), AuthMessage(ClientFirstBare(su, cn), sf, cfwp))

Accepts(sc) ==
  LET cu == IF sc.wrong = "user" THEN <<sc.user, "x">> ELSE <<sc.user>>
      cp == IF sc.wrong = "pass" THEN <<sc.pass, "x">> ELSE <<sc.pass>>
      su == <<sc.user>>  sp == <<sc.pass>> IN
  IF Scram(sc.mech) THEN ScramAccepts(sc.mech, sc.tlsver, cu, cp, su, sp, sc.salt, sc.iter, "cnonce", sc.suffix)
  ELSE cu = su /\ cp = sp        \* PLAIN, LOGIN, CRAM-MD5 (keyed digest of the challenge), XOAUTH2

Pick(seq, k) == seq[(k % Len(seq)) + 1]
Idx(S, x) == Cardinality({y \in S : y < x})      \* position of a string in a set of strings is not ordered in TLA+: use lengths

Scenarios ==
  {[kind |-> "honest", mech |-> m, user |-> u, pass |-> p, wrong |-> w,
    tlsver |-> IF Plus(m) THEN v ELSE "", retry |-> r,
    salt |-> Pick(SALTS, n), iter |-> Pick(ITERS, n + 1), suffix |-> Pick(SUFFIXES, n + 2),
    via |-> via, abort |-> IF r THEN ab ELSE ""] :
     m \in MECHS, u \in UCLASSES, p \in PCLASSES, w \in WRONGS, v \in TLSVERS, r \in RETRY, n \in 0..2, via \in VIAS, ab \in ABORTS}

VARIABLES sc, pc
vars == <<sc, pc>>
Init == sc \in Scenarios /\ pc = "run"
Next == pc = "run" /\ pc' = "done" /\ UNCHANGED sc
Spec == Init /\ [][Next]_vars

AcceptedIffRight == Accepts(sc) <=> (sc.wrong = "")
Emit == pc = "done" => PrintT(<<"SCENARIO", ToJson([sc EXCEPT !.kind = "honest"] @@ [script |-> <<>>, sent |-> <<>>, ok |-> sc.wrong = ""])>>)
=============================================================================
