----------------------------- MODULE MimeBuild -----------------------------
(***************************************************************************)
(* Builder programs of the go-mail message API and the MIME structure the  *)
(* rendering must have (property C01, used by C08 C10 C11 C12 as well).     *)
(*                                                                         *)
(* A program is the abstract message a sequence of builder calls leaves    *)
(* behind: body part and alternatives (in call order), embeds,             *)
(* attachments, message-level transfer encoding and per-slot options.      *)
(* ExpectedToks is the property: the preorder token sequence of the        *)
(* multipart tree                                                          *)
(*      mixed > related > alternative,                                     *)
(* each layer present exactly when attachments / embeds / alternatives     *)
(* are present together with something else, leaves in call order.         *)
(* The same operator is evaluated by the trace monitor (TraceMime.tla) on  *)
(* the slot counts of every replayed scenario and compared with what two   *)
(* independent readers found in the rendered bytes.                        *)
(***************************************************************************)
EXTENDS Naturals, Sequences, FiniteSets, TLC, Json

Rep(tok, n) == [i \in 1..n |-> tok]

(* np body parts, ne embeds, na attachments *)
ExpectedToks(np, ne, na) ==
  LET alt    == IF np > 1 THEN <<"(alternative">> \o Rep("L", np) \o <<")">> ELSE Rep("L", np)
      relIn  == alt \o Rep("L", ne)
      rel    == IF ne >= 1 /\ np + ne > 1 THEN <<"(related">> \o relIn \o <<")">> ELSE relIn
      mixIn  == rel \o Rep("L", na)
  IN IF na >= 1 /\ np + ne + na > 1 THEN <<"(mixed">> \o mixIn \o <<")">> ELSE mixIn

(* A message with a PGP type (WithPGPType / SetPGPType) is one flat multipart of that kind - "encrypted" or     *)
(* "signed" - around every leaf in call order (RFC 3156): the layers of ExpectedToks do not exist (X02)        *)
ExpectedToksPgp(pgp, n) == <<"(" \o pgp>> \o Rep("L", n) \o <<")">>
ExpectedFor(pgp, np, ne, na) == IF pgp = "" THEN ExpectedToks(np, ne, na) ELSE ExpectedToksPgp(pgp, np + ne + na)

(* With at most one leaf no multipart layer is required and either form is *)
(* accepted (DESIGN.md 7.1): compare the leaves only.                      *)
LeavesOnly(toks) == SelectSeq(toks, LAMBDA t : t = "L")
SameStructure(expected, found, nleaves) ==
  IF nleaves <= 1 THEN LeavesOnly(expected) = LeavesOnly(found) ELSE expected = found

(* structural sanity of a token sequence: balanced, and the layer order    *)
(* mixed > related > alternative is never inverted                         *)
Rank(t) == CASE t = "(mixed" -> 3 [] t = "(related" -> 2 [] t = "(alternative" -> 1 [] OTHER -> 0
RECURSIVE WellNested(_, _)
WellNested(toks, stack) ==
  IF toks = <<>> THEN stack = <<>>
  ELSE LET t == Head(toks) IN
       IF t = "L" THEN WellNested(Tail(toks), stack)
       ELSE IF t = ")" THEN stack # <<>> /\ WellNested(Tail(toks), SubSeq(stack, 1, Len(stack) - 1))
       ELSE /\ (stack = <<>> \/ Rank(stack[Len(stack)]) > Rank(t))
            /\ WellNested(Tail(toks), Append(stack, t))

-----------------------------------------------------------------------------
(* design model: enumeration of builder programs                           *)

CONSTANTS
  MAXP, MAXE, MAXA,     \* body parts (body + alternatives), embeds, attachments
  ENCS,                 \* message encodings: subset of {"qp","b64","8bit"}
  PENCS,                \* per-part overrides: subset of {"","qp","b64","8bit"}
  FENCS,                \* per-file encodings: subset of {"","b64","8bit","7bit","qp"}
  CCS,                  \* content classes (sequence) rotated over the slots
  PRODS,                \* part producers (sequence) rotated over the slots
  SRCS,                 \* file sources (sequence) rotated over the slots
  ROTS,                 \* rotations of the covering assignment
  BOUNDARIES,           \* subset of {"", "fixed"}
  DELS,                 \* index of the part that is deleted again (Part.Delete); 0 = none
  HDRS,                 \* header-setter programs: set of sequences of [setter, val] (C02, C18)
  PDESCS, FDESCS,       \* part / file description classes ("" = none)
  FNAMES, FCIDS,        \* file name / content-id classes ("" = default)
  OPSEQS,               \* render-operation sequences (C11)
  PGPS,                 \* PGP/MIME type of the message: subset of {"", "encrypted", "signed"} (X02)
  STYLES,               \* how the configuration reaches the message: "" = options at construction, "set" = the setter methods of Msg and Part afterwards
  MWS,                  \* middlewares of the caller ("" = none, "attach", "body"): applied by every render before signing
  CHARSETS,             \* charset of the message: subset of {"", "latin1"}; "" = UTF-8. With "latin1" the caller hands the texts the library
                        \* labels with the message charset (subject, generic headers, descriptions, file names) over as ISO-8859-1 octets
  PCHARSETS,            \* charset of the body parts where it differs from the message's: subset of {"", "latin1", "utf8"}
  SMIMES,               \* S/MIME signing (C08): set of [key, inter]; key "" = unsigned
  ROUNDTRIP,            \* subset of BOOLEAN: parse the rendering with the EML parser and render again (C10)
  FAULTS                \* render faults (C12): records [kind, slot, when]; kind "none" = no fault

VARIABLES prog, pc
vars == <<prog, pc>>

Pick(seq, k) == seq[(k % Len(seq)) + 1]

(* covering assignment of content class / producer / source to slot k of a shape with salt s *)
PartSpec(k, s, enc, del, pd) == [ct |-> IF k = 1 THEN "plain" ELSE IF k = 2 THEN "html" ELSE "plain",
                             enc |-> enc, desc |-> pd, cc |-> Pick(CCS, s + 3 * k), prod |-> Pick(PRODS, s + k),
                             del |-> del]
FileSpec(k, s, enc, embed, fd, fn, fc) == [enc |-> enc, desc |-> fd, ctype |-> ((s + k) % 2 = 0),
                               cid |-> fc, name |-> fn,                \* (attachments can be given a Content-ID too)
                               src |-> Pick(SRCS, s + 2 * k + (IF embed THEN 1 ELSE 0)),
                               cc |-> Pick(CCS, s + 5 * k + (IF embed THEN 2 ELSE 7))]

AllProgs ==
  {[enc |-> e,
    parts  |-> [k \in 1..np |-> PartSpec(k, rot + np + 2 * ne + 3 * na, pe[k], k = dl, IF k = np THEN pd ELSE "")],
    embeds |-> [k \in 1..ne |-> FileSpec(k, rot + np + ne, fe, TRUE, IF k = 1 THEN fd ELSE "", IF k = 1 THEN fn ELSE "", fc)],
    atts   |-> [k \in 1..na |-> FileSpec(k, rot + na + 4, fa, FALSE, IF k = na THEN fd ELSE "", IF k = na THEN fn ELSE "", IF k = na THEN fc ELSE "")],
    boundary |-> b, hdrs |-> hs, smime |-> sm, mw |-> mw, style |-> st, pgp |-> pg, cs |-> cs, pcs |-> pcs] :
     e \in ENCS, np \in 0..MAXP, ne \in 0..MAXE, na \in 0..MAXA, rot \in ROTS, b \in BOUNDARIES,
     pe \in [1..MAXP -> PENCS], fe \in FENCS, fa \in FENCS, dl \in DELS,
     hs \in HDRS, pd \in PDESCS, fd \in FDESCS, fn \in FNAMES, fc \in FCIDS, sm \in SMIMES, mw \in MWS, st \in STYLES, pg \in PGPS,
     cs \in CHARSETS, pcs \in PCHARSETS}

(* a message has at least one leaf *)
Live(p) == SelectSeq(p.parts, LAMBDA x : ~x.del)
Progs == {p \in AllProgs : Len(Live(p)) + Len(p.embeds) + Len(p.atts) >= 1}

Scenarios == {[prog |-> p, ops |-> o, fault |-> f, roundtrip |-> rt] : p \in Progs, o \in OPSEQS, f \in FAULTS, rt \in ROUNDTRIP}

Init == prog \in Scenarios /\ pc = "built"
Render == pc = "built" /\ pc' = "done" /\ UNCHANGED prog
Next == Render
Spec == Init /\ [][Next]_vars

NP == Len(Live(prog.prog))
NE == Len(prog.prog.embeds)
NA == Len(prog.prog.atts)

(* design invariants of the expected structure *)
TreeWellFormed == WellNested(ExpectedToks(NP, NE, NA), <<>>) /\ WellNested(ExpectedFor(prog.prog.pgp, NP, NE, NA), <<>>)
LeavesInOrder  == Len(LeavesOnly(ExpectedToks(NP, NE, NA))) = NP + NE + NA
NoDegenerateLayer ==
  LET t == ExpectedToks(NP, NE, NA) IN
  \A i \in 1..Len(t) : Rank(t[i]) > 0 =>
     \* a layer that is opened contains at least two children
     Cardinality({j \in (i + 1)..Len(t) : t[j] # ")"}) >= 2

Scenario == [prog |-> prog.prog, ops |-> prog.ops, roundtrip |-> prog.roundtrip,
             tree |-> [toks |-> ExpectedFor(prog.prog.pgp, NP, NE, NA)]] @@
            (IF prog.fault.kind = "none" THEN <<>> ELSE [fault |-> prog.fault])
Emit == pc = "done" => PrintT(<<"SCENARIO", ToJson(Scenario)>>)
=============================================================================
