------------------------------ MODULE TraceSmtp ------------------------------
(***************************************************************************)
(* Trace validation for the call histories of smtp.Client (SmtpCalls.tla): *)
(* SmtpCalls!Step is folded over the calls recorded from the real client;  *)
(* what each call returned and what the reference server read while it ran *)
(* (verb and parameter keywords of every command line, the end of data)    *)
(* are compared with the result of Step.                                   *)
(***************************************************************************)
EXTENDS Naturals, Sequences, FiniteSets, TLC, Json, IOUtils, SequencesExt

S == INSTANCE SmtpCalls WITH MAXOPS <- 0, CALLS <- {}, EHLOS <- {}, CAPSETS <- {}, DEV_ValidateLate <- FALSE,
                             st <- 0, env <- 0, hist <- 0, outs <- 0

Trace == ndJsonDeserialize(IOEnv.TRACE_FILE)
VARIABLES l, b, st, cur, viol1, viols, stats
tvars == <<l, b, st, cur, viol1, viols, stats>>
Ev == Trace[l]
F(name, ok) == IF ok THEN {} ELSE {name}
Rg(f) == {f[i] : i \in DOMAIN f}
NoCall == [active |-> FALSE, res |-> 0, wire |-> <<>>]
ZeroStats == [traces |-> 0, events |-> 0, calls |-> 0, errors |-> 0, cmds |-> 0, badargs |-> 0, params |-> 0]
EnvOf(e) == [ehlo |-> e.env.ehlo, caps |-> Rg(e.env.caps)]
CallOf(e) == [op |-> e.op, arg |-> e.arg, arg2 |-> e.arg2]

TInit == l = 1 /\ b = [t |-> 0] /\ st = S!InitSt /\ cur = NoCall /\ viol1 = {} /\ viols = {} /\ stats = ZeroStats

RetFlags(e) ==
  LET r == cur.res IN
       F("X03_ErrorAsSpecified", e.err = r.err)
  \cup F("X03_AnswerAsSpecified", e.res = r.res)
  \cup F("X03_WireAsSpecified", cur.wire = r.wire)
  \* the same, said separately for the two facts a caller relies on most
  \cup F("X03_NothingSentOnBadArgument", e.arg \notin {"", "ok"} => cur.wire = <<>>)
  \cup F("X03_NothingSentAfterEnd", st.conn = "closed" => cur.wire = <<>>)

Step ==
  /\ l <= Len(Trace)
  /\ l' = l + 1
  /\ CASE Ev.ev = "eof" ->
            /\ JsonSerialize(IOEnv.OUT_FILE, [violations |-> SetToSeq(viols), drift |-> <<>>, stats |-> [stats EXCEPT !.events = l]])
            /\ UNCHANGED <<b, st, cur, viol1, viols, stats>>
       [] Ev.ev = "begin" ->
            /\ b' = Ev /\ st' = S!InitSt /\ cur' = NoCall /\ viol1' = {}
            /\ UNCHANGED <<viols, stats>>
       [] Ev.ev = "call" ->
            /\ cur' = [active |-> TRUE, res |-> S!Step(st, EnvOf(b), CallOf(Ev)), wire |-> <<>>]
            /\ stats' = [stats EXCEPT !.calls = @ + 1, !.badargs = @ + (IF Ev.arg \notin {"", "ok"} THEN 1 ELSE 0)]
            /\ UNCHANGED <<b, st, viol1, viols>>
       [] Ev.ev = "cmd" ->
            /\ cur' = IF cur.active THEN [cur EXCEPT !.wire = Append(@, S!W(Ev.rverb, Rg(Ev.params)))] ELSE cur
            /\ viol1' = viol1 \cup F("X03_NoTrafficOutsideCalls", cur.active)
            /\ stats' = [stats EXCEPT !.cmds = @ + 1, !.params = @ + Len(Ev.params)]
            /\ UNCHANGED <<b, st, viols>>
       [] Ev.ev = "eod" ->
            /\ cur' = IF cur.active THEN [cur EXCEPT !.wire = Append(@, S!W("EOD", {}))] ELSE cur
            /\ UNCHANGED <<b, st, viol1, viols, stats>>
       [] Ev.ev = "ret" ->
            /\ viol1' = viol1 \cup RetFlags(Ev)
            /\ st' = cur.res.st
            /\ cur' = NoCall
            /\ stats' = [stats EXCEPT !.errors = @ + (IF Ev.err THEN 1 ELSE 0)]
            /\ UNCHANGED <<b, viols>>
       [] Ev.ev = "end" ->
            /\ viols' = viols \cup {[t |-> b.t, p |-> p] : p \in viol1}
            /\ stats' = [stats EXCEPT !.traces = @ + 1]
            /\ UNCHANGED <<b, st, cur, viol1>>
       [] OTHER -> UNCHANGED <<b, st, cur, viol1, viols, stats>>

TSpec == TInit /\ [][Step]_tvars
AllConsumed == TLCGet("stats").diameter - 1 = Len(Trace)
=============================================================================
