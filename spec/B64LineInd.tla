----------------------------- MODULE B64LineInd -----------------------------
(***************************************************************************)
(* Integer abstraction of B64Line.tla for an UNBOUNDED argument: the line  *)
(* lengths are replaced by their sum and the number of full lines, write   *)
(* sizes are arbitrary naturals.  IndInv is inductive (checked with        *)
(* Apalache: Init => IndInv, IndInv /\ Next => IndInv'), so for every       *)
(* sequence of Write calls of any sizes the breaker never buffers a full   *)
(* line, every line it puts out is full, and no character is lost.         *)
(***************************************************************************)
EXTENDS Integers

VARIABLES
  \* @type: Int;
  used,
  \* @type: Int;
  nlines,
  \* @type: Int;
  out,
  \* @type: Int;
  rest,
  \* @type: Bool;
  inrec,
  \* @type: Int;
  total

MAXLINE == 76

Init == used = 0 /\ nlines = 0 /\ out = 0 /\ rest = 0 /\ inrec = FALSE /\ total = 0

\* one call with n characters (the first call of a Write, or the recursive one)
Call(n) ==
  IF used + n < MAXLINE
  THEN /\ used' = used + n /\ rest' = 0 /\ inrec' = FALSE /\ UNCHANGED <<nlines, out>>
  ELSE /\ used' = 0 /\ rest' = n - (MAXLINE - used) /\ inrec' = TRUE
       /\ nlines' = nlines + 1 /\ out' = out + MAXLINE

Write == /\ ~inrec
         /\ \E n \in Nat : Call(n) /\ total' = total + n
Recurse == inrec /\ Call(rest) /\ UNCHANGED total
Next == Write \/ Recurse

\* the same set of states as IndInv, in the assignment form Apalache wants for an initial predicate
IndInit ==
  /\ used \in 0..(MAXLINE - 1)
  /\ nlines \in Nat
  /\ out = nlines * MAXLINE
  /\ inrec \in BOOLEAN
  /\ rest \in Nat
  /\ (~inrec => rest = 0)
  /\ total = out + used + rest

IndInv ==
  /\ used >= 0 /\ used < MAXLINE
  /\ nlines >= 0 /\ out = nlines * MAXLINE
  /\ rest >= 0 /\ total >= 0
  /\ (~inrec => rest = 0)
  /\ out + used + rest = total
=============================================================================
