----------------------------- MODULE ClientLife -----------------------------
(***************************************************************************)
(* Life cycle of one mail.Client (client.go): any history of               *)
(*   Dial, Send, Reset, Close, DialAndSend                                 *)
(* on the same Client, with an environment that may let the server side of *)
(* every connection go away between two calls ("gone"), refuse a dial      *)
(* ("refused") or reject a message at MAIL ("p5").                         *)
(*                                                                         *)
(* The abstract state is what the calls depend on:                         *)
(*   shared   none / open / closed : Client.smtpClient is nil, connected   *)
(*            (smtp.Client.HasConnection) or was closed by Close           *)
(*   alive    the server end of the shared connection still exists         *)
(*   replaced connections that a second Dial replaced while they were open *)
(* Step(st, op, f) is the specification of one call: the new state, whether*)
(* the call returns an error, whether its message is delivered, whether    *)
(* anything may be put on the wire, and which transports it closes.  The   *)
(* same operator drives the design model below (every history up to        *)
(* MAXOPS, invariants) and the trace monitor (TraceLife.tla), which folds   *)
(* it over the calls recorded from the real Client.                        *)
(* Beyond the listed properties: this extends C03 / C04 / C19 from one     *)
(* call to histories of calls.                                             *)
(***************************************************************************)
EXTENDS Naturals, Sequences, FiniteSets, TLC, Json

CONSTANTS MAXOPS, OPNAMES, DEV_SendOnClosed

(* calls that bring their own connection: DialAndSend(WithContext) of the Client, and the package-level helpers  *)
(* mail.QuickSend (its own Client) and smtp.SendMail (kept from net/smtp), which dial real TCP by themselves     *)
OwnOps == {"DialAndSend", "DialAndSendCtx", "QuickSend", "LegacySendMail"}

InitSt == [shared |-> "none", alive |-> FALSE, replaced |-> 0]

FaultsOf(op) == CASE op = "Dial" -> {"ok", "refused"}
                  [] op = "Send" -> {"ok", "gone", "p5"}
                  [] op = "Reset" -> {"ok", "gone"}
                  [] op = "Close" -> {"ok", "gone"}
                  [] op \in OwnOps -> {"ok", "refused", "p5", "gone"}
                  [] OTHER -> {"ok"}

Res(st, err, delivered, wire, noconn, closes) ==
  [st |-> st, err |-> err, delivered |-> delivered, wire |-> wire, noconn |-> noconn, closes |-> closes]

(* wire: "none" nothing may be sent, "shared" only on the shared connection, "own" only on a connection of this call *)
Step(st0, op, f) ==
  LET st == IF f = "gone" THEN [st0 EXCEPT !.alive = FALSE] ELSE st0
      usable == st.shared = "open" \/ (DEV_SendOnClosed /\ st.shared = "closed")
  IN
  CASE op = "Dial" ->
         IF f = "refused" THEN Res(st, TRUE, FALSE, "none", FALSE, "none")
         ELSE Res([shared |-> "open", alive |-> TRUE, replaced |-> st.replaced + (IF st.shared = "open" THEN 1 ELSE 0)],
                  FALSE, FALSE, "own", FALSE, "none")
    [] op = "Send" ->
         IF ~usable THEN Res(st, TRUE, FALSE, "none", TRUE, "none")            \* ErrNoActiveConnection, nothing sent
         ELSE IF ~st.alive /\ ~(DEV_SendOnClosed /\ st.shared = "closed")
              THEN Res(st, TRUE, FALSE, "shared", TRUE, "none")                  \* the connection check fails
         ELSE IF f = "p5" THEN Res(st, TRUE, FALSE, "shared", FALSE, "none")     \* rejected, transaction abandoned, connection kept
         ELSE Res(st, FALSE, TRUE, "shared", FALSE, "none")
    [] op = "Reset" ->
         IF ~usable THEN Res(st, TRUE, FALSE, "none", TRUE, "none")
         ELSE IF ~st.alive THEN Res(st, TRUE, FALSE, "shared", TRUE, "none")
         ELSE Res(st, FALSE, FALSE, "shared", FALSE, "none")
    [] op = "Close" ->
         IF st.shared # "open" THEN Res(st, FALSE, FALSE, "none", FALSE, "none")  \* nothing to close: nil
         ELSE Res([st EXCEPT !.shared = "closed", !.alive = FALSE], ~st.alive, FALSE, "shared", FALSE, "shared")
    [] op \in OwnOps ->                                                         \* own connection, the shared one is untouched
         IF f = "refused" THEN Res(st, TRUE, FALSE, "none", FALSE, "none")
         ELSE Res(st, f = "p5", f # "p5", "own", FALSE, "own")
    [] OTHER -> Res(st, FALSE, FALSE, "none", FALSE, "none")

-----------------------------------------------------------------------------
(* design model: every history *)
VARIABLES st, hist, outs
vars == <<st, hist, outs>>

Init == st = InitSt /\ hist = <<>> /\ outs = <<>>
Call == /\ Len(hist) < MAXOPS
        /\ \E op \in OPNAMES : \E f \in FaultsOf(op) :
             LET r == Step(st, op, f) IN
             /\ st' = r.st
             /\ hist' = Append(hist, [op |-> op, f |-> f])
             /\ outs' = Append(outs, [err |-> r.err, delivered |-> r.delivered, wire |-> r.wire, closes |-> r.closes])
Next == Call
Spec == Init /\ [][Next]_vars

(* nothing is delivered, and nothing is put on the shared connection, unless it is open *)
DeliveredNeedsConnection ==
  \A i \in DOMAIN outs : (outs[i].delivered /\ hist[i].op = "Send") =>
     \E j \in 1..(i - 1) : hist[j].op = "Dial" /\ ~outs[j].err
                           /\ \A x \in (j + 1)..(i - 1) : hist[x].op # "Close"
                           /\ \A y \in (j + 1)..i : hist[y].f # "gone"
(* a failing call never delivers *)
ErrorMeansNotDelivered == \A i \in DOMAIN outs : outs[i].err => ~outs[i].delivered
(* Close is idempotent and the Client is reusable: after Close the state is the one a fresh Dial starts from *)
CloseIsFinal == (Len(hist) > 0 /\ hist[Len(hist)].op = "Close") => st.shared # "open"
TypeOK == st.shared \in {"none", "open", "closed"} /\ st.replaced \in 0..MAXOPS

Scenario == [ops |-> hist, predict |-> outs]
Emit == Len(hist) = MAXOPS => PrintT(<<"SCENARIO", ToJson(Scenario)>>)
=============================================================================
