-------------------------------- MODULE Smime --------------------------------
(***************************************************************************)
(* S/MIME signing of a message (property C08): the two-pass protocol of    *)
(* Msg.WriteTo / Msg.signMessage (msg.go) and msgWriter.writeMsg.          *)
(*                                                                         *)
(* A signed render is                                                      *)
(*   SignBegin   old signature part dropped, SMIME.inProgress := TRUE      *)
(*   PreHeader   one action per header field of the pre-render: the field  *)
(*               is written into the buffer and Msg.headerCount grows by   *)
(*               what writeHeader / writePreformattedGenHeader REPORT      *)
(*   PreEntity   the MIME entity is written at depth 0                     *)
(*   Cut         headerCount CRLF-terminated lines are skipped, the rest   *)
(*               is handed to the signer; signature part appended          *)
(*   FinHeader   the real render writes (and counts) the header again      *)
(*   FinEntity   multipart/signed wrapper; the entity one level deeper     *)
(*   Reset       headerCount := 0                                          *)
(* and a message may be rendered several times.  Lines are abstract: a     *)
(* header line is <<"H", field, i>>, an entity line carries the structure  *)
(* token, the generation of the boundary it uses and whether a leaf header *)
(* went through the folding writer.  The property: what was signed is,     *)
(* line for line, the first body part that is emitted - in every render.   *)
(*                                                                         *)
(* The DEV_* constants switch on behaviours the model does NOT have by     *)
(* design; each must violate Verifies (sensitivity runs), and the ones     *)
(* that describe the code as it is are used to predict the outcome of      *)
(* every scenario (conformance).                                           *)
(***************************************************************************)
EXTENDS MimeBuild

CONSTANTS DEV_CountUnwritten,    \* writeHeader reports one line for a field without values but writes nothing
          DEV_FoldTopLeaf,       \* a leaf that is the whole entity gets folded headers at depth 0 only
          DEV_NoReset,           \* headerCount survives a render
          DEV_NoResetOnError,    \* headerCount survives a failed render
          DEV_FreshInnerBoundary,\* boundaries of nested multiparts are not cached between the two passes
          DEV_CountSignaturePart,\* the structure functions (hasAlt ...) count the signature part as a body part
          DEV_SkipUnsigned       \* WriteToSkipMiddleware renders without the signing pass and without the reset
                                 \* (the code before fix c30a985; see DESIGN.md 11.2)

VARIABLES hc, buf, signedc, emitted, bcache, gen, sigparts, inprog, rn, hx, phase,
          extra      \* body parts added to the message between two renders (AddAlternative...)
svars == <<prog, pc, hc, buf, signedc, emitted, bcache, gen, sigparts, inprog, rn, hx, phase, extra>>

P == prog.prog
Ops == prog.ops
FailOps == {"FailSink", "FailSinkMid", "FailSinkLate"}

(* ---- the header section: fixed fields plus the fields of the program ---- *)
(* w = physical lines written, c = lines reported to headerCount (by design c = w) *)
LongVals == {"long", "multiline", "blanks", "utf8", "words5", "words20", "words40"}
FieldOf(h) ==
  CASE h.setter \in {"genempty", "toignore", "ccignore"} -> [w |-> 0, c |-> IF DEV_CountUnwritten THEN 1 ELSE 0]
    [] h.setter \in {"toname", "envonly"} -> [w |-> 0, c |-> 0]  \* joins the To field that exists anyway / the From field is written from the envelope-from
    [] h.val \in LongVals -> [w |-> 3, c |-> 3]
    [] OTHER -> [w |-> 1, c |-> 1]
Fixed == [i \in 1..7 |-> [w |-> 1, c |-> 1]]   \* Date MIME-Version Message-ID Subject User-Agent X-Mailer From/To
Fields == Fixed \o [i \in 1..Len(P.hdrs) |-> FieldOf(P.hdrs[i])]
HLines(i) == [j \in 1..Fields[i].w |-> <<"H", i, j>>]

(* ---- the entity ---- *)
NLeaves == NP + extra + NE + NA
LongLeafHeader ==
  \/ \E i \in DOMAIN P.parts : ~P.parts[i].del /\ P.parts[i].desc \in LongVals
  \/ \E i \in DOMAIN P.embeds : P.embeds[i].desc \in LongVals \/ P.embeds[i].name \in LongVals
  \/ \E i \in DOMAIN P.atts : P.atts[i].desc \in LongVals \/ P.atts[i].name \in LongVals
(* the body parts the structure functions see: the signature part is ignored by design *)
SeenParts == NP + extra + (IF DEV_CountSignaturePart THEN sigparts ELSE 0)
Toks == ExpectedToks(SeenParts, NE, NA)
Rank0(t) == t \in {"(mixed", "(related", "(alternative"}
(* nesting depth of the i-th token inside the entity (0 = outermost) *)
DepthAt(t, i) == Cardinality({j \in 1..(i - 1) : Rank0(t[j])}) - Cardinality({j \in 1..(i - 1) : t[j] = ")"})
(* boundary generation used by multipart token i when the entity is written at depth d with cache bc *)
EntityLines(d, bc, g) ==
  [i \in 1..Len(Toks) |->
     LET t == Toks[i] IN
     IF t = "L" THEN <<"leaf", i, DEV_FoldTopLeaf /\ d = 0 /\ NLeaves = 1 /\ LongLeafHeader>>
     ELSE IF Rank0(t) THEN <<"open", t, IF bc[t] # 0 THEN bc[t] ELSE g>>
     ELSE <<"close", i, 0>>]
(* cache after writing the entity at depth d: every multipart remembers its boundary, except - under the *)
(* deviation - the nested ones                                                                          *)
CacheAfter(d, bc, g) ==
  [t \in {"(mixed", "(related", "(alternative"} |->
     IF bc[t] # 0 THEN bc[t]
     ELSE IF \E i \in 1..Len(Toks) : Toks[i] = t /\ (~DEV_FreshInnerBoundary \/ DepthAt(Toks, i) = 0) THEN g
     ELSE 0]

SInit == /\ Init /\ prog.prog.smime.key # ""
         /\ hc = 0 /\ buf = <<>> /\ signedc = <<>> /\ emitted = <<>> /\ gen = 1 /\ sigparts = 0
         /\ bcache = [t \in {"(mixed", "(related", "(alternative"} |-> 0]
         /\ inprog = FALSE /\ rn = 1 /\ hx = 1 /\ phase = "idle" /\ extra = 0

Frame(vs) == UNCHANGED vs

(* the caller changes the message between two renders: another body part. The signature part of the previous render *)
(* is not a body part and is dropped by the next SignBegin wherever it sits in the list. (Placeholders keep the     *)
(* indices of signedc / emitted equal to the indices of the operations.)                                             *)
MutOps == {"AddAlt"}
Mutate ==
  /\ pc = "built" /\ phase = "idle" /\ rn <= Len(Ops) /\ Ops[rn] \in MutOps
  /\ extra' = extra + 1
  /\ signedc' = Append(signedc, <<>>) /\ emitted' = Append(emitted, <<<<"failed", 0, 0>>>>)
  /\ rn' = rn + 1 /\ pc' = IF rn = Len(Ops) THEN "done" ELSE pc
  /\ UNCHANGED <<prog, hc, buf, bcache, gen, sigparts, inprog, hx, phase>>

Skipping == DEV_SkipUnsigned /\ rn <= Len(Ops) /\ Ops[rn] = "SkipMw"

(* the deviating render path: no pre-render, no cut; what travels as "signed" is whatever an earlier render left *)
SkipBegin ==
  /\ pc = "built" /\ phase = "idle" /\ rn <= Len(Ops) /\ Skipping
  /\ signedc' = Append(signedc, IF signedc = <<>> THEN <<<<"unsigned", 0, 0>>>> ELSE signedc[Len(signedc)])
  /\ phase' = "fin" /\ hx' = 1
  /\ UNCHANGED <<prog, pc, hc, buf, emitted, bcache, gen, sigparts, inprog, rn, extra>>

SignBegin ==
  /\ pc = "built" /\ phase = "idle" /\ rn <= Len(Ops) /\ ~Skipping /\ Ops[rn] \notin MutOps
  /\ phase' = "pre" /\ inprog' = TRUE /\ buf' = <<>> /\ hx' = 1
  /\ sigparts' = 0
  /\ UNCHANGED <<prog, pc, hc, signedc, emitted, bcache, gen, rn, extra>>

PreHeader ==
  /\ phase = "pre" /\ hx <= Len(Fields)
  /\ buf' = buf \o HLines(hx) /\ hc' = hc + Fields[hx].c /\ hx' = hx + 1
  /\ UNCHANGED <<prog, pc, signedc, emitted, bcache, gen, sigparts, inprog, rn, phase, extra>>

PreEntity ==
  /\ phase = "pre" /\ hx > Len(Fields)
  /\ buf' = buf \o EntityLines(0, bcache, gen)
  /\ bcache' = CacheAfter(0, bcache, gen) /\ gen' = gen + 1
  /\ phase' = "cut"
  /\ UNCHANGED <<prog, pc, hc, signedc, emitted, sigparts, inprog, rn, hx, extra>>

(* skip headerCount lines; if the buffer is shorter the render fails *)
Cut ==
  /\ phase = "cut"
  /\ signedc' = Append(signedc, IF hc <= Len(buf) THEN SubSeq(buf, hc + 1, Len(buf)) ELSE <<<<"error", 0, 0>>>>)
  /\ sigparts' = 1 /\ inprog' = FALSE /\ phase' = "fin" /\ hx' = 1
  /\ UNCHANGED <<prog, pc, hc, buf, emitted, bcache, gen, rn, extra>>

FinHeader ==
  /\ phase = "fin" /\ hx <= Len(Fields)
  /\ hc' = hc + Fields[hx].c /\ hx' = hx + 1
  /\ UNCHANGED <<prog, pc, buf, signedc, emitted, bcache, gen, sigparts, inprog, rn, phase, extra>>

FinEntity ==
  /\ phase = "fin" /\ hx > Len(Fields)
  /\ IF Ops[rn] \in FailOps
     THEN emitted' = Append(emitted, <<<<"failed", 0, 0>>>>) /\ UNCHANGED <<bcache, gen>>
     ELSE /\ emitted' = Append(emitted, EntityLines(1, bcache, gen))
          /\ bcache' = CacheAfter(1, bcache, gen) /\ gen' = gen + 1
  /\ phase' = "reset"
  /\ UNCHANGED <<prog, pc, hc, buf, signedc, sigparts, inprog, rn, hx, extra>>

Reset ==
  /\ phase = "reset"
  /\ hc' = IF DEV_NoReset \/ (DEV_NoResetOnError /\ Ops[rn] \in FailOps) \/ Skipping THEN hc ELSE 0
  /\ rn' = rn + 1 /\ phase' = "idle"
  /\ pc' = IF rn = Len(Ops) THEN "done" ELSE pc
  /\ UNCHANGED <<prog, buf, signedc, emitted, bcache, gen, sigparts, inprog, hx, extra>>

SNext == SignBegin \/ Mutate \/ SkipBegin \/ PreHeader \/ PreEntity \/ Cut \/ FinHeader \/ FinEntity \/ Reset
SSpec == SInit /\ [][SNext]_svars

-----------------------------------------------------------------------------
RenderOK(i) == emitted[i] = <<<<"failed", 0, 0>>>> \/ signedc[i] = emitted[i]
(* C08 at design level: every finished render emitted what was signed *)
Verifies == \A i \in DOMAIN emitted : RenderOK(i)
CounterClean == phase = "idle" => hc = 0
OneSignature == sigparts <= 1 /\ ((phase = "fin" /\ ~Skipping) => sigparts = 1)
TypeOK == hc \in Nat /\ rn \in 1..(Len(Ops) + 1) /\ Len(signedc) <= Len(Ops) /\ Len(emitted) <= Len(signedc)

SScenario == [prog |-> prog.prog, ops |-> prog.ops, roundtrip |-> FALSE,
              tree |-> [toks |-> ExpectedToks(NP, NE, NA)],
              predict |-> [ok |-> [i \in DOMAIN emitted |-> RenderOK(i)]]]
SEmit == pc = "done" => PrintT(<<"SCENARIO", ToJson(SScenario)>>)
=============================================================================
