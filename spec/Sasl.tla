-------------------------------- MODULE Sasl --------------------------------
(***************************************************************************)
(* SASL exchanges of the go-mail SMTP client (smtp/auth_*.go).             *)
(*                                                                         *)
(* Part 1 (C15): the SCRAM client as a state machine against an            *)
(* ADVERSARIAL server that may send any message of the alphabet SYMS at    *)
(* any time.  The client state is: the phase of the running exchange, and  *)
(* whether a valid server-first / a valid server-final of THIS exchange    *)
(* was seen.  Property: success only after both, acknowledgement ("" to    *)
(* the server-final) only for the valid server-final of the running        *)
(* exchange.  TLC explores every server message sequence up to MAXSEQ.     *)
(*                                                                         *)
(* Part 2 (C14): the honest exchange of every mechanism over credential /  *)
(* salt / iteration / nonce classes; property: accepted <=> credentials    *)
(* right, fresh nonce on every attempt.                                    *)
(*                                                                         *)
(* The observer SaslObserve is shared with the trace monitor               *)
(* (TraceSasl.tla), which feeds it the messages recorded on the wire.      *)
(***************************************************************************)
EXTENDS Naturals, Sequences, FiniteSets, TLC, Json

(* server message symbols *)
SYMS == {"empty",        \* 334 with an empty challenge: (re)start, the client sends client-first
         "validFirst",   \* server-first extending the nonce of the latest client-first
         "foreignNonce", \* server-first whose nonce does not extend the client's
         "truncNonce",   \* server-first whose nonce is a proper prefix of the client's
         "malFirst",     \* malformed server-first (fields missing / not r=,s=,i=)
         "validFinal",   \* v=ServerSignature over this exchange's AuthMessage with the right key
         "otherFinal",   \* v= of another exchange (other nonce) or computed with another password
         "emptyFinal",   \* v= computed over empty state (no salt, no AuthMessage)
         "staleFinal",   \* the valid v= of an earlier, abandoned exchange of this connection
         "keyedFinal",   \* v= with the right key over the messages really exchanged, whatever the server-first was
         "truncFinal",   \* v= followed by a proper prefix of the valid signature
         "zeroKeyFinal", \* v= over the messages really exchanged, computed with an empty (all-zero) key
         "bareV",        \* "v=" alone
         "junk",         \* 334 with bytes that are neither r=... nor v=...
         "ok235", "fail535"}

(* ---- observer over wire events: srv(sym, firstValid, finalValid), cli(kind), ret(ok) ---- *)
ObsInit == [gotFirst |-> FALSE, verified |-> FALSE, lastValid |-> FALSE, started |-> FALSE, viol |-> {}, acks |-> 0, firsts |-> 0]
Fl(name, ok) == IF ok THEN {} ELSE {name}

SaslObserve(o, e) ==
  CASE e.ev = "cli" ->
         IF e.kind = "first" THEN [o EXCEPT !.started = TRUE, !.gotFirst = FALSE, !.verified = FALSE, !.lastValid = FALSE, !.firsts = @ + 1]
         ELSE IF e.kind = "ack"   \* the empty response that acknowledges a server-final: the message it answers is the valid one
              THEN [o EXCEPT !.acks = @ + 1, !.viol = @ \cup Fl("C15_AckOnlyValidFinal", o.verified /\ o.lastValid)]
         ELSE o
    [] e.ev = "srv" ->
         \* validity is a fact about the bytes sent (computed by the reference implementation):
         \* firstValid = extends the nonce of the latest client-first; finalValid = right key, this exchange
         [o EXCEPT !.gotFirst = IF e.firstValid THEN TRUE ELSE @,
                   !.verified = IF e.finalValid /\ o.gotFirst THEN TRUE ELSE @,
                   !.lastValid = e.finalValid /\ o.gotFirst]
    [] e.ev = "ret" ->
         [o EXCEPT !.viol = @ \cup Fl("C15_SuccessOnlyAfterVerifiedFinal", e.ok => (o.gotFirst /\ o.verified))]
    [] OTHER -> o

-----------------------------------------------------------------------------
(* Part 1: adversarial design model *)
CONSTANTS MAXSEQ, MECHS, ALPHA, DEV_Bare235, DEV_EmptyStateFinal   \* ALPHA: subset of SYMS the scripts are drawn from

VARIABLES ph,      \* start / sentFirst / sentFinal / verified / ok / failed
          full,    \* the complete server script of this scenario
          k,       \* how many symbols of it were consumed
          sent,    \* what the client sent: first / final / ack / abort
          obs, mech
vars == <<ph, full, k, sent, obs, mech>>

(* every script up to MAXSEQ symbols: the modelled client may end the exchange earlier, the real one *)
(* gets the rest of the script if it goes on                                                          *)
Scripts == UNION {[1..n -> ALPHA] : n \in 1..MAXSEQ}
ASSUME ALPHA \subseteq SYMS
Init == ph = "start" /\ full \in Scripts /\ k = 0 /\ sent = <<>> /\ obs = ObsInit /\ mech \in MECHS

Srv(sym, fv, nv) == [ev |-> "srv", sym |-> sym, firstValid |-> fv, finalValid |-> nv]
Cli(c) == [ev |-> "cli", kind |-> c]

Fail(o, sym) ==     \* the client aborts: "*", then QUIT
  /\ ph' = "failed" /\ sent' = Append(sent, "abort")
  /\ obs' = SaslObserve(SaslObserve(o, Cli("abort")), [ev |-> "ret", ok |-> FALSE])

ServerSends ==
  /\ ph \notin {"ok", "failed"} /\ k < Len(full)
  /\ k' = k + 1 /\ UNCHANGED <<mech, full>>
  /\ LET sym == full[k + 1]
         fv == sym = "validFirst" /\ ph \in {"sentFirst", "sentFinal"}   \* there is a client-first to extend
         nv == sym \in {"validFinal", "keyedFinal"} /\ ph = "sentFinal"
         o1 == SaslObserve(obs, Srv(sym, fv, nv)) IN
     CASE sym = "empty" ->
            /\ ph' = "sentFirst" /\ sent' = Append(sent, "first") /\ obs' = SaslObserve(o1, Cli("first"))
       \* (the code also accepts a repeated server-first for the same nonce and answers it again)
       [] sym = "validFirst" /\ ph \in {"sentFirst", "sentFinal"} ->
            /\ ph' = "sentFinal" /\ sent' = Append(sent, "final") /\ obs' = SaslObserve(o1, Cli("final"))
       [] sym \in {"validFinal", "keyedFinal"} /\ ph = "sentFinal" ->
            /\ ph' = "verified" /\ sent' = Append(sent, "ack") /\ obs' = SaslObserve(o1, Cli("ack"))
       [] sym = "emptyFinal" /\ DEV_EmptyStateFinal /\ ph = "start" ->      \* deviation of the pinned code
            /\ ph' = "verified" /\ sent' = Append(sent, "ack") /\ obs' = SaslObserve(o1, Cli("ack"))
       [] sym = "ok235" /\ (ph = "verified" \/ DEV_Bare235) ->
            /\ ph' = "ok" /\ sent' = sent /\ obs' = SaslObserve(o1, [ev |-> "ret", ok |-> TRUE])
       [] sym = "fail535" ->
            /\ ph' = "failed" /\ sent' = Append(sent, "abort")
            /\ obs' = SaslObserve(SaslObserve(o1, Cli("abort")), [ev |-> "ret", ok |-> FALSE])
       [] OTHER -> Fail(o1, sym)

(* the script is exhausted: the server ends the exchange with 535 *)
Exhausted ==
  /\ ph \notin {"ok", "failed"} /\ k = Len(full)
  /\ ph' = "failed" /\ sent' = Append(sent, "abort") /\ UNCHANGED <<full, k, mech>>
  /\ obs' = SaslObserve(obs, [ev |-> "ret", ok |-> FALSE])

Next == ServerSends \/ Exhausted
Spec == Init /\ [][Next]_vars

NoViolation == obs.viol = {}
SuccessMeansVerified == ph = "ok" => (obs.gotFirst /\ obs.verified)

Scenario == [kind |-> "adv", mech |-> mech, script |-> full, used |-> k, sent |-> sent, ok |-> ph = "ok"]
Emit == ph \in {"ok", "failed"} => PrintT(<<"SCENARIO", ToJson(Scenario)>>)
=============================================================================
