"""Command-line family: C05 (Rfc5321Line.tla / TraceLine.tla, harness family `line`)."""
import json

HARNESS_FAMILY = 'line'
TRACE_SPEC = ('TraceLine.tla', 'TraceLine.cfg')
INVS = ['RoundTrip', 'NoSmuggle', 'Emit']
ALPHA = '{<<97>>, <<46>>, <<32>>, <<60>>, <<62>>, <<64>>, <<44>>, <<59>>, <<58>>, <<92>>, <<34>>, <<195, 169>>, <<37>>, <<43>>, <<194, 160>>}'
HELOS = '{"plain", "sp", "tab", "cr", "lf", "crlf", "nul", "lt", "literal", "trailsp"}'
DSNS = '{"off", "never", "succfail", "all", "hdrs", "neverfirst", "neverlast", "bogus", "plain"}'
STAGES = {
    'C05': {
        'quick': [('local-len2-all-setters', 'Rfc5321Line', dict(ALPHABET=ALPHA, MAXLOCAL='2', FORMS='{"plain", "named"}', HELOS=HELOS, DSNS=DSNS,
                                                                SETTERS='{"From", "EnvelopeFrom", "To", "AddCc", "Bcc", "ToIgnoreInvalid", "ToFromString", "ToThenAddTo"}')),
                  ('local-len3-from-to', 'Rfc5321Line', dict(ALPHABET=ALPHA, MAXLOCAL='3', FORMS='{"plain"}', HELOS='{}', DSNS='{}', SETTERS='{"From", "To"}'))],
        'thorough': [('local-len3-all-setters', 'Rfc5321Line', dict(ALPHABET=ALPHA, MAXLOCAL='3', FORMS='{"plain", "named"}', HELOS=HELOS, DSNS=DSNS,
                                                                   SETTERS='{"From", "EnvelopeFrom", "To", "AddCc", "Bcc", "ToIgnoreInvalid", "ToFromString", "ToThenAddTo"}')),
                     ('local-len4-from-to', 'Rfc5321Line', dict(ALPHABET=ALPHA, MAXLOCAL='4', FORMS='{"plain"}', HELOS='{}', DSNS='{}', SETTERS='{"From", "To"}'))],
    },
}
RULE = ('every local part of 1..MAXLOCAL symbols over the alphabet {a . SP < > @ , ; : \\\\ " e-acute % +} in its reference rendering (dot-atom or quoted-string) '
        'x setter x with/without display name, every HELO name class, every DSN option class is one scenario; non-trivial = local part that '
        'needs quoting, or a non-plain HELO / DSN class; distinct by scenario record')


def _needs_quote(local):
    s = bytes(local)
    atext = set(b"abcdefghijklmnopqrstuvwxyzABCDEFGHIJKLMNOPQRSTUVWXYZ0123456789!#$%&'*+-/=?^_`{|}~.")
    if not all(c in atext or c >= 128 for c in s):
        return True
    return s.startswith(b'.') or s.endswith(b'.') or b'..' in s


def facts(begin):
    sc = begin['sc']
    f = {'kind': sc['kind'], 'setter': sc['setter'], 'form': sc['form'], 'helo': sc['helo'], 'dsn': sc['dsn'],
         'seterr': begin.get('seterr')}
    if sc['kind'] == 'addr':
        f['needs_quoting'] = _needs_quote(sc['local'])
        f['non_ascii_local'] = any(c >= 128 for c in sc['local'])
    return f


def signature(begin):
    sc = begin['sc']
    return {'kind': sc['kind'], 'setter': sc['setter'] if sc['kind'] == 'addr' else '', 'helo': sc['helo'], 'dsn': sc['dsn'],
            'needs_quoting': _needs_quote(sc['local']) if sc['kind'] == 'addr' else False}


def casekey(begin):
    return json.dumps(begin['sc'], sort_keys=True)


def sample(tr):
    return dict(scenario=tr[0][0].get('scn'), sc=tr[0][0]['sc'],
                lines=[bytes(e['b']).decode('latin-1') for e, _ in tr[1:] if e['ev'] == 'rawline'][:12])


def nontrivial(begin):
    sc = begin['sc']
    return (sc['kind'] == 'addr' and _needs_quote(sc['local'])) or sc['helo'] != 'plain' or sc['dsn'] != 'off'


def _find(evs, pred, start=0):
    for i in range(start, len(evs)):
        if pred(evs[i]):
            return i
    return -1


def _is(e, prefix):
    return e['ev'] == 'rawline' and bytes(e['b']).upper().startswith(prefix)


def mut_space(evs):
    i = _find(evs, lambda e: _is(e, b'RCPT TO:<') and 34 not in e['b'])
    if i < 0:
        return None
    evs[i]['b'] = evs[i]['b'][:10] + [32] + evs[i]['b'][10:]
    return evs


def mut_other_box(evs):
    i = _find(evs, lambda e: _is(e, b'RCPT TO:<') and 34 not in e['b'])
    if i < 0:
        return None
    evs[i]['b'] = evs[i]['b'][:9] + [120] + evs[i]['b'][9:]
    return evs


def mut_param(evs):
    i = _find(evs, lambda e: _is(e, b'MAIL FROM:<'))
    sc = evs[0]['sc']
    if i < 0 or (sc['kind'] == 'addr' and _needs_quote(sc['local'])):
        return None
    evs[i]['b'] = evs[i]['b'] + [ord(c) for c in ' RET=FULL']
    return evs


def mut_badparam(evs):
    i = _find(evs, lambda e: _is(e, b'RCPT TO:<') and b'NOTIFY=SUCCESS' in bytes(e['b']))
    if i < 0:
        return None
    evs[i]['b'] = evs[i]['b'] + [ord(c) for c in ',NEVER']
    return evs


def mut_barelf(evs):
    i = _find(evs, lambda e: _is(e, b'EHLO '))
    if i < 0:
        return None
    evs[i]['crlf'] = False
    return evs


SELFTESTS = {
    'C05': [('blank inside a forward-path', mut_space, 'C05_WellFormed'),
            ('different mailbox', mut_other_box, 'C05_MailboxEqual'),
            ('RET parameter without DSN configuration', lambda evs: mut_param(evs) if not evs[0].get('dsn') else None, 'C05_NoExtraParams'),
            ('malformed NOTIFY list', mut_badparam, 'C05_ParamsWellFormed'),
            ('line without CRLF', mut_barelf, 'C05_WellFormed')],
}
VACUITY = {'C05': ['lines', 'mails', 'rcpts', 'quoted', 'refused', 'params']}
LEVEL = {'C05': 'exploration'}
