"""EML parser family: C09 (EmlParse.tla / TraceEml.tla, harness family `eml`)."""
import json

HARNESS_FAMILY = 'eml'
TRACE_SPEC = ('TraceEml.tla', 'TraceEml.cfg')
INVS = ['Total', 'Terminates', 'Variant', 'Emit']
STAGES = {
    'C09': {
        'quick': [('two-mutations-1-part', 'EmlParse', dict(BUDGET='2', MAXPARTS='1', DEV_SliceFilename='FALSE')),
                  ('one-mutation-2-parts', 'EmlParse', dict(BUDGET='1', MAXPARTS='2', DEV_SliceFilename='FALSE'))],
        'thorough': [('two-mutations-2-parts', 'EmlParse', dict(BUDGET='2', MAXPARTS='2', DEV_SliceFilename='FALSE')),
                     ('two-mutations-3-parts', 'EmlParse', dict(BUDGET='2', MAXPARTS='3', DEV_SliceFilename='FALSE'))],
    },
}
def extra_scenarios(tier, seed):
    """hand-written inputs with more deviating fields than the budget of the design model: a part with a disposition AND a Content-ID
    whose data cannot be read to the end (damaged or cut base64, message cut inside the part)"""
    top = dict(ctype='mixed', boundary='ok', cte='absent', date='ok', trunc='none', to='ok')
    top['from'] = 'ok'
    text = dict(ptype='plain', disp='absent', fname='absent', cid=False, cte='absent', sub=0)
    out = []
    for disp in ('attachment', 'inline'):
        for cte in ('b64garbage', 'b64cut1', 'b64cut2', 'b64'):
            for trunc in ('none', 'body', 'noclose'):
                for fname in ('quoted', 'encodedkoi', 'absent'):
                    if cte == 'b64' and trunc == 'none':
                        continue
                    part = dict(ptype='plain', disp=disp, fname=fname, cid=True, cte=cte, sub=0)
                    out.append(dict(input=dict(top=dict(top, trunc=trunc), parts=[text, part]), predict=dict(out='any', parts=0, atts=0, embeds=0)))
    return out


SEED_PASSES = {('C09', 'thorough'): 3}
SENS_INVS = ['Total']
SENSITIVITY = {'C09': [('DEV_SliceFilename', 'EmlParse', dict(BUDGET='2', MAXPARTS='1', DEV_SliceFilename='TRUE'), 'Total')]}
RULE = ('every abstract EML input of EmlParse.tla within the mutation budget (fields deviating from a normal multipart message) is one scenario; '
        'each is parsed as string, through a reader, from a file, through readers failing at characteristic (thorough: all) offsets and with three '
        'seeded byte-noise mutations; non-trivial = at least one deviating field; distinct by abstract input')


def facts(begin):
    i = begin['input']
    f = {'ctype': i['top']['ctype'], 'trunc': i['top']['trunc']}
    for p in i['parts']:
        f['fname:' + p['fname']] = True
        f['disp:' + p['disp']] = True
        f['ptype:' + p['ptype']] = True
    return f


def signature(begin):
    i = begin['input']
    return {'top': {k: v for k, v in i['top'].items() if v not in ('ok', 'none', 'absent')},
            'fnames': sorted({p['fname'] for p in i['parts']}), 'disps': sorted({p['disp'] for p in i['parts']})}


def casekey(begin):
    return json.dumps(begin['input'], sort_keys=True)


def sample(tr):
    return dict(scenario=tr[0][0].get('scn'), input=tr[0][0]['input'], predict=tr[0][0]['predict'],
                parses=[e for e, _ in tr[1:] if e['ev'] == 'parse'][:8])


def nontrivial(begin):
    i = begin['input']
    normal_top = dict(ctype='mixed', boundary='ok', cte='absent', to='ok', date='ok', trunc='none')
    normal_top['from'] = 'ok'
    if any(i['top'][k] != v for k, v in normal_top.items()):
        return True
    return any(p != dict(ptype='plain', disp='absent', fname='absent', cid=False, cte='qp', sub=0) for p in i['parts'])


def drift_detail(tr):
    b = tr[0][0]
    ex = [e for e, _ in tr[1:] if e['ev'] == 'parse' and e['variant'] == 'exact'][:1]
    return ['  drift sample %s: input=%s' % (b.get('scn'), json.dumps(b['input'])),
            '    predicted: %s' % json.dumps(b['predict']), '    recorded : %s' % json.dumps(ex)]


def _find(evs, pred, start=0):
    for i in range(start, len(evs)):
        if pred(evs[i]):
            return i
    return -1


def mut_outcome(evs, what):
    i = _find(evs, lambda e: e['ev'] == 'parse' and e['outcome'] in ('msg', 'err'))
    if i < 0:
        return None
    evs[i]['outcome'] = what
    return evs


SELFTESTS = {
    'C09': [('panic', lambda evs: mut_outcome(evs, 'panic'), 'C09_NoPanic'),
            ('no return', lambda evs: mut_outcome(evs, 'timeout'), 'C09_Terminates'),
            ('neither message nor error', lambda evs: mut_outcome(evs, 'nil'), 'C09_MsgOrError')],
}
VACUITY = {'C09': ['parses', 'msgs', 'errs', 'readerfaults', 'noise']}
LEVEL = {'C09': 'exploration'}
