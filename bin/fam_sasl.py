"""SASL family: C15 (Sasl.tla adversarial SCRAM server) and C14 (SaslHonest.tla); trace specification TraceSasl.tla;
harness family `sasl`."""
import json

HARNESS_FAMILY = 'sasl'
TRACE_SPEC = ('TraceSasl.tla', 'TraceSasl.cfg')
INVS = ['NoViolation', 'SuccessMeansVerified', 'Emit']
ALL = '{"empty", "validFirst", "foreignNonce", "truncNonce", "malFirst", "validFinal", "otherFinal", "emptyFinal", "staleFinal", "keyedFinal", "truncFinal", "zeroKeyFinal", "bareV", "junk", "ok235", "fail535"}'
CORE = '{"empty", "validFirst", "foreignNonce", "validFinal", "staleFinal", "keyedFinal", "zeroKeyFinal", "ok235"}'
NODEV = dict(DEV_Bare235='FALSE', DEV_EmptyStateFinal='FALSE')
STAGES = {
    'C15': {
        'quick': [('adversarial-len3-all-symbols', 'Sasl', dict(MAXSEQ='3', ALPHA=ALL, MECHS='{"SCRAM-SHA-256", "SCRAM-SHA-1-PLUS"}', **NODEV)),
                  ('adversarial-len4-core-symbols', 'Sasl', dict(MAXSEQ='4', ALPHA=CORE, MECHS='{"SCRAM-SHA-1", "SCRAM-SHA-256-PLUS"}', **NODEV))],
        'thorough': [('adversarial-len4-all-symbols', 'Sasl', dict(MAXSEQ='4', ALPHA=ALL, MECHS='{"SCRAM-SHA-256", "SCRAM-SHA-1", "SCRAM-SHA-256-PLUS", "SCRAM-SHA-1-PLUS"}', **NODEV)),
                     ('adversarial-len5-core-symbols', 'Sasl', dict(MAXSEQ='5', ALPHA=CORE, MECHS='{"SCRAM-SHA-256", "SCRAM-SHA-1-PLUS"}', **NODEV))],
    },
}
ALLMECH = '{"PLAIN", "LOGIN", "CRAM-MD5", "XOAUTH2", "SCRAM-SHA-1", "SCRAM-SHA-256", "SCRAM-SHA-1-PLUS", "SCRAM-SHA-256-PLUS"}'
STAGES['C14'] = {
    'quick': [('honest-all-mechanisms', 'SaslHonest', dict(MECHS=ALLMECH, UCLASSES='{"ascii", "unicode", "comma", "eq", "both", "empty", "ctl", "fullwidth"}',
                                                          PCLASSES='{"ascii", "unicode", "comma", "empty", "ctl", "space", "huge"}', WRONGS='{"", "pass", "user"}',
                                                          TLSVERS='{"1.2", "1.3"}', RETRY='{FALSE}', ITERS='<<1, 2, 4096, 600>>',
                                                          SALTS='<<"sixteen", "one", "long", "zeros">>', SUFFIXES='<<"plain", "printable", "b64", "long">>', VIAS='{"smtp"}', ABORTS='{""}')),
              ('retry-same-auth-object', 'SaslHonest', dict(MECHS=ALLMECH, UCLASSES='{"ascii", "comma"}', PCLASSES='{"ascii"}', WRONGS='{"", "pass"}',
                                                           TLSVERS='{"1.2", "1.3"}', RETRY='{TRUE}', ITERS='<<4096, 1>>', SALTS='<<"sixteen">>',
                                                           SUFFIXES='<<"plain", "printable">>', VIAS='{"smtp", "client", "custom"}', ABORTS='{"", "t4", "drop"}')),
              ('through-mail-client', 'SaslHonest', dict(MECHS=ALLMECH, UCLASSES='{"ascii", "unicode", "comma", "eq"}', PCLASSES='{"ascii", "unicode", "space"}', WRONGS='{"", "pass", "user"}',
                                                        TLSVERS='{"1.2", "1.3"}', RETRY='{FALSE}', ITERS='<<4096, 600>>', SALTS='<<"sixteen", "long">>',
                                                        SUFFIXES='<<"plain", "b64">>', VIAS='{"client", "custom"}', ABORTS='{""}'))],
    'thorough': [('honest-all-mechanisms', 'SaslHonest', dict(MECHS=ALLMECH, UCLASSES='{"ascii", "unicode", "comma", "eq", "both", "empty", "ctl", "space", "long", "fullwidth"}',
                                                             PCLASSES='{"ascii", "unicode", "comma", "eq", "both", "empty", "ctl", "space", "long"}', WRONGS='{"", "pass", "user"}',
                                                             TLSVERS='{"1.2", "1.3"}', RETRY='BOOLEAN', ITERS='<<1, 2, 4096, 20000, 600>>',
                                                             SALTS='<<"sixteen", "one", "long", "zeros">>', SUFFIXES='<<"plain", "printable", "b64", "long">>',
                                                             VIAS='{"smtp", "client", "custom"}', ABORTS='{"", "t4", "drop"}'))],
}
def extra_scenarios(tier, seed):
    """C15: the adversary meets a mail.Client (built-in SCRAM type) that has completed a valid exchange on an earlier connection;
    it may replay what it signed there. Every script below must fail: none presents a signature valid for the running exchange."""
    out = []
    scripts = [['staleFinal', 'ok235'], ['staleFinal'], ['empty', 'staleFinal', 'ok235'], ['empty', 'validFirst', 'staleFinal', 'ok235'], ['emptyFinal', 'ok235'],
               ['staleFinal', 'empty', 'validFirst', 'staleFinal', 'ok235'], ['empty', 'validFirst', 'validFinal', 'ok235']]
    for mech in ('SCRAM-SHA-256', 'SCRAM-SHA-1'):
        for s in scripts:
            out.append(dict(kind='adv', mech=mech, script=s, prior='client', sent=[], ok=(s == scripts[-1])))
        # the caller's Auth object was used before in an exchange that failed at the server signature
        for s in scripts:
            out.append(dict(kind='adv', mech=mech, script=s, prior='authobj', sent=[], ok=(s == scripts[-1])))
        # ... or in an exchange that was complete and successful: the adversary of the next connection knows a genuine server signature
        for s in scripts + [['staleFinal', 'staleFinal', 'ok235'], ['keyedFinal', 'ok235'], ['zeroKeyFinal', 'ok235']]:
            out.append(dict(kind='adv', mech=mech, script=s, prior='authobjok', sent=[], ok=(s == scripts[-1])))
        # two exchanges of the same account in one process, interleaved: the server of the first presents the genuine signature of the second
        out.append(dict(kind='adv', mech=mech, script=['empty', 'validFirst', 'peerFinal', 'ok235'], prior='peer', sent=[], ok=False))
        # hand-written scripts with symbols outside the alphabet of the design model (prior = "hand": no prediction to compare with)
        for s in (['empty', 'zeroIterFirst', 'zeroKeyFinal', 'ok235'], ['empty', 'negIterFirst', 'zeroKeyFinal', 'ok235'], ['empty', 'zeroIterFirst', 'emptyFinal', 'ok235'],
                  ['empty', 'validFirst', 'srvError', 'ok235'], ['empty', 'srvError', 'ok235'], ['srvError', 'ok235'],
                  ['empty', 'validFirst', 'empty', 'staleFinal', 'ok235'], ['empty', 'validFirst', 'srvError', 'validFinal', 'ok235']):
            out.append(dict(kind='adv', mech=mech, script=s, prior='hand', sent=[], ok=False))
    return out


SEED_PASSES = {('C14', 'thorough'): 8, ('C15', 'thorough'): 3}
INVS_BY_BASE = {'SaslHonest': ['AcceptedIffRight', 'Emit']}
SENS_INVS = ['NoViolation', 'SuccessMeansVerified']
SENSITIVITY = {
    'C15': [('DEV_Bare235', 'Sasl', dict(MAXSEQ='2', ALPHA=ALL, MECHS='{"SCRAM-SHA-256"}', DEV_Bare235='TRUE', DEV_EmptyStateFinal='FALSE'), 'NoViolation'),
            ('DEV_EmptyStateFinal', 'Sasl', dict(MAXSEQ='2', ALPHA=ALL, MECHS='{"SCRAM-SHA-256"}', DEV_Bare235='FALSE', DEV_EmptyStateFinal='TRUE'), 'NoViolation')],
}
RULE = ('every sequence of server messages up to the length bound over the 11-symbol alphabet of Sasl.tla, cut where the modelled client '
        'ends the exchange, per mechanism; non-trivial = at least two server messages; distinct by (mechanism, script)')


def facts(begin):
    sc = begin['sc']
    f = {'kind': sc['kind'], 'mech': sc['mech'], 'user': sc.get('user'), 'pass': sc.get('pass'), 'wrong': sc.get('wrong'),
         'tlsver': sc.get('tlsver'), 'retry': sc.get('retry')}
    sc_script = sc.get('script') or []
    if sc_script:
        f['first_sym'] = sc_script[0]
        f['last_sym'] = sc_script[-1]
        f['has_validFinal'] = 'validFinal' in sc_script
        f['bare235'] = 'ok235' in sc_script and 'validFinal' not in sc_script
        f['emptyFinal_first'] = sc_script[0] == 'emptyFinal'
    return f


def trace_facts(tr):
    """facts read from the recorded events: did the server ever present a signature that is valid for the running exchange?"""
    evs = [e for e, _ in tr]
    valid_final = any(e['ev'] == 'srv' and e.get('finalValid') for e in evs)
    ok = any(e['ev'] == 'ret' and e.get('ok') for e in evs)
    return {'success_without_valid_server_final': ok and not valid_final,
            # (acknowledged within the RUNNING exchange: an "empty" challenge restarts the exchange and the client state)
            'client_acked': any(e['ev'] == 'cli' and e.get('kind') == 'ack' for e in evs[max([0] + [i for i, e in enumerate(evs) if e['ev'] == 'cli' and e.get('kind') == 'first']):]),
            'ended_by_235': any(e['ev'] == 'srv' and e.get('sym') == 'ok235' for e in evs)}


def signature(begin):
    sc = begin['sc']
    scr = sc.get('script') or []
    if sc['kind'] == 'honest':
        return {'kind': 'honest', 'mech': sc['mech'], 'user': sc.get('user'), 'pass': sc.get('pass'), 'wrong': sc.get('wrong'), 'tlsver': sc.get('tlsver')}
    return {'kind': sc['kind'], 'first': scr[:1], 'has_235': 'ok235' in scr, 'plus': sc['mech'].endswith('PLUS')}


def casekey(begin):
    return json.dumps(begin['sc'], sort_keys=True)


def sample(tr):
    return dict(scenario=tr[0][0].get('scn'), sc=tr[0][0]['sc'], events=[e for e, _ in tr[1:]][:14])


def drift_detail(tr):
    b = tr[0][0]
    return ['  drift sample %s: script=%s' % (b.get('scn'), b['sc'].get('script')),
            '    predicted: sent=%s ok=%s' % (b['sc'].get('sent'), b['sc'].get('ok')),
            '    recorded : %s' % [(e.get('sym') or e.get('kind') or e.get('ok')) for e, _ in tr[1:] if e['ev'] in ('srv', 'cli', 'ret')]]


def nontrivial(begin):
    sc = begin['sc']
    return len(sc.get('script') or []) >= 2 or sc['kind'] == 'honest'


def _find(evs, pred, start=0):
    for i in range(start, len(evs)):
        if pred(evs[i]):
            return i
    return -1


def mut_success(evs):
    if evs[0]['kind'] != 'adv' or 'validFinal' in (evs[0]['sc'].get('script') or []):
        return None
    i = _find(evs, lambda e: e['ev'] == 'ret' and not e['ok'])
    if i < 0:
        return None
    evs[i]['ok'] = True
    return evs


def mut_ack(evs):
    if evs[0]['kind'] != 'adv':
        return None
    i = _find(evs, lambda e: e['ev'] == 'srv' and e['sym'] in ('otherFinal', 'junk', 'foreignNonce', 'empty'))
    if i < 0:
        return None
    return evs[:i + 1] + [{'ev': 'cli', 'kind': 'ack'}] + evs[i + 1:]


def mut_attempt(evs, **kv):
    i = _find(evs, lambda e: e['ev'] == 'attempt' and e['judged'])
    if i < 0:
        return None
    evs[i].update(kv(evs[i]) if callable(kv) else kv)
    return evs


def mut_accept_wrong(evs):
    i = _find(evs, lambda e: e['ev'] == 'attempt' and e['judged'] and not e['right'] and not e['accepted'])
    if i < 0:
        return None
    evs[i]['accepted'] = True
    return evs


def mut_reject_right(evs):
    i = _find(evs, lambda e: e['ev'] == 'attempt' and e['judged'] and e['right'] and e['accepted'])
    if i < 0:
        return None
    evs[i]['accepted'] = False
    return evs


def mut_same_nonce(evs):
    idx = [i for i, e in enumerate(evs) if e['ev'] == 'attempt' and e['nonce']]
    if len(idx) < 2:
        return None
    evs[idx[1]]['nonce'] = evs[idx[0]]['nonce']
    return evs


SELFTESTS = {
    'C14': [('wrong credentials accepted', mut_accept_wrong, 'C14_AcceptedIffCredentialsRight'),
            ('right credentials rejected', mut_reject_right, 'C14_AcceptedIffCredentialsRight'),
            ('nonce reused on retry', mut_same_nonce, 'C14_FreshNonce')],
    'C15': [('success without a verified server-final', mut_success, 'C15_SuccessOnlyAfterVerifiedFinal'),
            ('acknowledgement of a forged server-final', mut_ack, 'C15_AckOnlyValidFinal')],
}
VACUITY = {'C15': ['srv', 'acks', 'successes', 'validfinals'], 'C14': ['accepted', 'rejected', 'retries']}
LEVEL = {'C15': 'model_checking', 'C14': 'exploration'}
