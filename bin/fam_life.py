"""Client life cycle (beyond the listed properties): ClientLife.tla / TraceLife.tla, harness family `life`.
Registered under the pseudo property id X01: histories of Dial / Send / Reset / Close / DialAndSend on one Client."""
import json

HARNESS_FAMILY = 'life'
TRACE_SPEC = ('TraceLife.tla', 'TraceLife.cfg')
INVS = ['DeliveredNeedsConnection', 'ErrorMeansNotDelivered', 'CloseIsFinal', 'TypeOK', 'Emit']
ALL = '{"Dial", "Send", "Reset", "Close", "DialAndSend"}'
OWN = '{"Dial", "Send", "Close", "DialAndSendCtx", "QuickSend", "LegacySendMail"}'
STAGES = {
    'X01': {
        'quick': [('all-ops-len3', 'ClientLife', dict(MAXOPS='3', OPNAMES=ALL, DEV_SendOnClosed='FALSE')),
                  ('helpers-with-own-connection-len3', 'ClientLife', dict(MAXOPS='3', OPNAMES=OWN, DEV_SendOnClosed='FALSE')),
                  ('dial-send-close-len4', 'ClientLife', dict(MAXOPS='4', OPNAMES='{"Dial", "Send", "Close"}', DEV_SendOnClosed='FALSE'))],
        'thorough': [('all-ops-len4', 'ClientLife', dict(MAXOPS='4', OPNAMES=ALL, DEV_SendOnClosed='FALSE')),
                     ('helpers-with-own-connection-len4', 'ClientLife', dict(MAXOPS='4', OPNAMES=OWN, DEV_SendOnClosed='FALSE')),
                     ('dial-send-reset-close-len5', 'ClientLife', dict(MAXOPS='5', OPNAMES='{"Dial", "Send", "Reset", "Close"}', DEV_SendOnClosed='FALSE'))],
    },
}
SENS_INVS = ['DeliveredNeedsConnection']
SENSITIVITY = {'X01': [('DEV_SendOnClosed', 'ClientLife', dict(MAXOPS='3', OPNAMES='{"Dial", "Send", "Close"}', DEV_SendOnClosed='TRUE'),
                        'DeliveredNeedsConnection')]}
RULE = ('every history of calls up to the bound over the operation set, with every applicable environment choice per call '
        '(server gone before the call, dial refused, message rejected); distinct by history')


def facts(begin):
    return {'ops': [o['op'] for o in begin['ops']], 'faults': [o['f'] for o in begin['ops']]}


def signature(begin):
    return {'ops': [o['op'] + ':' + o['f'] for o in begin['ops']]}


def casekey(begin):
    return json.dumps(begin['ops'])


def sample(tr):
    return dict(scenario=tr[0][0].get('scn'), ops=tr[0][0]['ops'], events=[e for e, _ in tr[1:]][:40])


def nontrivial(begin):
    return len(begin['ops']) > 0


def _find(evs, pred, start=0):
    for i in range(start, len(evs)):
        if pred(evs[i]):
            return i
    return -1


def mut_ret(evs, pred, **kv):
    i = _find(evs, lambda e: e['ev'] == 'ret' and pred(e))
    if i < 0:
        return None
    evs[i].update(kv)
    return evs


def mut_drop_close(evs):
    # remove the close of the shared connection from a Close call
    j = _find(evs, lambda e: e['ev'] == 'call' and e['op'] == 'Close')
    while j >= 0:
        k = _find(evs, lambda e: e['ev'] == 'ret', j)
        for i in range(j, k):
            if evs[i]['ev'] == 'cclose':
                return evs[:i] + evs[i + 1:]
        j = _find(evs, lambda e: e['ev'] == 'call' and e['op'] == 'Close', k)
    return None


def mut_helper_leak(evs):
    # QuickSend / smtp.SendMail / DialAndSend: the transport the call opened is not closed when it returns
    j = _find(evs, lambda e: e['ev'] == 'call' and e['op'] in ('QuickSend', 'LegacySendMail', 'DialAndSendCtx', 'DialAndSend') and e['f'] != 'refused')
    if j < 0:
        return None
    k = _find(evs, lambda e: e['ev'] == 'ret', j)
    for i in range(j, k):
        if evs[i]['ev'] == 'cclose':
            return evs[:i] + evs[i + 1:]
    return None


def mut_cmd_without_conn(evs):
    # a command read by the server during a Send that has no connection
    if evs[0]['ops'][0]['op'] != 'Send':     # the first call of the history: no connection can exist
        return None
    for j, e in enumerate(evs):
        if e['ev'] == 'ret' and e['k'] == 1 and e.get('noconn') and evs[j - 1]['ev'] == 'call':
            extra = {'ev': 'cmd', 'verb': 'NOOP', 'm': 0, 'r': 0, 'params': [], 'enc': False, 'cred': False, 'mech': '', 'wf': True,
                     'line': 'NOOP', 'conn': 1}
            return evs[:j] + [extra] + evs[j:]
    return None


SELFTESTS = {'X01': [
    ('error swallowed', lambda evs: mut_ret(evs, lambda e: e['err'], err=False), 'X01_ErrorAsSpecified'),
    ('delivered without acknowledgement', lambda evs: mut_ret(evs, lambda e: not e['delivered'] and e['op'] == 'Send', delivered=True), 'X01_DeliveredIffAcked'),
    ('Close leaves the connection open', mut_drop_close, 'X01_CloseClosesShared'),
    ('command without a connection', mut_cmd_without_conn, 'X01_NothingSentWithoutConnection'),
    ('helper leaves its connection open', mut_helper_leak, 'X01_OwnConnectionClosed'),
]}
VACUITY = {'X01': ['calls', 'delivered', 'errors', 'noconn', 'gone']}
LEVEL = {'X01': 'model_checking'}
