"""Concurrency family: C13 (SendLock.tla / TraceConc.tla, harness family `conc`, race detector)."""
import json, random

HARNESS_FAMILY = 'conc'
RACE = True
TRACE_SPEC = ('TraceConc.tla', 'TraceConc.cfg')
INVS = ['Contiguous', 'ExactlyOnce', 'Emit']
GEN = ['Emit']          # schedule generation from the lock-free variant: the invariants are violated on purpose


def c(**kw):
    d = dict(N='2', R='1', MODES='{"send"}', UseSendLock='TRUE', MAXPRE='2')
    d.update(kw)
    return d


STAGES = {
    'C13': {
        'quick': [('locked-2-shared', 'SendLock', c()),
                  ('locked-3-mixed', 'SendLock', c(N='3', MODES='{"send", "das"}', MAXPRE='1')),
                  ('schedules-2-shared-pre2', 'SendLock', c(UseSendLock='FALSE'), GEN),
                  ('schedules-2-mixed-pre1', 'SendLock', c(UseSendLock='FALSE', MODES='{"send", "das"}', MAXPRE='1', R='2'), GEN)],
        'thorough': [('locked-3-shared', 'SendLock', c(N='3', R='2', MAXPRE='3')),
                     ('locked-3-mixed', 'SendLock', c(N='3', MODES='{"send", "das"}', MAXPRE='2')),
                     ('schedules-2-shared-pre3', 'SendLock', c(UseSendLock='FALSE', MAXPRE='3', R='2'), GEN),
                     ('schedules-3-shared-pre2', 'SendLock', c(N='3', UseSendLock='FALSE', MAXPRE='2'), GEN),
                     ('schedules-3-mixed-pre2', 'SendLock', c(N='3', UseSendLock='FALSE', MODES='{"send", "das"}', MAXPRE='2'), GEN)],
    },
}
SENS_INVS = ['Contiguous', 'ExactlyOnce']
SENSITIVITY = {'C13': [('UseSendLock=FALSE', 'SendLock', c(UseSendLock='FALSE'), 'Contiguous')]}
RULE = ('schedules = every interleaving of the lock-free variant of SendLock.tla within the preemption bound (imposed through the gate hooks), '
        'plus free-running runs of 2..64 goroutines with seeded server latency jitter under the race detector; non-trivial = at least one '
        'context switch in the schedule or a free-running run; distinct by scenario record')


def extra_scenarios(tier, seed):
    """free-running runs: not from TLC"""
    rng = random.Random(seed)
    out = []
    sizes = [2, 3, 4, 8, 16, 32, 64] if tier == 'quick' else [2, 3, 4, 6, 8, 12, 16, 24, 32, 48, 64] * 3
    for n in sizes:
        for modes in ('send', 'das', 'mixed'):
            mode = [('send' if modes == 'send' else 'das' if modes == 'das' else rng.choice(['send', 'das'])) for _ in range(n)]
            out.append(dict(n=n, r=rng.choice([1, 2, 3]), mode=mode, schedule=[], jitter=True,
                            auth=rng.choice(['', '', 'LOGIN-NOENC', 'CRAM-MD5', 'SCRAM-SHA-256']),
                            reject=rng.choice([0, 0, rng.randint(1, n)])))
    # a DialAndSend that fails (rejected recipients) next to goroutines that use the shared connection
    for n in ([3, 4, 8] if tier == 'quick' else [3, 4, 6, 8, 16, 32]):
        for k in (1, 2):
            mode = ['das' if p % 2 == 0 else 'send' for p in range(1, n + 1)]
            out.append(dict(n=n, r=k, mode=mode, schedule=[], jitter=True, auth='', reject=2))
            out.append(dict(n=n, r=k, mode=mode, schedule=[], jitter=True, auth='LOGIN-NOENC', reject=n if n % 2 == 0 else n - 1))
    # the primary port is unreachable and every dial falls back to the second port, from many goroutines at once
    for n in ([8, 32] if tier == 'quick' else [4, 8, 16, 32, 64]):
        out.append(dict(n=n, r=1, mode=['das'] * n, schedule=[], jitter=True, auth='', reject=0, fallback=True))
        out.append(dict(n=n, r=2, mode=['das' if p % 3 else 'send' for p in range(1, n + 1)], schedule=[], jitter=True, auth='', reject=0, fallback=True))
    # debug logging with the library's own default logger, first burst of dials
    for n in ([8, 16] if tier == 'quick' else [2, 4, 8, 16, 32]):
        out.append(dict(n=n, r=1, mode=['das'] * n, schedule=[], jitter=True, auth='', reject=0, fallback=True, debug=True))
        out.append(dict(n=n, r=1, mode=['das' if p % 2 else 'send' for p in range(1, n + 1)], schedule=[], jitter=True, auth='LOGIN-NOENC', reject=0, debug=True))
    # a server that takes one connection per client: the shared connection lives, every dial of a DialAndSend is refused
    for n in ([6, 12] if tier == 'quick' else [4, 6, 12, 24]):
        for k in (1, 2):
            out.append(dict(n=n, r=k, mode=['das' if p % 2 == 0 else 'send' for p in range(1, n + 1)], schedule=[], jitter=True, auth='', reject=0, dasrefused=True))
    # debug logging into a standard logger of the caller: one logger object serves every connection of the Client
    for n in ([8, 16] if tier == 'quick' else [4, 8, 16, 32]):
        out.append(dict(n=n, r=1, mode=['das' if p % 4 else 'send' for p in range(1, n + 1)], schedule=[], jitter=True, auth='', reject=0, debug=True, logger=True))
    # a message without any recipient among the concurrent sends (nothing of it may reach the wire, the others are unaffected)
    for n in ([3, 8] if tier == 'quick' else [3, 4, 8, 16, 32]):
        for k in (1, 2):
            out.append(dict(n=n, r=k, mode=['send'] * n, schedule=[], jitter=True, auth='', reject=1 + (n // 2), norcpt=True))
            out.append(dict(n=n, r=k, mode=['das' if p % 2 == 0 else 'send' for p in range(1, n + 1)], schedule=[], jitter=True, auth='', reject=1, norcpt=True))
    # the first dials of a Client, all at once, with STARTTLS and a tls.Config of the caller that names no server
    for n in ([8, 16] if tier == 'quick' else [2, 4, 8, 16, 32]):
        out.append(dict(n=n, r=1, mode=['das'] * n, schedule=[], jitter=True, auth='', reject=0, starttls=True))
    return out


def facts(begin):
    sc = begin['sc']
    return {'n': sc['n'], 'imposed': bool(sc['schedule']), 'modes': ''.join(sorted(set(sc['mode'])))}


def signature(begin):
    sc = begin['sc']
    return {'n': sc['n'], 'imposed': bool(sc['schedule']), 'modes': sorted(set(sc['mode']))}


def casekey(begin):
    return json.dumps(begin['sc'], sort_keys=True)


def sample(tr):
    return dict(scenario=tr[0][0].get('scn'), sc=tr[0][0]['sc'],
                stream=[(e['conn'], e.get('verb') or 'EOD', e['m']) for e, _ in tr[1:] if e['ev'] in ('cmd', 'eod')][:40])


def nontrivial(begin):
    s = begin['sc']['schedule']
    return (not s) or any(s[i] != s[i + 1] for i in range(len(s) - 1))


def _find(evs, pred, start=0):
    for i in range(start, len(evs)):
        if pred(evs[i]):
            return i
    return -1


def mut_interleave(evs):
    i = _find(evs, lambda e: e['ev'] == 'cmd' and e['verb'] == 'RCPT')
    j = _find(evs, lambda e: e['ev'] == 'cmd' and e['verb'] == 'MAIL' and e['conn'] == evs[i]['conn'] and e['m'] != evs[i]['m']) if i >= 0 else -1
    if i < 0 or j < 0:
        return None
    x = dict(evs[j])
    return evs[:i] + [x] + evs[i:]


def mut_dup_commit(evs):
    i = _find(evs, lambda e: e['ev'] == 'eod')
    if i < 0:
        return None
    return evs[:i + 2] + [dict(evs[i]), dict(evs[i + 1])] + evs[i + 2:]


def mut_prefix(evs):
    i = _find(evs, lambda e: e['ev'] == 'eod' and e['content'] == 'complete')
    if i < 0:
        return None
    evs[i]['content'] = 'prefix'
    return evs


def mut_undelivered(evs):
    i = _find(evs, lambda e: e['ev'] == 'ret')
    if i < 0 or evs[0].get('reject') == 1:
        return None
    evs[i]['res'][0]['delivered'] = False
    return evs


SELFTESTS = {
    'C13': [('MAIL of another message inside a transaction', mut_interleave, 'C13_TransactionsContiguous'),
            ('message committed twice', mut_dup_commit, 'C13_ExactlyOnce'),
            ('fragment committed', mut_prefix, 'C13_OwnEnvelope'),
            ('not reported delivered', mut_undelivered, 'C13_Delivered')],
}
VACUITY = {'C13': ['cmds', 'commits', 'imposed', 'conns']}
LEVEL = {'C13': 'model_checking'}
