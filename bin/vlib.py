"""Shared plumbing of the check driver: scratch directories, TLC runs, harness build,
trace chunking, known findings, evidence.  Exit codes: 0 property held, 1 violation,
2 infrastructure failure (never a verdict)."""
import atexit, json, os, re, shutil, subprocess, sys, tempfile, time, collections

VERIF = os.path.dirname(os.path.dirname(os.path.abspath(__file__)))
SPEC = os.path.join(VERIF, 'spec')
HARNESS = os.environ.get('VERIF_HARNESS') or os.path.join(VERIF, 'harness')   # (a copy bound to a copy of /repo: bin/seedtest --copy)
BUILD = os.path.join(VERIF, '.build')
REPO = os.environ.get('VERIF_REPO', '/repo')
NCPU = os.cpu_count() or 4

GOENV = dict(os.environ, GOFLAGS='-mod=mod', GOPROXY='off', GOSUMDB='off', GOTOOLCHAIN='local')


def _die_with_parent():
    """Child processes (TLC JVMs, the harness) are killed when the driver dies, however it dies."""
    try:
        import ctypes, signal
        ctypes.CDLL('libc.so.6').prctl(1, signal.SIGKILL)   # PR_SET_PDEATHSIG
    except Exception:
        pass


class Infra(Exception):
    """The machinery failed: exit 2, never a verdict."""


def log(*a):
    print(*a, flush=True)


def scratch():
    base = os.environ.get('VERIF_SCRATCH') or tempfile.gettempdir()
    d = tempfile.mkdtemp(prefix='verif-', dir=base)
    return d


def build_harness(race=False):
    """Rebuild the replay harness against /repo's current working tree (build tag verif)."""
    os.makedirs(BUILD, exist_ok=True)
    shutil.copyfile(os.path.join(REPO, 'go.sum'), os.path.join(HARNESS, 'go.sum'))
    # one binary per check process: concurrent checks must not overwrite each other's running harness
    out = os.path.join(BUILD, ('vh-race' if race else 'vh') + '-%d' % os.getpid())
    atexit.register(lambda: os.path.exists(out) and os.remove(out))
    cover = ['-cover', '-coverpkg=verif/harness/...,github.com/wneessen/go-mail/...'] if os.environ.get('VERIF_COVER') else []   # (development: which library code do the scenarios reach)
    cmd = ['go', 'build', '-tags', 'verif'] + (['-race'] if race else []) + cover + ['-o', out, './cmd/vh']
    p = subprocess.run(cmd, cwd=HARNESS, env=GOENV, capture_output=True, text=True)
    if p.returncode != 0:
        raise Infra('harness build failed:\n' + p.stdout + p.stderr)
    return out


def tlc(workdir, module, cfg, workers=None, timeout=1800, env=None, extra=()):
    """Run TLC; returns (returncode, stdout)."""
    meta = tempfile.mkdtemp(prefix='meta-', dir=workdir)
    cmd = ['timeout', str(timeout), 'tlc', '-workers', str(workers or min(NCPU, 8)), '-metadir', meta,
           '-config', cfg] + list(extra) + [module]
    e = dict(os.environ)
    if env:
        e.update(env)
    # (the JVM of TLC leaves an empty tlc-<n> directory in its temporary directory: keep it inside the scratch directory of the run)
    e['JAVA_TOOL_OPTIONS'] = (e.get('JAVA_TOOL_OPTIONS', '') + ' -Djava.io.tmpdir=' + workdir).strip()
    p = subprocess.run(cmd, cwd=workdir, env=e, capture_output=True, text=True, preexec_fn=_die_with_parent)
    shutil.rmtree(meta, ignore_errors=True)
    if p.returncode == 124:
        raise Infra('TLC timed out: ' + ' '.join(cmd))
    return p.returncode, p.stdout + p.stderr


def copy_specs(workdir):
    for f in os.listdir(SPEC):
        if f.endswith('.tla') or f.endswith('.cfg'):
            shutil.copyfile(os.path.join(SPEC, f), os.path.join(workdir, f))


def write_mc(workdir, name, base, consts, invariants, props=(), spec='Spec', constraint=None, view=None):
    """Generate an MC module + cfg instantiating the constants of `base`."""
    defs, lines = [], []
    for k, v in consts.items():
        defs.append('mc_%s == %s' % (k, v))
        lines.append('  %s <- mc_%s' % (k, k))
    with open(os.path.join(workdir, name + '.tla'), 'w') as f:
        f.write('---- MODULE %s ----\nEXTENDS %s\n%s\n====\n' % (name, base, '\n'.join(defs)))
    with open(os.path.join(workdir, name + '.cfg'), 'w') as f:
        f.write('SPECIFICATION %s\nCONSTANTS\n%s\n' % (spec, '\n'.join(lines)))
        if invariants:
            f.write('INVARIANTS ' + ' '.join(invariants) + '\n')
        if props:
            f.write('PROPERTIES ' + ' '.join(props) + '\n')
        if constraint:
            f.write('CONSTRAINT ' + constraint + '\n')
        if view:
            f.write('VIEW ' + view + '\n')
        f.write('CHECK_DEADLOCK FALSE\n')
    return name + '.tla', name + '.cfg'


STATES_RE = re.compile(r'(\d[\d,]*) states generated, (\d[\d,]*) distinct states found')


def design_and_scenarios(workdir, module, cfg, scen_path, workers=None, timeout=1800):
    """Model-check the design model (invariants = the property predicates over the model's own
    events) and collect the scenarios it emits.  A violation here is a defect of the
    specification, not of go-mail: Infra."""
    rc, out = tlc(workdir, module, cfg, workers=workers, timeout=timeout)
    n = 0
    rest = []
    with open(scen_path, 'a') as f:
        for l in out.split('\n'):
            if l.startswith('<<"SCENARIO"'):
                f.write(json.loads(l.strip()[len('<<"SCENARIO", '):-2]) + '\n')
                n += 1
            else:
                rest.append(l)
    rest = '\n'.join(rest)
    m = STATES_RE.search(rest)
    if rc != 0 or 'Model checking completed. No error has been found.' not in rest or not m:
        raise Infra('design model check failed (%s %s):\n%s' % (module, cfg, rest[-4000:]))
    gen, dist = int(m.group(1).replace(',', '')), int(m.group(2).replace(',', ''))
    return dict(states=dist, transitions=gen, scenarios=n)


def replay(vh, family, scen_path, trace_path, seed, workers=None, extra=(), env=None):
    cmd = [vh, 'replay', '--family', family, '--scenarios', scen_path, '--out', trace_path,
           '--seed', str(seed), '--workers', str(workers or NCPU)] + list(extra)
    e = dict(GOENV)
    if env:
        e.update(env)
    p = subprocess.run(cmd, capture_output=True, text=True, env=e, preexec_fn=_die_with_parent)
    if p.returncode != 0:
        raise Infra('replay failed:\n' + p.stdout[-2000:] + p.stderr[-4000:])
    return p.stdout


def split_traces(trace_path):
    """Split a concatenated ndjson file into traces (lists of raw lines), begin..end."""
    traces, cur = [], []
    with open(trace_path) as f:
        for l in f:
            l = l.rstrip('\n')
            if not l:
                continue
            e = json.loads(l)
            if e['ev'] == 'eof':
                continue
            if e['ev'] == 'begin':
                cur = []
            cur.append((e, l))
            if e['ev'] == 'end':
                traces.append(cur)
                cur = []
    return traces


def validate(workdir, tspec, tcfg, traces, jobs=None, timeout=1800):
    """Feed traces (lists of (event, line)) to the trace specification in `jobs` parallel TLC
    processes.  Returns (violations, drift, stats) with violations = [(t, pred)]."""
    jobs = max(1, min(jobs or 8, len(traces)))
    procs = []
    for k in range(jobs):
        part = traces[k::jobs]
        tf = os.path.join(workdir, 'chunk%d.ndjson' % k)
        with open(tf, 'w') as f:
            for tr in part:
                for _, l in tr:
                    f.write(l + '\n')
            f.write('{"ev":"eof"}\n')
        of = os.path.join(workdir, 'out%d.json' % k)
        if os.path.exists(of):
            os.remove(of)
        meta = tempfile.mkdtemp(prefix='meta-', dir=workdir)
        # the trace monitors hold one chunk of traces in memory: a few GB of heap are plenty, and eight JVMs
        # with the default (a quarter of the RAM each) have exhausted the machine before
        env = dict(os.environ, TRACE_FILE=tf, OUT_FILE=of, JAVA_TOOL_OPTIONS=(os.environ.get('JAVA_TOOL_OPTIONS', '') + ' -Xmx4g -Xss512m -Djava.io.tmpdir=' + workdir).strip())
        lf = open(os.path.join(workdir, 'tlc-trace%d.log' % k), 'w')
        p = subprocess.Popen(['timeout', str(timeout), 'tlc', '-workers', '1', '-metadir', meta, '-config', tcfg, tspec],
                             cwd=workdir, env=env, stdout=lf, stderr=subprocess.STDOUT, preexec_fn=_die_with_parent)
        procs.append((p, of, lf, meta, k))
    viol, drift, stats = [], [], collections.Counter()
    for p, of, lf, meta, k in procs:
        p.wait()
        lf.close()
        shutil.rmtree(meta, ignore_errors=True)
        logtxt = open(os.path.join(workdir, 'tlc-trace%d.log' % k)).read()
        if p.returncode != 0 or not os.path.exists(of) or 'No error has been found' not in logtxt:
            raise Infra('trace validation run failed (chunk %d):\n%s' % (k, logtxt[-3000:]))
        o = json.load(open(of))
        for x in o['violations']:
            if x['p'].startswith('INFRA_') and x['t'] < 9000000:
                # the monitor found the machinery inconsistent with itself (e.g. two independent verifiers disagree)
                raise Infra('monitor reports a machinery inconsistency: %s in trace %s' % (x['p'], x['t']))
            if x['p'].startswith('DRIFT_'):
                drift.append((x['t'], x['p']))
            elif not x['p'].startswith('INFRA_'):
                viol.append((x['t'], x['p']))
        drift += [(x['t'], x['k']) for x in o['drift']]
        for a, b in o['stats'].items():
            stats[a] += b
    return viol, drift, dict(stats)


def load_known():
    p = os.path.join(VERIF, 'known_findings.json')
    if not os.path.exists(p):
        return []
    return json.load(open(p)).get('findings', [])


def match_known(known, prop, pred, facts):
    for k in known:
        if k.get('status') != 'open' or k['property'] != prop:
            continue
        mt = k['match']
        preds = mt['pred'] if isinstance(mt['pred'], list) else [mt['pred']]
        if pred not in preds:
            continue
        if all(facts.get(a) == b for a, b in mt.get('facts', {}).items()):
            return k
    return None


def write_evidence(prop, tier, seed, level, coverage, wall, violations, assumptions):
    if os.environ.get('VERIF_NO_EVIDENCE'):   # runs on a modified copy of the repository (seeded changes) are not evidence
        return
    # checks beyond the listed properties (ids X..) keep their evidence apart from the claimed ones
    edir = os.path.join(VERIF, 'evidence-extra' if prop.startswith('X') else 'evidence')
    os.makedirs(edir, exist_ok=True)
    ev = dict(property_id=prop, tier=tier, seed=seed, level=level, coverage=coverage,
              assumptions=assumptions, wall_s=round(wall, 2), violations=violations)
    with open(os.path.join(edir, prop + '.json'), 'w') as f:
        json.dump(ev, f, indent=1)
