"""Session family: C03 C04 C07 C16 C17 C19 C20 - design model Session.tla / SessionDial.tla,
observer SessionObs.tla, trace specification TraceSession.tla, harness family `session`."""
import copy, json

ALLCAPS = '{"8BITMIME", "SMTPUTF8", "DSN", "ENHANCEDSTATUSCODES"}'

BASE = dict(
    OP='"Send"', N='2', MAXR='2', BUDGET='2',
    CAPSETS='{%s, {}}' % ALLCAPS,
    RENDERKINDS='{}', ENC8='{FALSE}', DSNS='{"off"}', NONOOP='{FALSE}',
    SHAPES='{"lead"}', CLASSES='{"t4", "p5", "drop"}', CODESETS='{51}',
    POLICIES='{"none"}', AUTHTYPES='{"NOAUTH"}', HOSTKINDS='{"other"}', STARTTLSADV='{FALSE}',
    AUTHLISTS='{{}}', HANDSHAKES='{"ok"}', CAPS2='{{}}', LOGAUTH='{FALSE}', LOGGERS='{"capture"}', FALLBACK='{FALSE}',
    DEV_ImplicitDot='FALSE', DEV_NoRsetAfterDataReject='FALSE', DEV_ContinueAfterRsetFail='FALSE',
    DEV_LeakOnDialError='FALSE', DEV_QuitFailureLeavesConn='FALSE', DEV_NoDeadlineInDial='FALSE',
    DEV_NoopBeforeDeadline='FALSE', DEV_WindowStaysOpen='FALSE', DEV_FallbackInClear='FALSE',
    DEV_DialKeepsConnection='FALSE', DEV_WindowNeedsDebug='FALSE', REDIAL='{FALSE}', LATEDEBUG='{FALSE}', VARIANTS='{""}', MINR='1')


def cfg(**kw):
    c = dict(BASE)
    c.update(kw)
    return c


INVS = ['NoViolation', 'TypeOK', 'NeverBlocked', 'Terminates', 'Emit']

# per property and tier: list of (label, base module, constants)
STAGES = {
    'C03': {
        'quick': [
            ('send-2x2-b2-render', 'Session', cfg(RENDERKINDS='{"failMid"}', CAPSETS='{%s}' % ALLCAPS,
                                                   CLASSES='{"t4", "p5", "drop", "x3"}')),
            ('send-2x2-b1-transport', 'Session', cfg(BUDGET='1', CAPSETS='{{}}', CLASSES='{"wfail", "cwfail", "drop"}')),
            # body producers that can be read once (streams); the caller cancels the context of DialAndSend while a message is half-way through DATA
            ('send-2x1-b1-one-shot-producers', 'Session', cfg(MAXR='1', BUDGET='1', CAPSETS='{{}}', CLASSES='{"p5"}', VARIANTS='{"oneshot"}')),
            ('dialandsend-2x1-b1-cancel-mid-data', 'Session', cfg(OP='"DialAndSend"', MAXR='1', BUDGET='1', CAPSETS='{{}}', CLASSES='{"p5"}', VARIANTS='{"ctxcancelmid"}')),
            # every positive reply of the server - the acknowledgement of the end of data too - is a multi-line reply
            ('send-2x1-b1-multiline-ok', 'Session', cfg(MAXR='1', BUDGET='1', CAPSETS='{{}}', CLASSES='{"p5", "t4"}', VARIANTS='{"multiok"}')),
            # a server that offers PIPELINING: no message may be committed that is not one of the batch, whatever the client makes of the offer
            ('send-2x2-b1-pipelining-offered', 'Session', cfg(BUDGET='1', CAPSETS='{{"PIPELINING", "8BITMIME"}}', CLASSES='{"p5", "t4"}')),
            # unencoded (8bit) bodies with lines that end in a bare CR and dots right behind them: whatever crosses the wire, the server commits the message
            ('send-2x1-b1-bare-cr-bodies', 'Session', cfg(MAXR='1', BUDGET='1', ENC8='{TRUE}', CAPSETS='{{"8BITMIME"}}', CLASSES='{"p5"}', VARIANTS='{"crbody"}')),
            ('send-2x1-b2-transport', 'Session', cfg(MAXR='1', BUDGET='2', CAPSETS='{{}}', CLASSES='{"wfail", "cwfail", "p5"}')),
            ('send-2x1-b1-allrender', 'Session', cfg(MAXR='1', BUDGET='1', CAPSETS='{{}}',
                                                      RENDERKINDS='{"fail0", "failMid", "failEOF", "failAtt", "failAttEOF", "failSign", "failEmptyErr", "failShortErr", "failMidSigned"}')),
            ('dialandsend-2x1-b1', 'Session', cfg(OP='"DialAndSend"', MAXR='1', BUDGET='1', RENDERKINDS='{"failMid"}',
                                                  CAPSETS='{{}}')),
        ],
        'thorough': [
            ('send-3x2-b3-render', 'Session', cfg(N='3', BUDGET='3', RENDERKINDS='{"failMid"}', CAPSETS='{{}}')),
            ('send-2x2-b2-allrender', 'Session', cfg(RENDERKINDS='{"fail0", "failMid", "failEOF", "failAtt", "failAttEOF", "failSign", "failEmptyErr", "failShortErr", "failMidSigned"}',
                                                      CAPSETS='{{}}', CLASSES='{"t4", "p5", "drop", "x3"}')),
            ('dialandsend-2x2-b2', 'Session', cfg(OP='"DialAndSend"', RENDERKINDS='{"failMid"}', CAPSETS='{{}}')),
        ],
    },
    'C04': {
        'quick': [
            # messages without recipients in a batch (refused locally, nothing on the wire)
            ('send-3x1-b1-no-recipients', 'Session', cfg(N='3', MAXR='1', MINR='0', BUDGET='1', CAPSETS='{{}}')),
            # a reply that arrives after the client gave up waiting for it (the silent server answers three timeouts later)
            # extension keywords spelled in lower case: whatever the client makes of them, what it sends must fit what it declares
            ('send-2x1-b0-lower-case-keywords', 'Session', cfg(MAXR='1', BUDGET='0', CAPSETS='{{}}', ENC8='BOOLEAN', DSNS='{"off", "both"}', VARIANTS='{"lowercaps"}')),
            # every positive reply of the server is a multi-line reply (RFC 5321 4.2.1 allows it for any reply)
            ('send-2x2-b1-multiline-ok', 'Session', cfg(BUDGET='1', CAPSETS='{{}, {"8BITMIME", "DSN"}}', CLASSES='{"p5", "drop"}', VARIANTS='{"multiok"}')),
            ('send-2x1-b1-late-reply', 'Session', cfg(N='2', MAXR='1', BUDGET='1', CAPSETS='{{}}', CLASSES='{"stall"}', VARIANTS='{"latereply"}')),
            ('send-2x2-b2', 'Session', cfg(CAPSETS='{%s, {}}' % ALLCAPS)),
            # a server that offers PIPELINING (and CHUNKING, SIZE): whatever the client makes of it, the dialogue stays legal
            ('send-2x2-b2-pipelining-offered', 'Session', cfg(CAPSETS='{{"PIPELINING", "8BITMIME", "CHUNKING", "SIZE 10240000"}}', CLASSES='{"p5", "t4"}')),
            # "too many recipients" (452 4.5.3 / the historical 552 5.5.3, RFC 5321 4.5.3.1.10) at any command: a recipient that got it was not accepted
            ('send-2x2-b1-too-many-recipients', 'Session', cfg(BUDGET='1', CAPSETS='{%s, {}}' % ALLCAPS, SHAPES='{"toomany"}', CLASSES='{"t4", "p5"}')),
            # a server with a long list of extensions: an EHLO reply of more than a hundred lines is one reply
            ('send-2x2-b1-long-ehlo-reply', 'Session', cfg(BUDGET='1', CAPSETS='{%s}' % ALLCAPS, CLASSES='{"p5", "t4"}', VARIANTS='{"bigehlo"}')),
            ('send-caps-dsn-8bit', 'Session', cfg(N='2', MAXR='1', BUDGET='1', ENC8='BOOLEAN',
                                                  DSNS='{"off", "ret", "notify", "both"}', NONOOP='BOOLEAN',
                                                  CAPSETS='{{}, {"8BITMIME"}, {"SMTPUTF8"}, {"DSN"}, {"ENHANCEDSTATUSCODES"}, {"8BITMIME", "DSN"}, %s}' % ALLCAPS)),
            ('dialandsend-2x1-b2', 'Session', cfg(OP='"DialAndSend"', MAXR='1', DSNS='{"both"}', ENC8='BOOLEAN',
                                                  CAPSETS='{%s, {}}' % ALLCAPS)),
            # the capability list after STARTTLS replaces the one before it
            ('starttls-caps-change', 'Session', cfg(OP='"DialAndSend"', N='1', MAXR='1', BUDGET='1', DSNS='{"off", "both"}', ENC8='BOOLEAN',
                                                    POLICIES='{"mandatory", "opportunistic"}', STARTTLSADV='{TRUE}',
                                                    CAPSETS='{%s, {"DSN"}, {}}' % ALLCAPS, CAPS2='{{}, {"8BITMIME"}, {"DSN", "SMTPUTF8"}, %s}' % ALLCAPS)),
        ],
        'thorough': [
            ('send-3x3-b3', 'Session', cfg(N='3', MAXR='3', BUDGET='3', CAPSETS='{{}}', CLASSES='{"p5", "drop"}')),
            ('send-allcaps-dsn-8bit', 'Session', cfg(N='2', MAXR='2', BUDGET='2', ENC8='BOOLEAN',
                                                     DSNS='{"off", "ret", "notify", "both"}', NONOOP='BOOLEAN',
                                                     CAPSETS='SUBSET %s' % ALLCAPS, CLASSES='{"p5"}')),
            ('dialandsend-2x2-b3', 'Session', cfg(OP='"DialAndSend"', BUDGET='3', DSNS='{"both"}', ENC8='BOOLEAN',
                                                  CAPSETS='{%s, {}}' % ALLCAPS)),
        ],
    },
    'C19': {
        'quick': [
            # a second Dial on a Client whose first connection the server has dropped meanwhile
            ('redial-after-server-drop', 'Session', cfg(OP='"Dial"', N='1', MAXR='1', BUDGET='1', CAPSETS='{{}}', CLASSES='{"p5", "drop"}', REDIAL='{TRUE}',
                                                       VARIANTS='{"gone", ""}')),
            # the caller cancels its context right after the transport connection was established
            ('dial-context-cancelled', 'Session', cfg(OP='"Dial"', N='1', MAXR='1', BUDGET='1', CAPSETS='{{}}', CLASSES='{"p5", "drop"}', VARIANTS='{"ctxcancel"}',
                                                      AUTHTYPES='{"NOAUTH", "LOGIN-NOENC"}', AUTHLISTS='{{"LOGIN"}}')),
            ('dialandsend-context-cancelled', 'Session', cfg(OP='"DialAndSend"', N='1', MAXR='1', BUDGET='1', CAPSETS='{{}}', CLASSES='{"p5"}', VARIANTS='{"ctxcancel"}')),
            ('dial-tls-noauth-b1', 'Session', cfg(OP='"Dial"', N='1', MAXR='1', BUDGET='1', CAPSETS='{{}}', CODESETS='{54, 21}',
                                                  POLICIES='{"mandatory", "opportunistic", "none"}', STARTTLSADV='BOOLEAN',
                                                  HANDSHAKES='{"ok", "wrongname", "untrusted", "garbage"}')),
            # option combinations around the transport: the SSL flag with a dial function of the caller, the flag set and cleared,
            # a Client that was connected to another server before
            ('transport-option-variants', 'Session', cfg(OP='"DialAndSend"', N='1', MAXR='1', BUDGET='1', CAPSETS='{{}}', CLASSES='{"p5", "drop"}',
                                                         VARIANTS='{"ssltoggle", "warmup"}', POLICIES='{"mandatory", "none"}', STARTTLSADV='{TRUE}',
                                                         HANDSHAKES='{"ok", "untrusted"}')),
            ('ssl-flag-with-plain-dialer', 'Session', cfg(OP='"DialAndSend"', N='1', MAXR='1', BUDGET='1', CAPSETS='{{}}', CLASSES='{"p5", "drop"}',
                                                          VARIANTS='{"sslflag"}', POLICIES='{"none"}', HOSTKINDS='{"localhost", "other"}')),
            ('dial-auth-b1', 'Session', cfg(OP='"Dial"', N='1', MAXR='1', BUDGET='1', CAPSETS='{{}}',
                                            CLASSES='{"t4", "p5", "drop", "mal"}',
                                            AUTHTYPES='{"PLAIN", "PLAIN-NOENC", "LOGIN", "CRAM-MD5", "XOAUTH2", "SCRAM-SHA-256", "AUTODISCOVER"}',
                                            AUTHLISTS='{{}, {"PLAIN", "LOGIN", "XOAUTH2"}, {"CRAM-MD5", "SCRAM-SHA-256", "SCRAM-SHA-1"}}',
                                            HOSTKINDS='{"localhost", "loopback", "lookalike", "other"}')),
            ('dial-tls-auth-b1', 'Session', cfg(OP='"Dial"', N='1', MAXR='1', BUDGET='1', CAPSETS='{{}}',
                                                CLASSES='{"t4", "p5", "drop", "mal"}', POLICIES='{"mandatory"}', STARTTLSADV='{TRUE}',
                                                AUTHTYPES='{"PLAIN", "LOGIN", "SCRAM-SHA-256-PLUS", "AUTODISCOVER"}',
                                                AUTHLISTS='{{"PLAIN", "LOGIN"}, {"SCRAM-SHA-256-PLUS", "SCRAM-SHA-1", "PLAIN"}}')),
            ('dialandsend-1x2-b2', 'Session', cfg(OP='"DialAndSend"', N='1', BUDGET='2', CAPSETS='{{}}', RENDERKINDS='{"failMid"}',
                                                  CLASSES='{"t4", "p5", "drop", "wfail", "cwfail"}')),
            ('dialandsend-2x1-b2', 'Session', cfg(OP='"DialAndSend"', N='2', MAXR='1', BUDGET='2', CAPSETS='{{}}')),
            # messages the server cannot take (8bit without 8BITMIME) and messages without recipients: the call fails after a complete dial
            ('dialandsend-refused-locally', 'Session', cfg(OP='"DialAndSend"', N='2', MAXR='1', MINR='0', BUDGET='1', ENC8='BOOLEAN', CAPSETS='{{}, {"8BITMIME"}}', CLASSES='{"p5"}')),
        ],
        'thorough': [
            ('dial-tls-noauth-b2', 'Session', cfg(OP='"Dial"', N='1', MAXR='1', BUDGET='2', CAPSETS='{{}}', CODESETS='{54, 21, 0, 99}',
                                                  CLASSES='{"t4", "p5", "drop", "garbage"}',
                                                  POLICIES='{"mandatory", "opportunistic", "none"}', STARTTLSADV='BOOLEAN',
                                                  HANDSHAKES='{"ok", "wrongname", "untrusted", "garbage"}')),
            ('dial-auth-b2', 'Session', cfg(OP='"Dial"', N='1', MAXR='1', BUDGET='2', CAPSETS='{{}}',
                                            CLASSES='{"t4", "p5", "drop", "mal"}',
                                            AUTHTYPES='{"PLAIN", "PLAIN-NOENC", "LOGIN", "LOGIN-NOENC", "CRAM-MD5", "XOAUTH2", "SCRAM-SHA-1", "SCRAM-SHA-256", "AUTODISCOVER"}',
                                            AUTHLISTS='{{}, {"PLAIN", "LOGIN", "XOAUTH2"}, {"CRAM-MD5", "SCRAM-SHA-256", "SCRAM-SHA-1"}, {"LOGIN"}}',
                                            HOSTKINDS='{"localhost", "loopback", "lookalike", "other"}')),
            ('dial-tls-auth-b2', 'Session', cfg(OP='"Dial"', N='1', MAXR='1', BUDGET='2', CAPSETS='{{}}',
                                                CLASSES='{"t4", "p5", "drop", "mal"}', POLICIES='{"mandatory", "opportunistic"}', STARTTLSADV='{TRUE}',
                                                AUTHTYPES='{"PLAIN", "LOGIN", "SCRAM-SHA-256-PLUS", "SCRAM-SHA-1-PLUS", "AUTODISCOVER"}',
                                                AUTHLISTS='{{"PLAIN", "LOGIN"}, {"SCRAM-SHA-256-PLUS", "SCRAM-SHA-1", "PLAIN"}, {"SCRAM-SHA-1-PLUS"}}')),
            ('dialandsend-2x2-b3', 'Session', cfg(OP='"DialAndSend"', N='2', BUDGET='3', CAPSETS='{{}}', RENDERKINDS='{"failMid"}')),
        ],
    },
    'C17': {
        'quick': [
            # the caller's context has a deadline far beyond the client timeout: the timeout still bounds the dial
            ('dial-stall-long-context', 'Session', cfg(OP='"Dial"', N='1', MAXR='1', BUDGET='1', CAPSETS='{{}}', CLASSES='{"stall"}', VARIANTS='{"ctxdl"}',
                                                       AUTHTYPES='{"NOAUTH", "LOGIN-NOENC"}', AUTHLISTS='{{"LOGIN"}}')),
            ('dialandsend-stall-long-context', 'Session', cfg(OP='"DialAndSend"', N='1', MAXR='1', BUDGET='1', CAPSETS='{{}}', CLASSES='{"stall"}', VARIANTS='{"ctxdl"}')),
            # an empty batch: the dial, then the QUIT - against a server that falls silent
            ('dialandsend-empty-batch-stall', 'Session', cfg(OP='"DialAndSend"', N='0', MAXR='1', BUDGET='1', CAPSETS='{{}}', CLASSES='{"stall"}')),
            ('dial-stall', 'Session', cfg(OP='"Dial"', N='1', MAXR='1', BUDGET='1', CAPSETS='{{}}', CLASSES='{"stall"}',
                                          POLICIES='{"mandatory", "opportunistic", "none"}', STARTTLSADV='{TRUE}', HANDSHAKES='{"ok", "stall"}',
                                          AUTHTYPES='{"NOAUTH", "PLAIN-NOENC", "LOGIN-NOENC", "CRAM-MD5", "SCRAM-SHA-256", "XOAUTH2"}',
                                          AUTHLISTS='{{"PLAIN", "LOGIN", "CRAM-MD5", "SCRAM-SHA-256", "XOAUTH2"}}')),
            ('send-stall', 'Session', cfg(BUDGET='1', CAPSETS='{{}}', CLASSES='{"stall", "cstall"}', NONOOP='BOOLEAN')),
            # a second Dial on a Client whose first, idle connection the server no longer answers on
            ('redial-with-silent-old-connection', 'Session', cfg(OP='"Send"', N='1', MAXR='1', BUDGET='0', CAPSETS='{{}}', REDIAL='{TRUE}', VARIANTS='{"mute"}',
                                                                  POLICIES='{"none", "opportunistic"}', STARTTLSADV='BOOLEAN')),
            # implicit TLS over real TCP: the server accepts the connection and never answers the ClientHello, or goes silent later
            ('implicit-tls-stall', 'Session', cfg(OP='"Dial"', N='1', MAXR='1', BUDGET='1', CAPSETS='{{}}', CLASSES='{"stall"}', POLICIES='{"implicit"}',
                                                  HANDSHAKES='{"ok", "stall"}', FALLBACK='BOOLEAN', AUTHTYPES='{"NOAUTH", "PLAIN"}', AUTHLISTS='{{"PLAIN", "LOGIN"}}')),
            ('implicit-tls-stall-dialandsend', 'Session', cfg(OP='"DialAndSend"', N='1', MAXR='1', BUDGET='1', CAPSETS='{{}}', CLASSES='{"stall"}', POLICIES='{"implicit"}',
                                                              HANDSHAKES='{"ok", "stall"}')),
            ('dial-fallback-stall', 'Session', cfg(OP='"Dial"', N='1', MAXR='1', BUDGET='2', CAPSETS='{{}}', CLASSES='{"stall", "refuse"}',
                                                   FALLBACK='BOOLEAN', POLICIES='{"opportunistic", "none"}', STARTTLSADV='{FALSE}')),
            ('dialandsend-stall', 'Session', cfg(OP='"DialAndSend"', N='1', BUDGET='1', CAPSETS='{{}}', CLASSES='{"stall"}')),
            ('reset-stall', 'Session', cfg(OP='"Reset"', N='1', MAXR='1', BUDGET='1', CAPSETS='{{}}', CLASSES='{"stall"}', NONOOP='BOOLEAN')),
            ('reset-twice-stall', 'Session', cfg(OP='"Reset2"', N='1', MAXR='1', BUDGET='1', CAPSETS='{{}}', CLASSES='{"stall", "drop"}', NONOOP='BOOLEAN')),
        ],
        'thorough': [
            ('dial-stall-b2', 'Session', cfg(OP='"Dial"', N='1', MAXR='1', BUDGET='2', CAPSETS='{{}}', CLASSES='{"stall", "t4"}',
                                             POLICIES='{"mandatory", "opportunistic", "none"}', STARTTLSADV='BOOLEAN', HANDSHAKES='{"ok", "stall"}',
                                             AUTHTYPES='{"NOAUTH", "PLAIN", "PLAIN-NOENC", "LOGIN-NOENC", "CRAM-MD5", "SCRAM-SHA-1", "SCRAM-SHA-256", "SCRAM-SHA-256-PLUS", "XOAUTH2", "AUTODISCOVER"}',
                                             AUTHLISTS='{{"PLAIN", "LOGIN", "CRAM-MD5", "SCRAM-SHA-1", "SCRAM-SHA-256", "SCRAM-SHA-256-PLUS", "XOAUTH2"}}')),
            ('send-stall-b2', 'Session', cfg(N='3', BUDGET='2', CAPSETS='{{}}', CLASSES='{"stall", "cstall", "p5"}', NONOOP='BOOLEAN')),
            ('dial-fallback-stall', 'Session', cfg(OP='"Dial"', N='1', MAXR='1', BUDGET='2', CAPSETS='{{}}', CLASSES='{"stall", "refuse"}',
                                                   FALLBACK='BOOLEAN', POLICIES='{"mandatory", "opportunistic", "none"}', STARTTLSADV='BOOLEAN',
                                                   AUTHTYPES='{"NOAUTH", "CRAM-MD5"}', AUTHLISTS='{{"CRAM-MD5"}}')),
            ('dialandsend-stall-b2', 'Session', cfg(OP='"DialAndSend"', N='2', BUDGET='2', CAPSETS='{{}}', CLASSES='{"stall", "p5"}')),
            ('reset-stall', 'Session', cfg(OP='"Reset"', N='1', MAXR='1', BUDGET='2', CAPSETS='{{}}', CLASSES='{"stall", "t4"}', NONOOP='BOOLEAN')),
            # Reset is called again after a call that ran into the silent server
            ('reset-twice-stall', 'Session', cfg(OP='"Reset2"', N='1', MAXR='1', BUDGET='1', CAPSETS='{{}}', CLASSES='{"stall", "drop"}', NONOOP='BOOLEAN')),
        ],
    },
    'C16': {
        'quick': [
            ('rawauth-b1', 'Session', cfg(OP='"RawAuth"', N='1', MAXR='1', BUDGET='1', CAPSETS='{{}}', CLASSES='{"p5", "mal", "wfail"}',
                                          AUTHTYPES='{"PLAIN-NOENC", "LOGIN-NOENC", "CRAM-MD5", "XOAUTH2", "SCRAM-SHA-256"}',
                                          AUTHLISTS='{{"PLAIN", "LOGIN", "CRAM-MD5", "XOAUTH2", "SCRAM-SHA-1", "SCRAM-SHA-256", "SCRAM-SHA-1-PLUS", "SCRAM-SHA-256-PLUS"}}', LOGAUTH='BOOLEAN', LOGGERS='{"capture", "std", "json"}')),
            ('dial-auth-clear-b1', 'Session', cfg(OP='"Dial"', N='1', MAXR='1', BUDGET='1', CAPSETS='{{}}', CLASSES='{"p5", "drop", "mal", "wfail"}',
                                                  AUTHTYPES='{"PLAIN-NOENC", "LOGIN-NOENC", "CRAM-MD5", "XOAUTH2", "SCRAM-SHA-1", "SCRAM-SHA-256", "AUTODISCOVER"}',
                                                  AUTHLISTS='{{"PLAIN", "LOGIN", "CRAM-MD5", "XOAUTH2", "SCRAM-SHA-1", "SCRAM-SHA-256", "SCRAM-SHA-1-PLUS", "SCRAM-SHA-256-PLUS"}}', LOGAUTH='BOOLEAN', LOGGERS='{"capture", "std", "json"}')),
            ('dial-auth-tls-b1', 'Session', cfg(OP='"Dial"', N='1', MAXR='1', BUDGET='1', CAPSETS='{{}}', CLASSES='{"p5", "mal"}',
                                                POLICIES='{"mandatory"}', STARTTLSADV='{TRUE}',
                                                AUTHTYPES='{"PLAIN", "LOGIN", "SCRAM-SHA-256-PLUS", "SCRAM-SHA-1-PLUS", "AUTODISCOVER"}',
                                                AUTHLISTS='{{"PLAIN", "LOGIN", "CRAM-MD5", "XOAUTH2", "SCRAM-SHA-1", "SCRAM-SHA-256", "SCRAM-SHA-1-PLUS", "SCRAM-SHA-256-PLUS"}}', LOGAUTH='BOOLEAN', LOGGERS='{"capture", "json"}')),
            # logger, debug flag and the authentication-data switch through SetLogger / SetDebugLog / SetLogAuthData
            ('dial-auth-by-setters', 'Session', cfg(OP='"Dial"', N='1', MAXR='1', BUDGET='1', CAPSETS='{{}}', CLASSES='{"p5", "mal"}', VARIANTS='{"setters"}',
                                                    POLICIES='{"mandatory", "none"}', STARTTLSADV='{TRUE}',
                                                    AUTHTYPES='{"PLAIN-NOENC", "LOGIN-NOENC", "CRAM-MD5", "XOAUTH2", "SCRAM-SHA-256", "AUTODISCOVER"}',
                                                    AUTHLISTS='{{"PLAIN", "LOGIN", "CRAM-MD5", "XOAUTH2", "SCRAM-SHA-1", "SCRAM-SHA-256", "SCRAM-SHA-1-PLUS", "SCRAM-SHA-256-PLUS"}}', LOGAUTH='BOOLEAN', LOGGERS='{"capture", "std", "json"}')),
            # credentials of several hundred characters: the lines of the exchange exceed 512 octets
            ('long-credentials', 'Session', cfg(OP='"RawAuth"', N='1', MAXR='1', BUDGET='1', CAPSETS='{{}}', CLASSES='{"p5"}', VARIANTS='{"longcred"}',
                                                AUTHTYPES='{"PLAIN-NOENC", "LOGIN-NOENC", "CRAM-MD5", "XOAUTH2", "SCRAM-SHA-256"}',
                                                AUTHLISTS='{{"PLAIN", "LOGIN", "CRAM-MD5", "XOAUTH2", "SCRAM-SHA-1", "SCRAM-SHA-256", "SCRAM-SHA-1-PLUS", "SCRAM-SHA-256-PLUS"}}', LOGAUTH='BOOLEAN', LOGGERS='{"capture", "std", "json"}')),
            ('long-credentials-dial', 'Session', cfg(OP='"Dial"', N='1', MAXR='1', BUDGET='0', CAPSETS='{{}}', VARIANTS='{"longcred"}',
                                                     AUTHTYPES='{"PLAIN-NOENC", "LOGIN-NOENC", "XOAUTH2"}', AUTHLISTS='{{"PLAIN", "LOGIN", "XOAUTH2"}}', LOGAUTH='BOOLEAN', LOGGERS='{"capture", "json"}')),
            # a second smtp.Client.Auth on the same client after the first one failed
            ('rawauth-retry-b1', 'Session', cfg(OP='"RawAuth"', N='1', MAXR='1', BUDGET='1', CAPSETS='{{}}', CLASSES='{"p5", "mal", "t4"}', VARIANTS='{"authretry"}',
                                                AUTHTYPES='{"PLAIN-NOENC", "LOGIN-NOENC", "CRAM-MD5", "XOAUTH2", "SCRAM-SHA-256"}',
                                                AUTHLISTS='{{"PLAIN", "LOGIN", "CRAM-MD5", "XOAUTH2", "SCRAM-SHA-1", "SCRAM-SHA-256", "SCRAM-SHA-1-PLUS", "SCRAM-SHA-256-PLUS"}}', LOGAUTH='BOOLEAN', LOGGERS='{"capture", "std"}')),
            # smtp.Client.Close called by another goroutine between two commands of the exchange
            ('rawauth-concurrent-close', 'Session', cfg(OP='"RawAuth"', N='1', MAXR='1', BUDGET='1', CAPSETS='{{}}', CLASSES='{"xclose"}',
                                          AUTHTYPES='{"PLAIN-NOENC", "LOGIN-NOENC", "CRAM-MD5", "XOAUTH2", "SCRAM-SHA-1", "SCRAM-SHA-256"}',
                                          AUTHLISTS='{{"PLAIN", "LOGIN", "CRAM-MD5", "XOAUTH2", "SCRAM-SHA-1", "SCRAM-SHA-256"}}', LOGAUTH='BOOLEAN', LOGGERS='{"capture", "json"}')),
            # another goroutine uses the same smtp.Client (NOOP) after the window was opened; debug logging switched on mid-exchange
            ('rawauth-concurrent-noop', 'Session', cfg(OP='"RawAuth"', N='1', MAXR='1', BUDGET='1', CAPSETS='{{}}', CLASSES='{"xnoop"}',
                                          AUTHTYPES='{"PLAIN-NOENC", "LOGIN-NOENC", "CRAM-MD5", "XOAUTH2", "SCRAM-SHA-256"}',
                                          AUTHLISTS='{{"PLAIN", "LOGIN", "CRAM-MD5", "XOAUTH2", "SCRAM-SHA-1", "SCRAM-SHA-256"}}', LOGAUTH='BOOLEAN', LOGGERS='{"capture", "std"}')),
            # the mechanism refuses to start (PLAIN / LOGIN in clear): whatever is logged after Auth returned is logged normally
            ('rawauth-refused-start', 'Session', cfg(OP='"RawAuth"', N='1', MAXR='1', BUDGET='1', CAPSETS='{{}}', CLASSES='{"p5"}', HOSTKINDS='{"other", "localhost"}',
                                          AUTHTYPES='{"PLAIN", "LOGIN", "LOGIN-NOENC"}', AUTHLISTS='{{"PLAIN", "LOGIN"}}', LOGAUTH='BOOLEAN', LOGGERS='{"capture", "json"}')),
            ('rawauth-late-debug', 'Session', cfg(OP='"RawAuth"', N='1', MAXR='1', BUDGET='1', CAPSETS='{{}}', CLASSES='{"p5"}', LATEDEBUG='{TRUE}',
                                          AUTHTYPES='{"PLAIN-NOENC", "LOGIN-NOENC", "CRAM-MD5", "XOAUTH2", "SCRAM-SHA-1", "SCRAM-SHA-256"}',
                                          AUTHLISTS='{{"PLAIN", "LOGIN", "CRAM-MD5", "XOAUTH2", "SCRAM-SHA-1", "SCRAM-SHA-256"}}', LOGAUTH='BOOLEAN', LOGGERS='{"capture", "json"}')),
            ('send-after-auth-b1', 'Session', cfg(N='1', MAXR='1', BUDGET='1', CAPSETS='{{}}', CLASSES='{"p5"}',
                                                  AUTHTYPES='{"PLAIN-NOENC", "LOGIN-NOENC", "SCRAM-SHA-256", "XOAUTH2"}',
                                                  AUTHLISTS='{{"PLAIN", "LOGIN", "CRAM-MD5", "XOAUTH2", "SCRAM-SHA-1", "SCRAM-SHA-256", "SCRAM-SHA-1-PLUS", "SCRAM-SHA-256-PLUS"}}', LOGAUTH='BOOLEAN', LOGGERS='{"capture", "std", "json"}')),
        ],
        'thorough': [
            ('rawauth-b2', 'Session', cfg(OP='"RawAuth"', N='1', MAXR='1', BUDGET='2', CAPSETS='{{}}', CLASSES='{"t4", "p5", "drop", "mal", "wfail", "xclose"}',
                                          AUTHTYPES='{"PLAIN-NOENC", "LOGIN-NOENC", "CRAM-MD5", "XOAUTH2", "SCRAM-SHA-1", "SCRAM-SHA-256"}',
                                          AUTHLISTS='{{"PLAIN", "LOGIN", "CRAM-MD5", "XOAUTH2", "SCRAM-SHA-1", "SCRAM-SHA-256", "SCRAM-SHA-1-PLUS", "SCRAM-SHA-256-PLUS"}}', LOGAUTH='BOOLEAN', LOGGERS='{"capture", "std", "json"}')),
            ('dial-auth-clear-b2', 'Session', cfg(OP='"Dial"', N='1', MAXR='1', BUDGET='2', CAPSETS='{{}}', CLASSES='{"t4", "p5", "drop", "mal", "wfail"}',
                                                  AUTHTYPES='{"PLAIN-NOENC", "LOGIN-NOENC", "CRAM-MD5", "XOAUTH2", "SCRAM-SHA-1", "SCRAM-SHA-256", "AUTODISCOVER"}',
                                                  AUTHLISTS='{{"PLAIN", "LOGIN", "CRAM-MD5", "XOAUTH2", "SCRAM-SHA-1", "SCRAM-SHA-256", "SCRAM-SHA-1-PLUS", "SCRAM-SHA-256-PLUS"}}', LOGAUTH='BOOLEAN', LOGGERS='{"capture", "std", "json"}')),
            ('dial-auth-tls-b2', 'Session', cfg(OP='"Dial"', N='1', MAXR='1', BUDGET='2', CAPSETS='{{}}', CLASSES='{"t4", "p5", "drop", "mal"}',
                                                POLICIES='{"mandatory", "opportunistic"}', STARTTLSADV='{TRUE}',
                                                AUTHTYPES='{"PLAIN", "LOGIN", "CRAM-MD5", "SCRAM-SHA-256-PLUS", "SCRAM-SHA-1-PLUS", "AUTODISCOVER"}',
                                                AUTHLISTS='{{"PLAIN", "LOGIN", "CRAM-MD5", "XOAUTH2", "SCRAM-SHA-1", "SCRAM-SHA-256", "SCRAM-SHA-1-PLUS", "SCRAM-SHA-256-PLUS"}}', LOGAUTH='BOOLEAN', LOGGERS='{"capture", "std", "json"}')),
            ('dialandsend-after-auth-b2', 'Session', cfg(OP='"DialAndSend"', N='2', MAXR='1', BUDGET='2', CAPSETS='{{}}', CLASSES='{"p5", "drop"}',
                                                  AUTHTYPES='{"PLAIN-NOENC", "LOGIN-NOENC", "CRAM-MD5", "SCRAM-SHA-256", "XOAUTH2"}',
                                                  AUTHLISTS='{{"PLAIN", "LOGIN", "CRAM-MD5", "XOAUTH2", "SCRAM-SHA-1", "SCRAM-SHA-256", "SCRAM-SHA-1-PLUS", "SCRAM-SHA-256-PLUS"}}', LOGAUTH='BOOLEAN', LOGGERS='{"capture", "std", "json"}')),
        ],
    },
    'C07': {
        'quick': [
            ('dial-policy-auth-matrix', 'Session', cfg(OP='"Dial"', N='1', MAXR='1', BUDGET='0', CAPSETS='{{}}',
                POLICIES='{"mandatory", "opportunistic", "none"}', STARTTLSADV='BOOLEAN', HOSTKINDS='{"localhost", "loopback", "lookalike", "other"}',
                HANDSHAKES='{"ok", "wrongname", "untrusted", "garbage"}',
                AUTHTYPES='{"NOAUTH", "PLAIN", "PLAIN-NOENC", "LOGIN", "LOGIN-NOENC", "CRAM-MD5", "XOAUTH2", "SCRAM-SHA-1", "SCRAM-SHA-256", "SCRAM-SHA-1-PLUS", "SCRAM-SHA-256-PLUS", "AUTODISCOVER"}',
                AUTHLISTS='{{}, {"PLAIN", "LOGIN"}, {"LOGIN", "CRAM-MD5"}, {"PLAIN", "XOAUTH2", "SCRAM-SHA-256-PLUS"}, {"PLAIN", "LOGIN", "CRAM-MD5", "XOAUTH2", "SCRAM-SHA-1", "SCRAM-SHA-256", "SCRAM-SHA-1-PLUS", "SCRAM-SHA-256-PLUS"}}')),
            ('dial-starttls-faults', 'Session', cfg(OP='"Dial"', N='1', MAXR='1', BUDGET='1', CAPSETS='{{}}', CLASSES='{"t4", "p5", "garbage", "drop"}',
                POLICIES='{"mandatory", "opportunistic"}', STARTTLSADV='{TRUE}', HOSTKINDS='{"other", "localhost"}',
                AUTHTYPES='{"PLAIN", "LOGIN", "AUTODISCOVER"}', AUTHLISTS='{{"PLAIN", "LOGIN"}, {"LOGIN", "XOAUTH2"}}')),
            ('dialandsend-mandatory', 'Session', cfg(OP='"DialAndSend"', N='1', MAXR='1', BUDGET='1', CAPSETS='{{}}',
                POLICIES='{"mandatory"}', STARTTLSADV='BOOLEAN', HANDSHAKES='{"ok", "untrusted"}',
                AUTHTYPES='{"NOAUTH", "PLAIN"}', AUTHLISTS='{{"PLAIN"}}')),
            # the port is set before the policy (SetTLSPortPolicy on a Client whose port is not the default)
            ('custom-port-then-port-policy', 'Session', cfg(OP='"DialAndSend"', N='1', MAXR='1', BUDGET='0', CAPSETS='{{}}', VARIANTS='{"customport"}',
                POLICIES='{"mandatory", "opportunistic"}', STARTTLSADV='BOOLEAN', HANDSHAKES='{"ok"}')),
            # WithSSL together with a caller-supplied dial function that returns a plain connection: auto-discovery must not take it for encrypted
            ('ssl-flag-with-plain-dialer', 'Session', cfg(OP='"Dial"', N='1', MAXR='1', BUDGET='0', CAPSETS='{{}}', VARIANTS='{"sslflag"}',
                POLICIES='{"none"}', HOSTKINDS='{"localhost", "other"}', AUTHTYPES='{"AUTODISCOVER", "PLAIN", "LOGIN", "CRAM-MD5"}',
                AUTHLISTS='{{"PLAIN", "LOGIN"}, {"PLAIN", "LOGIN", "CRAM-MD5"}}')),
            # the whole configuration through the setter methods of the Client (SetTLSPolicy, SetSMTPAuth, SetUsername, ...) instead of options
            ('configured-by-setters', 'Session', cfg(OP='"Dial"', N='1', MAXR='1', BUDGET='0', CAPSETS='{{}}', VARIANTS='{"setters"}',
                POLICIES='{"mandatory", "opportunistic", "none"}', STARTTLSADV='BOOLEAN', HOSTKINDS='{"localhost", "other"}', HANDSHAKES='{"ok", "untrusted"}',
                AUTHTYPES='{"NOAUTH", "PLAIN", "PLAIN-NOENC", "LOGIN", "CRAM-MD5", "XOAUTH2", "SCRAM-SHA-256", "SCRAM-SHA-256-PLUS", "AUTODISCOVER"}',
                AUTHLISTS='{{}, {"PLAIN", "LOGIN"}, {"PLAIN", "LOGIN", "CRAM-MD5", "XOAUTH2", "SCRAM-SHA-1", "SCRAM-SHA-256", "SCRAM-SHA-1-PLUS", "SCRAM-SHA-256-PLUS"}}')),
            ('implicit-tls-by-setters', 'Session', cfg(OP='"Dial"', N='1', MAXR='1', BUDGET='1', CAPSETS='{{}}', CLASSES='{"refuse"}', VARIANTS='{"setters"}',
                POLICIES='{"implicit"}', FALLBACK='BOOLEAN', HANDSHAKES='{"ok", "untrusted"}', STARTTLSADV='{TRUE}',
                AUTHTYPES='{"NOAUTH", "PLAIN", "AUTODISCOVER"}', AUTHLISTS='{{"PLAIN", "LOGIN"}}')),
            ('port-policy-by-setters', 'Session', cfg(OP='"DialAndSend"', N='1', MAXR='1', BUDGET='1', CAPSETS='{{}}', CLASSES='{"refuse", "p5"}', VARIANTS='{"setters"}',
                POLICIES='{"mandatory", "opportunistic", "none"}', FALLBACK='{TRUE}', STARTTLSADV='BOOLEAN', HANDSHAKES='{"ok"}')),
            # a server behind a UNIX domain socket that offers no STARTTLS: the TLS policy of the Client applies all the same
            ('unix-socket-host', 'Session', cfg(OP='"DialAndSend"', N='1', MAXR='1', BUDGET='1', CAPSETS='{{}}', CLASSES='{"p5"}', VARIANTS='{"unixsock"}',
                POLICIES='{"mandatory", "opportunistic", "none"}', STARTTLSADV='{FALSE}')),
            # a configuration history: the port policy (opportunistic: 587, fallback 25) first, the TLS policy of the scenario afterwards through
            # SetTLSPolicy / SetTLSPortPolicy - the fallback port of the first step is still there; the primary port is refused
            ('policy-set-after-port-policy', 'Session', cfg(OP='"DialAndSend"', N='1', MAXR='1', BUDGET='1', CAPSETS='{{}}', CLASSES='{"refuse", "p5"}', VARIANTS='{"stalefallback"}',
                POLICIES='{"mandatory", "opportunistic", "none"}', FALLBACK='{TRUE}', STARTTLSADV='BOOLEAN', HANDSHAKES='{"ok", "untrusted"}',
                AUTHTYPES='{"NOAUTH", "PLAIN"}', AUTHLISTS='{{"PLAIN", "LOGIN"}}')),
            # a Client that has completed an encrypted, authenticated dial before (against another server), then the scenario
            ('warm-client', 'Session', cfg(OP='"Dial"', N='1', MAXR='1', BUDGET='0', CAPSETS='{{}}', VARIANTS='{"warmup"}',
                POLICIES='{"mandatory", "opportunistic", "none"}', STARTTLSADV='BOOLEAN', HOSTKINDS='{"localhost", "other"}', HANDSHAKES='{"ok", "untrusted"}',
                AUTHTYPES='{"NOAUTH", "PLAIN", "LOGIN", "AUTODISCOVER"}',
                AUTHLISTS='{{"PLAIN", "LOGIN"}, {"PLAIN", "LOGIN", "CRAM-MD5"}, {"PLAIN", "LOGIN", "CRAM-MD5", "XOAUTH2", "SCRAM-SHA-1", "SCRAM-SHA-256", "SCRAM-SHA-1-PLUS", "SCRAM-SHA-256-PLUS"}}')),
            # another Client for another host is created after this one; both keep their default TLS configuration
            ('another-client-for-another-host', 'Session', cfg(OP='"DialAndSend"', N='1', MAXR='1', BUDGET='0', CAPSETS='{{}}', VARIANTS='{"otherclient"}',
                POLICIES='{"mandatory", "opportunistic"}', STARTTLSADV='{TRUE}', HANDSHAKES='{"ok", "wrongname", "untrusted"}',
                AUTHTYPES='{"NOAUTH", "PLAIN"}', AUTHLISTS='{{"PLAIN", "LOGIN"}}')),
            # a tls.Config object without server name shared with another Client (for another host) of the application
            ('shared-tls-config', 'Session', cfg(OP='"DialAndSend"', N='1', MAXR='1', BUDGET='0', CAPSETS='{{}}', VARIANTS='{"sharedcfg"}',
                POLICIES='{"mandatory", "opportunistic"}', STARTTLSADV='{TRUE}', HANDSHAKES='{"wrongname", "untrusted"}',   # (a config that names no server fails every handshake today)
                AUTHTYPES='{"NOAUTH", "PLAIN"}', AUTHLISTS='{{"PLAIN", "LOGIN"}}')),
            # implicit TLS switched on and off again before the dial (SetSSL(true), SetSSL(false)): the policy decides
            ('ssl-flag-set-and-cleared', 'Session', cfg(OP='"DialAndSend"', N='1', MAXR='1', BUDGET='0', CAPSETS='{{}}', VARIANTS='{"ssltoggle"}',
                POLICIES='{"mandatory", "opportunistic", "none"}', STARTTLSADV='BOOLEAN', HANDSHAKES='{"ok", "untrusted"}',
                AUTHTYPES='{"NOAUTH", "PLAIN"}', AUTHLISTS='{{"PLAIN", "LOGIN"}}')),
            # the TLS policy is changed between two dials of the same Client
            ('policy-change-redial', 'Session', cfg(OP='"Send"', N='1', MAXR='1', BUDGET='1', CAPSETS='{{}}', CLASSES='{"p5"}', REDIAL='{TRUE}',
                POLICIES='{"mandatory", "opportunistic", "none"}', STARTTLSADV='BOOLEAN', HANDSHAKES='{"ok", "untrusted"}')),
            # implicit TLS (WithSSLPort) over real TCP on a loopback address: TLS from the first byte, port fallback
            ('implicit-tls', 'Session', cfg(OP='"Dial"', N='1', MAXR='1', BUDGET='1', CAPSETS='{{}}', CLASSES='{"refuse"}',
                POLICIES='{"implicit"}', FALLBACK='BOOLEAN', HANDSHAKES='{"ok", "wrongname", "untrusted"}', STARTTLSADV='BOOLEAN',
                AUTHTYPES='{"NOAUTH", "PLAIN", "LOGIN", "CRAM-MD5", "XOAUTH2", "SCRAM-SHA-256", "SCRAM-SHA-256-PLUS", "AUTODISCOVER"}',
                AUTHLISTS='{{"PLAIN", "LOGIN"}, {"PLAIN", "LOGIN", "CRAM-MD5", "XOAUTH2", "SCRAM-SHA-1", "SCRAM-SHA-256", "SCRAM-SHA-1-PLUS", "SCRAM-SHA-256-PLUS"}}')),
            ('implicit-tls-dialandsend', 'Session', cfg(OP='"DialAndSend"', N='1', MAXR='1', BUDGET='1', CAPSETS='{{}}', CLASSES='{"refuse", "p5"}',
                POLICIES='{"implicit"}', FALLBACK='BOOLEAN', HANDSHAKES='{"ok", "untrusted"}',
                AUTHTYPES='{"NOAUTH", "PLAIN", "AUTODISCOVER"}', AUTHLISTS='{{"PLAIN", "LOGIN"}}')),
        ],
        'thorough': [
            ('dial-policy-auth-matrix-b1', 'Session', cfg(OP='"Dial"', N='1', MAXR='1', BUDGET='1', CAPSETS='{{}}', CLASSES='{"t4", "p5", "garbage", "drop"}',
                POLICIES='{"mandatory", "opportunistic", "none"}', STARTTLSADV='BOOLEAN', HOSTKINDS='{"localhost", "loopback", "lookalike", "other"}',
                HANDSHAKES='{"ok", "wrongname", "untrusted", "garbage"}',
                AUTHTYPES='{"NOAUTH", "PLAIN", "PLAIN-NOENC", "LOGIN", "LOGIN-NOENC", "CRAM-MD5", "XOAUTH2", "SCRAM-SHA-1", "SCRAM-SHA-256", "SCRAM-SHA-1-PLUS", "SCRAM-SHA-256-PLUS", "AUTODISCOVER"}',
                AUTHLISTS='{{}, {"PLAIN", "LOGIN"}, {"LOGIN", "CRAM-MD5"}, {"PLAIN"}, {"XOAUTH2"}, {"PLAIN", "XOAUTH2", "SCRAM-SHA-256-PLUS"}, {"SCRAM-SHA-1"}, {"PLAIN", "LOGIN", "CRAM-MD5", "XOAUTH2", "SCRAM-SHA-1", "SCRAM-SHA-256", "SCRAM-SHA-1-PLUS", "SCRAM-SHA-256-PLUS"}}')),
            ('dialandsend-mandatory-b2', 'Session', cfg(OP='"DialAndSend"', N='1', MAXR='2', BUDGET='2', CAPSETS='{{}}',
                POLICIES='{"mandatory", "opportunistic"}', STARTTLSADV='BOOLEAN', HANDSHAKES='{"ok", "untrusted", "wrongname"}',
                AUTHTYPES='{"NOAUTH", "PLAIN", "AUTODISCOVER"}', AUTHLISTS='{{"PLAIN", "LOGIN"}}')),
            # implicit TLS (WithSSLPort) over real TCP on a loopback address: TLS from the first byte, port fallback
            ('implicit-tls', 'Session', cfg(OP='"Dial"', N='1', MAXR='1', BUDGET='2', CAPSETS='{{}}', CLASSES='{"refuse", "p5", "drop"}',
                POLICIES='{"implicit"}', FALLBACK='BOOLEAN', HANDSHAKES='{"ok", "wrongname", "untrusted"}', STARTTLSADV='BOOLEAN',
                AUTHTYPES='{"NOAUTH", "PLAIN", "LOGIN", "CRAM-MD5", "XOAUTH2", "SCRAM-SHA-256", "SCRAM-SHA-256-PLUS", "AUTODISCOVER"}',
                AUTHLISTS='{{"PLAIN", "LOGIN"}, {"PLAIN", "LOGIN", "CRAM-MD5", "XOAUTH2", "SCRAM-SHA-1", "SCRAM-SHA-256", "SCRAM-SHA-1-PLUS", "SCRAM-SHA-256-PLUS"}}')),
            ('implicit-tls-dialandsend', 'Session', cfg(OP='"DialAndSend"', N='1', MAXR='1', BUDGET='2', CAPSETS='{{}}', CLASSES='{"refuse", "p5"}',
                POLICIES='{"implicit"}', FALLBACK='BOOLEAN', HANDSHAKES='{"ok", "untrusted"}',
                AUTHTYPES='{"NOAUTH", "PLAIN", "AUTODISCOVER"}', AUTHLISTS='{{"PLAIN", "LOGIN"}}')),
        ],
    },
    'C20': {
        'quick': [
            ('send-2x2-b2-multiline', 'Session', cfg(SHAPES='{"multi"}', CLASSES='{"t4", "p5"}', CAPSETS='{{"ENHANCEDSTATUSCODES"}, {}}')),
            # a nil entry in the batch
            ('send-3x1-b1-nil-entry', 'Session', cfg(N='3', MAXR='1', BUDGET='1', SHAPES='{"lead"}', CLASSES='{"t4", "p5"}', CAPSETS='{{"ENHANCEDSTATUSCODES"}}', VARIANTS='{"nilmsg"}')),
            # DialAndSend: a message fails AND the closing QUIT is not confirmed - the returned error still lists the failed messages
            ('dialandsend-2x1-b2', 'Session', cfg(OP='"DialAndSend"', N='2', MAXR='1', BUDGET='2', SHAPES='{"lead"}', CLASSES='{"t4", "p5"}', CAPSETS='{{"ENHANCEDSTATUSCODES"}}')),
            ('send-2x1-b1-terse-replies', 'Session', cfg(N='2', MAXR='1', BUDGET='1', SHAPES='{"terse", "multiterse", "xlead"}', CLASSES='{"t4", "p5"}', CAPSETS='{{"ENHANCEDSTATUSCODES"}, {}}')),
            ('send-1x2-b1-every-code', 'Session', cfg(N='1', BUDGET='1', CLASSES='{"t4", "p5"}', CODESETS='0..99', CAPSETS='{{"ENHANCEDSTATUSCODES"}}')),
            ('send-3x1-b2', 'Session', cfg(N='3', MAXR='1', BUDGET='2', SHAPES='{"lead"}', CLASSES='{"t4", "p5"}', CAPSETS='{{"ENHANCEDSTATUSCODES"}}')),
            ('send-2x2-b2-shapes', 'Session', cfg(SHAPES='{"lead", "later", "none"}', CLASSES='{"t4", "p5"}',
                                                   CAPSETS='{{"ENHANCEDSTATUSCODES"}, {}}')),
            ('send-1x2-b2-boundary-codes', 'Session', cfg(N='1', CLASSES='{"t4", "p5"}', CODESETS='{0, 99, 21}',
                                                           CAPSETS='{{"ENHANCEDSTATUSCODES"}}')),
        ],
        'thorough': [
            # (N=3, MAXR=2, BUDGET=3 with three shapes is 1.8 million scenarios and two hours: split into two smaller products)
            ('send-3x2-b2-shapes', 'Session', cfg(N='3', BUDGET='2', SHAPES='{"lead", "later", "none"}',
                                                   CLASSES='{"t4", "p5"}', CAPSETS='{{"ENHANCEDSTATUSCODES"}, {}}')),
            ('send-3x1-b3', 'Session', cfg(N='3', MAXR='1', BUDGET='3', SHAPES='{"lead", "later"}',
                                            CLASSES='{"t4", "p5"}', CAPSETS='{{"ENHANCEDSTATUSCODES"}}')),
            ('send-2x3-b3', 'Session', cfg(MAXR='3', BUDGET='3', SHAPES='{"lead", "later"}', CLASSES='{"t4", "p5"}',
                                            CAPSETS='{{"ENHANCEDSTATUSCODES"}}')),
            ('send-1x2-b2-every-code', 'Session', cfg(N='1', CLASSES='{"t4", "p5"}', CODESETS='0..99',
                                                       CAPSETS='{{"ENHANCEDSTATUSCODES"}}')),
        ],
    },
}

_DIALSTALL = dict(OP='"Dial"', N='1', MAXR='1', BUDGET='1', CAPSETS='{{}}', CLASSES='{"stall"}',
                  POLICIES='{"mandatory", "none"}', STARTTLSADV='{TRUE}', HANDSHAKES='{"ok", "stall"}',
                  AUTHTYPES='{"NOAUTH", "LOGIN-NOENC", "SCRAM-SHA-256"}', AUTHLISTS='{{"LOGIN", "SCRAM-SHA-256"}}')
LIVENESS = {
    'C17': [('dial-stall', 'Session', cfg(**_DIALSTALL)),
            ('send-stall', 'Session', cfg(BUDGET='1', CAPSETS='{{}}', CLASSES='{"stall"}')),
            ('dialandsend-stall', 'Session', cfg(OP='"DialAndSend"', N='1', BUDGET='1', CAPSETS='{{}}', CLASSES='{"stall"}'))],
}
# named deviations of the pinned code: the design predicates must catch them
SENSITIVITY = {
    'C17': [('DEV_NoDeadlineInDial', 'Session', cfg(DEV_NoDeadlineInDial='TRUE', **_DIALSTALL), 'NeverBlocked'),
            ('DEV_NoopBeforeDeadline', 'Session', cfg(OP='"Reset"', N='1', MAXR='1', BUDGET='1', CAPSETS='{{}}', CLASSES='{"stall"}',
                                                      DEV_NoopBeforeDeadline='TRUE'), 'NeverBlocked')],
    'C03': [('DEV_ImplicitDot', 'Session', cfg(RENDERKINDS='{"failMid"}', CAPSETS='{{}}', BUDGET='0', DEV_ImplicitDot='TRUE'), 'NoViolation')],
    'C04': [('DEV_NoRsetAfterDataReject', 'Session', cfg(CAPSETS='{{}}', BUDGET='1', DEV_NoRsetAfterDataReject='TRUE'), 'NoViolation'),
            ('DEV_ContinueAfterRsetFail', 'Session', cfg(CAPSETS='{{}}', BUDGET='2', DEV_ContinueAfterRsetFail='TRUE'), 'NoViolation')],
    'C07': [('DEV_DialKeepsConnection', 'Session', cfg(OP='"Send"', N='1', MAXR='1', BUDGET='0', CAPSETS='{{}}', REDIAL='{TRUE}',
                                                       POLICIES='{"mandatory"}', STARTTLSADV='{TRUE}', DEV_DialKeepsConnection='TRUE'), 'NoViolation'),
            ('DEV_FallbackInClear', 'Session', cfg(OP='"Dial"', N='1', MAXR='1', BUDGET='1', CAPSETS='{{}}', CLASSES='{"refuse"}',
                                                   POLICIES='{"implicit"}', FALLBACK='{TRUE}', DEV_FallbackInClear='TRUE'), 'NoViolation')],
    'C16': [('DEV_WindowStaysOpen', 'Session', cfg(N='1', MAXR='1', BUDGET='0', CAPSETS='{{}}', AUTHTYPES='{"LOGIN-NOENC"}', AUTHLISTS='{{"LOGIN"}}',
                                                   DEV_WindowStaysOpen='TRUE'), 'NoViolation'),
            ('DEV_WindowNeedsDebug', 'Session', cfg(OP='"RawAuth"', N='1', MAXR='1', BUDGET='0', CAPSETS='{{}}', LATEDEBUG='{TRUE}',
                                                    AUTHTYPES='{"LOGIN-NOENC"}', AUTHLISTS='{{"LOGIN"}}', DEV_WindowNeedsDebug='TRUE'), 'NoViolation')],
    'C19': [('DEV_LeakOnDialError', 'Session', cfg(OP='"Dial"', N='1', MAXR='1', BUDGET='1', CAPSETS='{{}}', DEV_LeakOnDialError='TRUE'), 'NoViolation'),
            ('DEV_QuitFailureLeavesConn', 'Session', cfg(OP='"DialAndSend"', N='1', MAXR='1', BUDGET='1', CAPSETS='{{}}',
                                                         DEV_QuitFailureLeavesConn='TRUE'), 'NoViolation')],
}

TRACE_SPEC = ('TraceSession.tla', 'TraceSession.cfg')
# the implicit-TLS stage needs ports 465 / 25 on a loopback address; where they cannot be bound its scenarios are skipped
SELFTEST_OPTIONAL = {'command in clear under implicit TLS'}


def facts(begin):
    """Flat scenario facts used to identify known findings (DESIGN.md 2.6)."""
    c = begin['cfg']
    f = {'op': c.get('op'), 'policy': c.get('policy'), 'authtype': c.get('authtype'),
         'rf_any': any(x != 'ok' for x in c.get('rf', [])), 'nonoop': c.get('nonoop'),
         'esc_advertised': 'ENHANCEDSTATUSCODES' in c.get('caps', [])}
    for e in begin.get('env') or []:
        f['env:%s:%s' % (e['v'], e['c'])] = True
        f['env:%s' % e['v']] = True
        if e.get('sh') == 'later':
            f['sh:later'] = True
    return f


def signature(begin):
    """Coarse signature that groups violations with one root cause into one report line."""
    c = begin['cfg']
    return {'op': c.get('op'), 'render_fault': any(x != 'ok' for x in c.get('rf', [])),
            'faulted': sorted({e['v'] for e in begin.get('env') or []}),
            'policy': c.get('policy'), 'authtype': c.get('authtype')}


# vacuity guards: counters of the trace monitor that must be positive for a property's run
VACUITY = {
    'C16': ['logs', 'leaks', 'postlogs', 'credcmds'],   # leaks > 0: with WithLogAuthData the scanner sees the secrets
    'C07': ['clearcmds', 'enccmds', 'credcmds'],
    'C17': ['stalls'],
    'C03': ['acked'], 'C04': ['failfacts'], 'C20': ['judged'], 'C19': ['closes'],
}


RULE = ('every terminal behaviour of the bounded design model is one scenario (environment choices: reply class per '
        'command occurrence, drops, stalls, transport failures, render faults, capability set, client configuration); '
        'non-trivial = at least one non-default environment choice or render fault; distinct by (cfg, env)')


def casekey(begin):
    return json.dumps([begin['cfg'], begin.get('env')], sort_keys=True)


def sample(tr):
    b = tr[0][0]
    return dict(scenario=b.get('scn'), cfg=b['cfg'], env=b.get('env'),
                trace=[{k: v for k, v in e.items() if k not in ('pred', 'pret', 'cfg', 'env')} for e, _ in tr[1:]][:60])


def drift_detail(tr):
    last, act = 0, []
    for e, _ in tr:
        if e['ev'] == 'call':
            last = 0
        if e['ev'] == 'cmd' and not e.get('unexpected_clear'):
            v = e['verb']
            mm = e['m'] if v in ('MAIL', 'RCPT') else (last if v in ('NOOP', 'RSET', 'DATA') else 0)
            act.append((v, mm, e['r'] if v in ('RCPT', 'EHLO', 'HELO', 'AUTHRESP') else 0))
            if v == 'MAIL':
                last = e['m']
        elif e['ev'] == 'eod':
            act.append(('EOD', e['m'], 0))
    b = tr[0][0]
    rr = [e for e, _ in tr if e['ev'] == 'ret']
    return ['  drift sample %s: env=%s' % (b.get('scn'), json.dumps(b.get('env'))),
            '    predicted: %s' % [(p['v'], p['m'], p['r']) for p in b['pred']],
            '    recorded : %s' % act,
            '    predicted ret: %s' % json.dumps(b['pret'])[:400],
            '    recorded rets: %s' % json.dumps([{k: v for k, v in r.items() if k != 'text'} for r in rr])[:600]]


def nontrivial(begin):
    return bool(begin.get('env')) or any(x != 'ok' for x in begin['cfg'].get('rf', []))


# ---- binding self-tests: canned corruptions of recorded traces ---------------------------------

def _find(evs, pred, start=0):
    for i in range(start, len(evs)):
        if pred(evs[i]):
            return i
    return -1


def mut_eod_prefix(evs):
    i = _find(evs, lambda e: e['ev'] == 'eod' and e['content'] == 'complete')
    if i < 0 or evs[i + 1].get('cls') != 'ok':
        return None
    evs[i]['content'] = 'prefix'
    return evs


def mut_flip_delivered(evs):
    i = _find(evs, lambda e: e['ev'] == 'ret' and e.get('msgs'))
    if i < 0:
        return None
    evs[i]['msgs'][0]['delivered'] = not evs[i]['msgs'][0]['delivered']
    return evs


def mut_dup_eod(evs):
    i = _find(evs, lambda e: e['ev'] == 'eod' and e['content'] == 'complete')
    if i < 0 or evs[i + 1].get('cls') != 'ok':
        return None
    return evs[:i + 2] + copy.deepcopy(evs[i:i + 2]) + evs[i + 2:]


def mut_hide_render_error(evs):
    b = evs[0]
    rf = b['cfg'].get('rf', [])
    i = _find(evs, lambda e: e['ev'] == 'ret' and e.get('msgs'))
    if i < 0:
        return None
    for m, k in enumerate(rf):
        if k != 'ok' and evs[i]['msgs'][m]['haserr'] and \
                _find(evs, lambda e: e['ev'] == 'cmd' and e['verb'] == 'MAIL' and e['m'] == m + 1) >= 0:
            evs[i]['msgs'][m]['haserr'] = False
            return evs
    return None


def mut_drop_rset(evs):
    # remove the RSET that abandons a transaction with a rejected recipient, keep the next MAIL
    i = _find(evs, lambda e: e['ev'] == 'cmd' and e['verb'] == 'RCPT')
    while i >= 0:
        if evs[i + 1].get('cls') in ('t4', 'p5'):
            j = _find(evs, lambda e: e['ev'] == 'cmd' and e['verb'] == 'RSET', i)
            k = _find(evs, lambda e: e['ev'] == 'cmd' and e['verb'] == 'MAIL', i)
            if j > 0 and k > j and evs[j + 1].get('cls') == 'ok':
                return evs[:j] + evs[j + 2:]
        i = _find(evs, lambda e: e['ev'] == 'cmd' and e['verb'] == 'RCPT', i + 1)
    return None


def mut_stray_line(evs):
    # a lone "." read as a command line after a rejected or finished command
    i = _find(evs, lambda e: e['ev'] == 'cmd' and e['verb'] == 'RSET')
    if i < 0:
        return None
    stray = dict(evs[i], verb='OTHER', line='.')
    rep = dict(evs[i + 1], code=500, cls='p5')
    return evs[:i] + [stray, rep] + evs[i:]


def mut_extra_param(evs):
    i = _find(evs, lambda e: e['ev'] == 'cmd' and e['verb'] == 'MAIL')
    if i < 0:
        return None
    evs[i]['params'] = list(evs[i]['params']) + ['SIZE']
    return evs


def mut_data_after_reject(evs):
    # pretend the client went on to DATA although a recipient was rejected
    i = _find(evs, lambda e: e['ev'] == 'cmd' and e['verb'] == 'RCPT')
    while i >= 0:
        if evs[i + 1].get('cls') in ('t4', 'p5') and i > 2 and evs[i - 1].get('cls') == 'ok' and evs[i - 2].get('verb') == 'RCPT':
            j = _find(evs, lambda e: e['ev'] == 'cmd' and e['verb'] == 'RSET', i)
            if j > 0:
                evs[j]['verb'] = 'DATA'
                evs[j]['line'] = 'DATA'
                return evs
        i = _find(evs, lambda e: e['ev'] == 'cmd' and e['verb'] == 'RCPT', i + 1)
    return None


def mut_early(evs):
    i = _find(evs, lambda e: e['ev'] == 'greet')
    if i < 0:
        return None
    evs[i]['early'] = True
    return evs


def _failed_msg(evs, need_code=True):
    i = _find(evs, lambda e: e['ev'] == 'ret' and e.get('msgs'))
    if i < 0 or evs[0].get('env') is None:
        return -1, -1
    if any(x['c'] == 'drop' for x in evs[0]['env']) or any(x != 'ok' for x in evs[0]['cfg'].get('rf', [])):
        return -1, -1
    if any(x['v'] in ('NOOP',) for x in evs[0]['env']):
        return -1, -1
    for m, x in enumerate(evs[i]['msgs']):
        if x['haserr'] and x['code'] >= 400:
            return i, m
    return -1, -1


def mut_wrong_code(evs):
    i, m = _failed_msg(evs)
    if i < 0:
        return None
    evs[i]['msgs'][m]['code'] += 1
    return evs


def mut_wrong_temp(evs):
    i, m = _failed_msg(evs)
    if i < 0:
        return None
    evs[i]['msgs'][m]['temp'] = not evs[i]['msgs'][m]['temp']
    return evs


def mut_wrong_esc(evs):
    i, m = _failed_msg(evs)
    if i < 0:
        return None
    evs[i]['msgs'][m]['esc'] = '5.9.9'
    return evs


def mut_wrong_step(evs):
    i, m = _failed_msg(evs)
    if i < 0:
        return None
    evs[i]['msgs'][m]['reason'] = 'data' if evs[i]['msgs'][m]['reason'] != 'data' else 'mail'
    return evs


def mut_wrong_rcpts(evs):
    i, m = _failed_msg(evs)
    if i < 0 or evs[i]['msgs'][m]['reason'] != 'rcpt':
        return None
    evs[i]['msgs'][m]['rcpts'] = list(evs[i]['msgs'][m]['rcpts']) + [9]
    return evs


def mut_hide_error(evs):
    i, m = _failed_msg(evs)
    if i < 0:
        return None
    evs[i]['msgs'][m]['haserr'] = False
    return evs


def mut_spurious_error(evs):
    i = _find(evs, lambda e: e['ev'] == 'ret' and e.get('msgs'))
    if i < 0 or evs[0].get('env') or any(x != 'ok' for x in evs[0]['cfg'].get('rf', [])):
        return None
    x = evs[i]['msgs'][0]
    if x['haserr'] or not x['delivered']:
        return None
    x['haserr'], x['reason'], x['code'] = True, 'mail', 550
    return evs


def mut_nerrs(evs):
    i, m = _failed_msg(evs)
    if i < 0 or evs[i].get('top') or any(x['v'] in ('RSET', 'QUIT') for x in evs[0]['env']):
        return None
    if any(evs[0]['cfg'].get('enc8', [])):
        return None
    evs[i]['nerrs'] += 1
    return evs


def mut_entry_names_other(evs):
    # an entry of the joined error names no message of the call
    i, m = _failed_msg(evs)
    if i < 0 or evs[i].get('top') or any(x['v'] in ('RSET', 'QUIT') for x in evs[0]['env']):
        return None
    if any(evs[0]['cfg'].get('enc8', [])) or not evs[i].get('entries'):
        return None
    evs[i]['entries'][0] = 0
    return evs


def mut_msg_temp(evs):
    # Msg.SendErrorIsTemp disagrees with the reply class
    i, m = _failed_msg(evs)
    if i < 0:
        return None
    evs[i]['msgs'][m]['temp2'] = not evs[i]['msgs'][m]['temp2']
    return evs


def mut_no_close(evs):
    i = _find(evs, lambda e: e['ev'] == 'ret' and e['op'] in ('Dial', 'DialAndSend') and e['err'])
    j = _find(evs, lambda e: e['ev'] == 'cclose')
    if i < 0 or j < 0 or j > i:
        return None
    return evs[:j] + evs[j + 1:]


def mut_no_quit(evs):
    i = _find(evs, lambda e: e['ev'] == 'ret' and e['op'] == 'DialAndSend' and not e['err'])
    j = _find(evs, lambda e: e['ev'] == 'cmd' and e['verb'] == 'QUIT')
    if i < 0 or j < 0:
        return None
    return evs[:j] + evs[j + 2:]


def _mut_ret(evs, k, v):
    i = _find(evs, lambda e: e['ev'] == 'ret' and e['op'] in ('Dial', 'Send', 'DialAndSend', 'Reset'))
    if i < 0:
        return None
    evs[i][k] = v
    return evs


def _mut_stall_ok(evs):
    j = _find(evs, lambda e: e['ev'] == 'stall')
    if j < 0:
        return None
    i = _find(evs, lambda e: e['ev'] == 'ret', j)
    if i < 0 or not evs[i]['err']:
        return None
    evs[i]['err'] = False
    return evs


def _mut_log(evs, k, v, need_post):
    if evs[0]['cfg'].get('logauth'):
        return None
    i = _find(evs, lambda e: e['ev'] == 'log' and (e['post'] or not need_post))
    if i < 0:
        return None
    evs[i][k] = v
    return evs


def _mut_clear(evs):
    c = evs[0]['cfg']
    if c.get('policy') != 'mandatory':
        return None
    i = _find(evs, lambda e: e['ev'] == 'cmd' and e['enc'] and e['verb'] not in ('EHLO', 'QUIT'))
    if i < 0:
        return None
    evs[i]['enc'] = False
    return evs


def _mut_implicit_clear(evs):
    if evs[0]['cfg'].get('policy') != 'implicit':
        return None
    i = _find(evs, lambda e: e['ev'] == 'cmd' and e['enc'])
    if i < 0:
        return None
    evs[i]['enc'] = False
    return evs


def _mut_cred(evs):
    c = evs[0]['cfg']
    if c.get('hostkind') != 'other' or c.get('noenc'):
        return None
    i = _find(evs, lambda e: e['ev'] == 'cmd' and e['enc'] and e['cred'] and e['verb'] == 'AUTH' and e['mech'] == 'PLAIN')
    if i < 0:
        return None
    evs[i]['enc'] = False
    return evs


def _mut_autodiscover(evs):
    c = evs[0]['cfg']
    if c.get('authtype') != 'AUTODISCOVER':
        return None
    i = _find(evs, lambda e: e['ev'] == 'cmd' and not e['enc'] and e['verb'] == 'AUTH')
    if i < 0:
        return None
    evs[i]['mech'] = 'PLAIN'
    return evs


def _mut_badcert(evs):
    c = evs[0]['cfg']
    if c.get('hs') not in ('wrongname', 'untrusted'):
        return None
    i = _find(evs, lambda e: e['ev'] == 'tls' and not e['ok'])
    if i < 0:
        return None
    evs[i]['ok'] = True
    return evs


SELFTESTS = {
    'C03': [('eod complete->prefix', mut_eod_prefix, 'C03_CompleteOnly'),
            ('flip delivered', mut_flip_delivered, 'C03_DeliveredIffAck'),
            ('duplicate end-of-data', mut_dup_eod, 'C03_AtMostOnce'),
            ('hide render error', mut_hide_render_error, 'C03_RenderFailReported')],
    'C04': [('drop RSET after rejected RCPT', mut_drop_rset, 'C04_MailOutsideTxn'),
            ('unadvertised parameter', mut_extra_param, 'C04_ParamsAdvertised'),
            ('stray line outside DATA', mut_stray_line, 'C04_KnownCommand'),
            ('DATA after rejected RCPT', mut_data_after_reject, 'C04_DataAllAccepted'),
            ('bytes before greeting', mut_early, 'C04_NothingBeforeGreeting'),
            ('misattributed reply code', mut_wrong_code, 'C04_ReplyAttribution')],
    'C20': [('wrong code', mut_wrong_code, 'C20_Code'), ('wrong temporariness', mut_wrong_temp, 'C20_Temporary'),
            ('wrong enhanced code', mut_wrong_esc, 'C20_EnhancedCode'), ('wrong step', mut_wrong_step, 'C20_Step'),
            ('wrong recipients', mut_wrong_rcpts, 'C20_Recipients'), ('error hidden', mut_hide_error, 'C20_ErrorReported'),
            ('spurious error', mut_spurious_error, 'C20_NoErrorWhenUnaffected'),
            ('joined error count', mut_nerrs, 'C20_OneEntryPerFailedMessage'),
            ('joined entry names no message', mut_entry_names_other, 'C20_EntriesNameFailedMessages'),
            ('Msg.SendErrorIsTemp wrong', mut_msg_temp, 'C20_Temporary')],
    'C17': [('late return', lambda evs: _mut_ret(evs, 'elapsed', 'late'), 'C17_Bounded'),
            ('success despite stall', lambda evs: _mut_stall_ok(evs), 'C17_ErrorOnStall')],
    'C16': [('secret in a log record', lambda evs: _mut_log(evs, 'leak', True, False), 'C16_NoSecretInLog'),
            ('record after authentication still redacted', lambda evs: _mut_log(evs, 'verbatim', False, True), 'C16_WindowCloses')],
    'C07': [('command in clear under mandatory TLS', lambda evs: _mut_clear(evs), 'C07_MandatoryTLS'),
            ('command in clear under implicit TLS', lambda evs: _mut_implicit_clear(evs), 'C07_ImplicitTLS'),
            ('password in clear', lambda evs: _mut_cred(evs), 'C07_CredInTLS'),
            ('autodiscover picks PLAIN in clear', lambda evs: _mut_autodiscover(evs), 'C07_AutoDiscover'),
            ('invalid certificate accepted', lambda evs: _mut_badcert(evs), 'C07_CertValidated')],
    'C19': [('close removed', mut_no_close, 'C19_ClosedOnError'),
            ('QUIT removed', mut_no_quit, 'C19_ClosedAfterDialAndSend')],
}

LEVEL = {'C03': 'model_checking', 'C04': 'model_checking', 'C20': 'model_checking', 'C19': 'model_checking',
         'C17': 'model_checking', 'C16': 'model_checking', 'C07': 'model_checking'}
