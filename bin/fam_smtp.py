"""Low-level SMTP client used directly (beyond the listed properties): SmtpCalls.tla / TraceSmtp.tla, harness family `smtp`.
Registered under the pseudo property id X03: histories of calls on one smtp.Client."""
import json

HARNESS_FAMILY = 'smtp'
TRACE_SPEC = ('TraceSmtp.tla', 'TraceSmtp.cfg')
INVS = ['NoWireOnBadArgument', 'HelloOnce', 'FailedHelloIsSticky', 'ParamsAdvertised', 'NothingAfterEnd', 'TypeOK', 'Emit']


def calls(*specs):
    out = []
    for s in specs:
        op, arg, arg2 = (list(s) + ['', ''])[:3]
        out.append('[op |-> "%s", arg |-> "%s", arg2 |-> "%s"]' % (op, arg, arg2))
    return '{' + ', '.join(out) + '}'


CORE = calls(('Hello', 'ok'), ('Hello', 'space'), ('Noop',), ('Reset',), ('Verify', 'ok'), ('Verify', 'crlf'), ('Mail', 'ok'), ('Mail', 'crlf'),
             ('Rcpt', 'ok'), ('Rcpt', 'crlf'), ('Data',), ('Quit',), ('Close',), ('Extension', '', '8BITMIME'), ('HasConnection',))
DSN = calls(('Hello', 'ok'), ('Hello', 'crlf'), ('SetRet',), ('SetNotify',), ('Mail', 'ok'), ('Rcpt', 'ok'), ('Data',), ('Reset',),
            ('Extension', '', 'DSN'), ('Extension', '', 'SMTPUTF8'), ('UpdateDeadline',), ('Quit',))
TLS = calls(('Hello', 'ok'), ('StartTLS',), ('TLSState',), ('GetTLSState',), ('Noop',), ('Mail', 'ok'), ('Rcpt', 'ok'), ('Extension', '', '8BITMIME'), ('Quit',), ('Close',))
ENVS = dict(EHLOS='{"ok", "ehlo5", "both5"}', DEV_ValidateLate='FALSE')
STAGES = {
    'X03': {
        'quick': [('core-calls-len3', 'SmtpCalls', dict(ENVS, MAXOPS='3', CALLS=CORE, CAPSETS='{{}, {"8BITMIME"}}')),
                  ('dsn-transaction-len5', 'SmtpCalls', dict(ENVS, MAXOPS='5', CALLS=calls(('SetRet',), ('SetNotify',), ('Mail', 'ok'), ('Mail', 'crlf'), ('Rcpt', 'ok'), ('Rcpt', 'crlf'), ('Data',), ('Extension', '', 'DSN')),
                                                             CAPSETS='{{"8BITMIME", "SMTPUTF8", "DSN"}, {"DSN"}, {"8BITMIME"}}')),
                  ('starttls-len4', 'SmtpCalls', dict(ENVS, MAXOPS='4', CALLS=TLS, CAPSETS='{{"8BITMIME", "STARTTLS"}}'))],
        'thorough': [('starttls-len5', 'SmtpCalls', dict(ENVS, MAXOPS='5', CALLS=TLS, CAPSETS='{{"8BITMIME", "STARTTLS"}, {"STARTTLS"}}')),
                     ('core-calls-len4', 'SmtpCalls', dict(ENVS, MAXOPS='4', CALLS=CORE, CAPSETS='{{}, {"8BITMIME"}}')),
                     ('dsn-calls-len4', 'SmtpCalls', dict(ENVS, MAXOPS='4', CALLS=DSN, CAPSETS='{{"8BITMIME", "SMTPUTF8", "DSN"}, {"DSN"}, {}}'))],
    },
}
SENS_INVS = ['NoWireOnBadArgument']
SENSITIVITY = {'X03': [('DEV_ValidateLate', 'SmtpCalls', dict(ENVS, MAXOPS='2', CALLS=CORE, CAPSETS='{{}}', DEV_ValidateLate='TRUE'), 'NoWireOnBadArgument')]}
RULE = ('every history of calls up to the bound over the call menu that the server may legally receive, for every way the server treats '
        'EHLO / HELO and every advertised extension set of the stage; distinct by (environment, history)')


def facts(begin):
    return {'ops': [o['op'] for o in begin['ops']], 'ehlo': begin['env']['ehlo']}


def signature(begin):
    return {'ops': [o['op'] + ':' + o['arg'] for o in begin['ops']], 'ehlo': begin['env']['ehlo']}


def casekey(begin):
    return json.dumps([begin['ops'], begin['env']], sort_keys=True)


def sample(tr):
    return dict(scenario=tr[0][0].get('scn'), ops=tr[0][0]['ops'], env=tr[0][0]['env'], events=[e for e, _ in tr[1:]][:40])


def nontrivial(begin):
    return len(begin['ops']) > 1


def _find(evs, pred, start=0):
    for i in range(start, len(evs)):
        if pred(evs[i]):
            return i
    return -1


def mut_error_swallowed(evs):
    i = _find(evs, lambda e: e['ev'] == 'ret' and e['err'])
    if i < 0:
        return None
    evs[i]['err'] = False
    return evs


def mut_injected_line(evs):
    # a call with a CRLF argument that reaches the wire
    i = _find(evs, lambda e: e['ev'] == 'ret' and e['arg'] == 'crlf')
    if i < 0:
        return None
    extra = {'ev': 'cmd', 'verb': 'RSET', 'rverb': 'RSET', 'm': 0, 'r': 0, 'params': [], 'enc': False, 'cred': False, 'mech': '', 'wf': True, 'line': 'RSET', 'conn': 1}
    return evs[:i] + [extra] + evs[i:]


def mut_second_ehlo(evs):
    # the greeting exchange repeated by a later call
    i = _find(evs, lambda e: e['ev'] == 'cmd' and e['rverb'] == 'NOOP')
    if i < 0:
        return None
    extra = dict(evs[i], verb='EHLO', rverb='EHLO', line='EHLO localhost')
    return evs[:i] + [extra] + evs[i:]


def mut_param_without_ext(evs):
    if 'DSN' in evs[0]['env']['caps']:
        return None
    i = _find(evs, lambda e: e['ev'] == 'cmd' and e['rverb'] == 'RCPT')
    if i < 0:
        return None
    evs[i]['params'] = ['NOTIFY']
    return evs


SELFTESTS = {'X03': [
    ('error swallowed', mut_error_swallowed, 'X03_ErrorAsSpecified'),
    ('argument with CRLF reaches the wire', mut_injected_line, 'X03_NothingSentOnBadArgument'),
    ('greeting exchange repeated', mut_second_ehlo, 'X03_WireAsSpecified'),
    ('parameter of an extension that is not advertised', mut_param_without_ext, 'X03_WireAsSpecified'),
]}
VACUITY = {'X03': ['calls', 'errors', 'cmds', 'badargs', 'params']}
LEVEL = {'X03': 'model_checking'}
