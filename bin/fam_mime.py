"""Render family: C01 C02 C11 C12 C18 - design model MimeBuild.tla, line automata MimeStream.tla,
trace specification TraceMime.tla, harness family `mime`."""
import copy, json

HARNESS_FAMILY = 'mime'
TRACE_SPEC = ('TraceMime.tla', 'TraceMime.cfg')
INVS = ['TreeWellFormed', 'LeavesInOrder', 'NoDegenerateLayer', 'Emit']

NOFAULT = '{[kind |-> "none", slot |-> 0, when |-> ""]}'
TEXTCC = '<<"crlf", "lf", "trailws", "dots", "eq", "from", "bdry", "len75", "len76", "len77", "long", "utf8", "bin", "nul", "empty", "oneline", "rand">>'
BASE = dict(MAXP='2', MAXE='1', MAXA='1', ENCS='{"qp", "b64", "8bit"}', PENCS='{""}', FENCS='{""}',
            CCS=TEXTCC, PRODS='<<"string", "writer", "chunk3">>', SRCS='<<"seeker", "reader", "file", "iofs", "buffer">>',
            ROTS='{0}', BOUNDARIES='{""}', DELS='{0}', HDRS='{<<>>}', PDESCS='{""}', FDESCS='{""}', FNAMES='{""}', FCIDS='{""}', OPSEQS='{<<"WriteTo">>}', FAULTS=NOFAULT, ROUNDTRIP='{FALSE}',
            SMIMES='{[key |-> "", inter |-> FALSE]}', MWS='{""}', STYLES='{""}', PGPS='{""}', CHARSETS='{""}', PCHARSETS='{""}')


def cfg(**kw):
    c = dict(BASE)
    c.update(kw)
    return c


STAGES = {
    'C01': {
        'quick': [
            ('shapes-2x2x2', 'MimeBuild', cfg(MAXE='2', MAXA='2', ROTS='{0, 5}', BOUNDARIES='{"", "fixed"}')),
            ('encodings', 'MimeBuild', cfg(MAXP='2', MAXE='1', MAXA='1', ENCS='{"qp", "7bit"}', PENCS='{"", "qp", "b64", "8bit", "7bit"}',
                                          FENCS='{"", "b64", "8bit", "qp", "7bit"}', ROTS='{1, 9}')),
            ('rerender-and-delete', 'MimeBuild', cfg(MAXP='3', MAXE='1', MAXA='1', ENCS='{"qp", "b64"}', DELS='{0, 1, 2}', ROTS='{3}',
                                                    CCS='<<"size6000", "crlf", "size900">>', SRCS='<<"seeker", "reader", "chunk57">>',
                                                    OPSEQS='{<<"WriteTo", "WriteTo">>, <<"FailSink", "WriteTo">>, <<"FailSinkMid", "WriteTo">>, <<"FailSinkLate", "WriteTo">>, <<"Reader", "WriteTo">>}')),
            # three body parts out of templates with part options (the third is a text/plain alternative from a text template)
            ('template-alternatives', 'MimeBuild', cfg(MAXP='3', MAXE='0', MAXA='0', ENCS='{"qp", "8bit"}', PENCS='{"b64", "qp"}', PDESCS='{"", "plain"}', PRODS='<<"tpl">>',
                                                     CCS='<<"crlf", "utf8", "oneline">>', ROTS='{0, 1}')),
            # the same configuration through the setter methods of Msg and Part; content out of text/html templates; files of an embed.FS
            ('setters-templates-embedfs', 'MimeBuild', cfg(MAXP='2', MAXE='1', MAXA='2', ENCS='{"qp", "b64", "8bit"}', PENCS='{"", "b64"}', STYLES='{"", "set"}',
                                                         BOUNDARIES='{"", "fixed"}', PDESCS='{"", "plain"}', ROTS='{0, 1, 2}',
                                                         CCS='<<"crlf", "utf8", "dots", "oneline", "len76", "trailws">>',
                                                         PRODS='<<"tpl", "string", "tpl", "writer">>', SRCS='<<"htpl", "embedfs", "tpl", "seeker">>',
                                                         OPSEQS='{<<"WriteTo", "WriteTo">>}')),
        ],
        'thorough': [
            ('setters-templates-embedfs', 'MimeBuild', cfg(MAXP='3', MAXE='2', MAXA='2', ENCS='{"qp", "b64", "8bit", "7bit"}', PENCS='{"", "b64", "qp"}', STYLES='{"", "set"}',
                                                         BOUNDARIES='{"", "fixed"}', PDESCS='{"", "plain"}', ROTS='0..5',
                                                         CCS='<<"crlf", "utf8", "dots", "oneline", "len76", "trailws", "eq", "from">>',
                                                         PRODS='<<"tpl", "string", "tpl", "writer">>', SRCS='<<"htpl", "embedfs", "tpl", "seeker">>',
                                                         OPSEQS='{<<"WriteTo", "WriteTo">>}')),
            ('shapes-3x2x2', 'MimeBuild', cfg(MAXP='3', MAXE='2', MAXA='2', ROTS='0..16', BOUNDARIES='{"", "fixed"}')),
            ('encodings', 'MimeBuild', cfg(MAXP='2', MAXE='2', MAXA='2', ENCS='{"qp", "b64", "8bit", "7bit"}', PENCS='{"", "qp", "b64", "8bit", "7bit"}',
                                          FENCS='{"", "b64", "8bit", "qp", "7bit"}', ROTS='{1, 4, 9, 13}')),
        ],
    },
}

def hdrsets(setters, vals):
    return '{' + ', '.join('<<[setter |-> "%s", val |-> "%s"]>>' % (s, v) for s in setters for v in vals) + '}'


# beyond the list (X02): messages with a PGP/MIME type - one flat multipart/encrypted or multipart/signed around all leaves
STAGES['X02'] = {
    'quick': [('pgp-types', 'MimeBuild', cfg(MAXP='2', MAXE='1', MAXA='2', ENCS='{"qp", "b64", "8bit"}', PGPS='{"encrypted", "signed"}', STYLES='{"", "set"}',
                                             BOUNDARIES='{"", "fixed"}', CCS='<<"crlf", "utf8", "bdry", "dots">>', OPSEQS='{<<"WriteTo", "WriteTo">>}'))],
    'thorough': [('pgp-types', 'MimeBuild', cfg(MAXP='3', MAXE='2', MAXA='2', ENCS='{"qp", "b64", "8bit", "7bit"}', PGPS='{"encrypted", "signed"}', STYLES='{"", "set"}',
                                                BOUNDARIES='{"", "fixed"}', ROTS='0..5', OPSEQS='{<<"WriteTo", "WriteTo">>, <<"Reader", "File">>}'))],
}


SINKFAULTS = '{[kind |-> "sink", slot |-> 0, when |-> ""], [kind |-> "short", slot |-> 0, when |-> ""], [kind |-> "shortnil", slot |-> 0, when |-> ""]}'
PRODFAULTS = '{[kind |-> "producer", slot |-> s, when |-> w] : s \\in 1..4, w \\in {"before", "after", "seek", "eof", "eofplain"}}'
INJ = ["crlf", "crlfcrlf", "lf", "cr", "nul", "ctl", "quotes", "encword", "badutf8", "utf8", "long", "token1000", "blanks", "tabs"]
SETTERS = ["subject", "gen", "org", "ua", "msgid", "fromname", "toname", "mdnname", "replyto", "hdr", "mdnadd", "envfrom"]
FIXEDSETTERS = ["bulk", "importance", "hdrpre"]
NAMECLS = '{"", "utf8", "path", "semi", "crlf", "nul", "quotes", "long", "dotted", "blanks", "ctlonly", "ctl"}'
DESCCLS = '{"", "plain", "utf8", "longutf8", "crlf", "lf", "nul", "long", "quotes"}'
LENS = '<<"size54", "size55", "size56", "size57", "size58", "size59", "size60", "size74", "size75", "size76", "size77", "size78", "size79", "size80", "size114", "size115", "size116", "size171", "size400", "size401", "size20000">>'

STAGES.update({
    'C12': {
        'quick': [
            ('sink-every-offset', 'MimeBuild', cfg(MAXP='2', MAXE='1', MAXA='1', ENCS='{"qp", "b64", "8bit", "7bit"}', FAULTS=SINKFAULTS,
                                                    CCS='<<"crlf", "utf8", "dots", "size300">>')),
            ('producers', 'MimeBuild', cfg(MAXP='2', MAXE='1', MAXA='2', ENCS='{"qp", "b64", "8bit"}', FAULTS=PRODFAULTS,
                                           FENCS='{"", "8bit"}', CCS='<<"crlf", "utf8", "size300">>')),
        ],
        'thorough': [
            ('sink-every-offset', 'MimeBuild', cfg(MAXP='3', MAXE='2', MAXA='2', ENCS='{"qp", "b64", "8bit"}', FAULTS=SINKFAULTS,
                                                    PENCS='{"", "b64"}', FENCS='{"", "8bit"}', CCS='<<"crlf", "utf8", "dots", "size300">>', ROTS='{0, 1}')),
            ('producers', 'MimeBuild', cfg(MAXP='3', MAXE='2', MAXA='2', ENCS='{"qp", "b64", "8bit"}',
                                           FAULTS='{[kind |-> "producer", slot |-> s, when |-> w] : s \\in 1..7, w \\in {"before", "after", "seek", "eof", "eofplain"}}',
                                           FENCS='{"", "8bit"}', CCS='<<"crlf", "utf8", "size300">>')),
        ],
    },
    'C11': {
        'quick': [
            ('histories-len2', 'MimeBuild', cfg(MAXP='2', MAXE='1', MAXA='1', ENCS='{"qp"}', FENCS='{"", "8bit"}',
                                                CCS='<<"crlf", "utf8", "size900">>', SRCS='<<"seeker", "reader", "file", "iofs", "tpl">>',
                                                OPSEQS='{<<a, b>> : a, b \\in {"WriteTo", "Write", "Reader", "UpdateReader", "File", "FileOver", "TempFile", "FailSinkMid", "SkipMw", "Sendmail"}}')),
            ('producer-outage', 'MimeBuild', cfg(MAXP='2', MAXE='1', MAXA='1', ENCS='{"qp"}', PRODS='<<"writer", "chunk7">>', SRCS='<<"seeker", "chunk57", "iofsflaky">>', ROTS='{0, 1, 2}',
                                                 CCS='<<"crlf", "size900">>',
                                                 OPSEQS='{<<a, "BreakSrc", b, "FixSrc", c>> : a \\in {"WriteTo", "Reader"}, b \\in {"WriteTo", "Reader", "UpdateReader", "File"}, c \\in {"WriteTo", "UpdateReader", "Reader", "TempFile"}}')),
            # failing sinks at several depths of the message, then renders; a Reader that is not drained before it is updated
            ('failed-render-positions', 'MimeBuild', cfg(MAXP='1', MAXE='1', MAXA='1', ENCS='{"qp"}', ROTS='{0, 1, 2}',
                                                CCS='<<"size900", "size2000", "crlf">>', SRCS='<<"seeker", "reader", "buffer">>',
                                                OPSEQS='{<<"WriteTo", a, "WriteTo", "Reader">> : a \\in {"FailSink25", "FailSinkMid", "FailSink75", "FailSink90", "FailSinkLate"}}'
                                                       ' \\cup {<<"WriteTo", a, "UpdateReader">> : a \\in {"ReaderHalf", "ReaderExact"}}')),
            ('histories-len3', 'MimeBuild', cfg(MAXP='2', MAXE='1', MAXA='1', ENCS='{"b64"}', ROTS='{2, 3}',
                                                CCS='<<"crlf", "utf8", "size900">>', SRCS='<<"seeker", "reader", "file", "iofs", "tpl", "readeroff">>',
                                                OPSEQS='{<<a, b, c>> : a \\in {"WriteTo", "FailSink", "Reader"}, b \\in {"FailSinkLate", "UpdateReader", "Write"}, c \\in {"WriteTo", "File", "UpdateReader"}}')),
        ],
        'thorough': [
            ('histories-len2', 'MimeBuild', cfg(MAXP='2', MAXE='2', MAXA='2', ENCS='{"qp", "8bit"}', FENCS='{"", "8bit", "b64"}', ROTS='{0, 1, 2}',
                                                CCS='<<"crlf", "utf8", "size900">>', SRCS='<<"seeker", "reader", "file", "iofs", "tpl", "chunk57">>',
                                                OPSEQS='{<<a, b>> : a, b \\in {"WriteTo", "Write", "Reader", "UpdateReader", "File", "FileOver", "TempFile", "FailSink", "FailSinkMid", "FailSinkLate", "SkipMw", "Sendmail"}}')),
            ('histories-len3-4', 'MimeBuild', cfg(MAXP='2', MAXE='1', MAXA='1', ENCS='{"b64"}', ROTS='{2, 3}',
                                                CCS='<<"crlf", "utf8", "size900">>', SRCS='<<"seeker", "reader", "file", "iofs", "tpl">>',
                                                OPSEQS='{<<a, b, c>> : a, b, c \\in {"WriteTo", "FailSinkMid", "Reader", "UpdateReader", "File"}} \\cup {<<a, b, c, d>> : a, c \\in {"WriteTo", "Reader"}, b, d \\in {"FailSinkLate", "UpdateReader", "TempFile"}}')),
        ],
    },
    'C18': {
        'quick': [
            ('header-values', 'MimeBuild', cfg(MAXP='1', MAXE='0', MAXA='1', ENCS='{"qp", "b64"}', CCS='<<"crlf">>',
                                               HDRS=hdrsets(["subject", "gen", "org", "fromname"], ["plain", "long", "token300", "token78", "token1000", "blanks", "trail", "tabs", "utf8", "words5", "words20", "words40", "words75", "words76", "words77"]
                                                            + ["dwords%d" % n for n in (1, 5, 20, 40, 56, 57, 58, 70, 71, 72, 75, 76, 80, 100)])
                                                    + ' \\cup ' + hdrsets(["preform"], ["plain", "multiline"])
                                                    + ' \\cup ' + hdrsets(["subject", "gen", "org"], ["cr", "lf", "crlf", "ctl", "nul"]))),
            ('body-lengths-chunkings', 'MimeBuild', cfg(MAXP='2', MAXE='1', MAXA='1', ENCS='{"qp", "b64"}', PENCS='{"", "b64"}', CCS=LENS, ROTS='0..20',
                                                        PRODS='<<"string", "chunk1", "chunk3", "chunk7", "chunk57", "chunk76", "chunkr", "writer", "chunk19", "chunk2">>',
                                                        SRCS='<<"seeker", "chunk1", "chunk3", "chunk57", "reader", "chunk7">>')),
            ('part-headers', 'MimeBuild', cfg(MAXP='2', MAXE='1', MAXA='1', ENCS='{"qp"}', CCS='<<"crlf">>', PDESCS='{"", "plain", "long", "utf8", "longutf8"}',
                                              FDESCS='{"", "long", "utf8", "longutf8"}', FNAMES='{"", "long", "utf8", "dotted"}')),
            # quoted-printable lines that start with "From " at the length limit
            ('qp-from-lines', 'MimeBuild', cfg(MAXP='2', MAXE='0', MAXA='1', ENCS='{"qp"}', FENCS='{"", "qp"}', CCS='<<"fromlong", "from", "len76">>', ROTS='{0, 1, 2}')),
            # the header sections of messages with a PGP/MIME type are generated by the library too
            ('pgp-types', 'MimeBuild', cfg(MAXP='2', MAXE='0', MAXA='1', ENCS='{"qp"}', CCS='<<"crlf">>', PGPS='{"encrypted", "signed"}', STYLES='{"", "set"}', BOUNDARIES='{"", "len42"}')),
            # boundaries of the caller of every length class: the multipart Content-Type field must stay foldable
            ('caller-boundary-lengths', 'MimeBuild', cfg(MAXP='2', MAXE='1', MAXA='1', ENCS='{"qp"}', CCS='<<"crlf">>', STYLES='{"", "set"}',
                                                         BOUNDARIES='{"len1", "len20", "len34", "len38", "len42", "len47", "len52", "len60", "len70"}')),
        ],
        'thorough': [
            ('header-values', 'MimeBuild', cfg(MAXP='2', MAXE='0', MAXA='1', ENCS='{"qp", "b64"}', CCS='<<"crlf">>',
                                               HDRS=hdrsets(SETTERS, ["plain", "long", "token300", "token78", "token1000", "blanks", "trail", "tabs", "utf8"] + ["words%d" % n for n in (1, 5, 20, 40, 60, 70, 74, 75, 76, 77, 78, 79, 80, 100)] + ["dwords%d" % n for n in range(1, 121)])
                                                    + ' \\cup ' + hdrsets(["preform"], ["plain", "multiline"]))),
            ('body-lengths-chunkings', 'MimeBuild', cfg(MAXP='2', MAXE='2', MAXA='2', ENCS='{"qp", "b64"}', PENCS='{"", "b64", "qp"}', CCS=LENS, ROTS='0..41',
                                                        PRODS='<<"string", "chunk1", "chunk3", "chunk7", "chunk57", "chunk76", "chunkr", "writer", "chunk19", "chunk2">>',
                                                        SRCS='<<"seeker", "chunk1", "chunk3", "chunk57", "reader", "chunk7">>')),
            ('part-headers', 'MimeBuild', cfg(MAXP='2', MAXE='1', MAXA='1', ENCS='{"qp", "b64"}', CCS='<<"crlf">>', PDESCS='{"", "plain", "long", "utf8", "blanks"}',
                                              FDESCS='{"", "long", "utf8", "blanks"}', FNAMES='{"", "long", "utf8", "dotted", "blanks"}')),
        ],
    },
    'C10': {
        'quick': [
            ('shapes', 'MimeBuild', cfg(MAXP='2', MAXE='1', MAXA='2', ENCS='{"qp", "b64", "8bit", "7bit"}', PENCS='{"", "b64"}', ROUNDTRIP='{TRUE}',
                                        CCS='<<"crlf", "utf8", "lf", "dots", "eq", "size300", "len76", "bin", "empty">>', ROTS='{0, 3}')),
            # files with a transfer encoding of their own (WithFileEncoding): unencoded 8bit / 7bit files come back byte for byte
            ('file-encodings', 'MimeBuild', cfg(MAXP='1', MAXE='1', MAXA='2', ENCS='{"qp", "b64"}', FENCS='{"", "8bit", "7bit"}', ROUNDTRIP='{TRUE}',
                                                CCS='<<"crlf", "oneline", "dots", "len76">>', ROTS='{0, 1}')),
            ('headers-and-names', 'MimeBuild', cfg(MAXP='1', MAXE='1', MAXA='1', ENCS='{"qp"}', ROUNDTRIP='{TRUE}', CCS='<<"crlf", "utf8">>',
                                                   HDRS=hdrsets(["subject", "fromname", "toname", "cc"], ["plain", "utf8", "long", "quotes", "blanks", "dwords20"]),
                                                   FNAMES='{"", "utf8", "semi", "blanks", "dotted", "longutf8"}')),
            # attachments that carry a Content-ID stay attachments; the importance fields (which the parser carries over) come back once each
            ('content-ids-and-importance', 'MimeBuild', cfg(MAXP='1', MAXE='1', MAXA='2', ENCS='{"qp", "b64"}', ROUNDTRIP='{TRUE}', CCS='<<"crlf", "utf8">>',
                                                            HDRS='{<<>>} \\cup ' + hdrsets(["importance"], ["plain", "utf8", "long", "blanks"]), FCIDS='{"", "plain"}', FNAMES='{"", "utf8"}')),
        ],
        'thorough': [
            ('shapes', 'MimeBuild', cfg(MAXP='3', MAXE='2', MAXA='2', ENCS='{"qp", "b64", "8bit"}', PENCS='{"", "b64", "qp", "8bit"}', FENCS='{"", "8bit"}',
                                        ROUNDTRIP='{TRUE}', CCS='<<"crlf", "utf8", "lf", "dots", "eq", "size300", "len76", "bin", "trailws", "from", "empty">>', ROTS='0..10')),
            ('headers-and-names', 'MimeBuild', cfg(MAXP='2', MAXE='1', MAXA='2', ENCS='{"qp", "b64"}', ROUNDTRIP='{TRUE}', CCS='<<"crlf", "utf8">>',
                                                   HDRS=hdrsets(["subject", "fromname", "toname", "cc"], ["plain", "utf8", "long", "quotes", "blanks", "token300"]),
                                                   FNAMES='{"", "utf8", "semi", "blanks", "dotted", "long", "longutf8"}')),
        ],
    },
    'C02': {
        'quick': [
            ('header-setters', 'MimeBuild', cfg(MAXP='1', MAXE='0', MAXA='0', ENCS='{"qp", "b64", "8bit", "7bit"}', CCS='<<"crlf">>', HDRS=hdrsets(SETTERS, INJ))),
            # two files in a list, the first with a description / content-id of its own: nothing of it shows up in the second
            ('two-files-one-description', 'MimeBuild', cfg(MAXP='1', MAXE='2', MAXA='2', ENCS='{"qp"}', CCS='<<"crlf">>', FDESCS='{"plain", "utf8"}', FCIDS='{"", "plain"}', ROTS='{0, 1}')),
            ('fixed-value-setters', 'MimeBuild', cfg(MAXP='1', MAXE='0', MAXA='1', ENCS='{"qp"}', CCS='<<"crlf">>', STYLES='{"", "set"}',
                                                     HDRS=hdrsets(FIXEDSETTERS, ["plain", "utf8", "long", "blanks", "tabs"]))),
            ('part-and-file-options', 'MimeBuild', cfg(MAXP='2', MAXE='1', MAXA='1', ENCS='{"qp", "b64"}', CCS='<<"crlf">>', PDESCS=DESCCLS)),
            ('file-options', 'MimeBuild', cfg(MAXP='1', MAXE='1', MAXA='1', ENCS='{"qp", "b64"}', CCS='<<"crlf">>', FDESCS=DESCCLS, FNAMES='{"", "crlf", "path"}',
                                              FCIDS='{"", "plain", "crlf"}')),
            ('file-names', 'MimeBuild', cfg(MAXP='1', MAXE='1', MAXA='1', ENCS='{"qp", "b64"}', CCS='<<"crlf">>', FNAMES=NAMECLS, FCIDS='{"", "nul", "quotes", "utf8"}')),
            ('single-file-no-body', 'MimeBuild', cfg(MAXP='0', MAXE='1', MAXA='1', ENCS='{"qp", "b64"}', CCS='<<"crlf">>', FDESCS=DESCCLS, FNAMES=NAMECLS)),
        ],
        'thorough': [
            ('header-setters-pairs', 'MimeBuild', cfg(MAXP='2', MAXE='0', MAXA='1', ENCS='{"qp", "b64"}', CCS='<<"crlf">>',
                HDRS='{<<[setter |-> s1, val |-> v1], [setter |-> s2, val |-> v2]>> : s1 \\in {"subject", "gen", "fromname"}, s2 \\in {"org", "ua", "msgid", "toname", "mdnname"}, v1, v2 \\in {%s}}' % ', '.join('"%s"' % v for v in INJ))),
            ('options-product', 'MimeBuild', cfg(MAXP='2', MAXE='1', MAXA='1', ENCS='{"qp", "b64"}', CCS='<<"crlf">>', PDESCS=DESCCLS, FDESCS=DESCCLS,
                                                 FNAMES=NAMECLS, FCIDS='{"", "plain", "crlf", "nul", "quotes", "utf8"}')),
        ],
    },
})


NODEV = dict(DEV_CountUnwritten='FALSE', DEV_FoldTopLeaf='FALSE', DEV_NoReset='FALSE', DEV_NoResetOnError='FALSE',
             DEV_FreshInnerBoundary='FALSE', DEV_CountSignaturePart='FALSE', DEV_SkipUnsigned='FALSE')


def scfg(**kw):
    c = cfg(OPSEQS='{<<"WriteTo", "WriteTo">>}', CCS='<<"crlf", "utf8", "dots", "eq", "trailws", "size300">>')
    c.update(NODEV)
    c.update(kw)
    return c


KEYS4 = '{[key |-> k, inter |-> i] : k \\in {"rsa", "ecdsa", "rsa384", "ecdsa384", "ecdsaserial"}, i \\in BOOLEAN}'
KEYS2 = '{[key |-> "rsa", inter |-> TRUE], [key |-> "ecdsa", inter |-> FALSE]}'
KEYS2B = '{[key |-> "rsa", inter |-> FALSE], [key |-> "ecdsa", inter |-> TRUE]}'
SINVS = ['Verifies', 'CounterClean', 'OneSignature', 'TypeOK', 'SEmit']
INVS_BY_BASE = {'Smime': SINVS, 'MsgCalls': ['IdsUnique', 'LeafIdsAreCalls', 'TreeWellFormed', 'Emit']}
SPEC_BY_BASE = {'Smime': 'SSpec'}
# C18 also validates the calls of the base64 line breaker (build-tag hook) against B64Line.tla
REPLAY_ENV = {'C18': {'VERIF_B64': '1'}}
SENS_INVS = ['Verifies', 'CounterClean']
SENS_INVS_BY_BASE = {'B64Line': ['NeverTooLong']}
SHDR = ["genempty", "genmulti", "toignore", "ccignore", "ccsome", "preform", "subject", "gen", "fromname", "envonly", "genmultiempty"]
STAGES['C08'] = {
    'quick': [
        ('shapes-keys-inter', 'Smime', scfg(MAXP='2', MAXE='1', MAXA='1', SMIMES=KEYS4, ROTS='{0, 3}', BOUNDARIES='{"", "fixed"}')),
        # a middleware of the caller changes what is rendered: the signature must cover the message as the middleware left it
        ('middlewares', 'Smime', scfg(MAXP='2', MAXE='1', MAXA='1', ENCS='{"qp"}', SMIMES=KEYS2, MWS='{"attach", "body"}', CCS='<<"crlf", "utf8">>')),
        ('encodings', 'Smime', scfg(MAXP='2', MAXE='1', MAXA='1', ENCS='{"qp"}', PENCS='{"", "b64", "8bit"}', FENCS='{"", "8bit", "qp"}',
                                     SMIMES=KEYS2, CCS='<<"crlf", "utf8", "dots", "eq">>')),
        ('headers', 'Smime', scfg(MAXP='2', MAXE='0', MAXA='1', ENCS='{"qp"}', SMIMES=KEYS2B,
                                   HDRS=hdrsets(SHDR, ["plain", "long", "multiline", "lffold"]))),
        ('descriptions-names', 'Smime', scfg(MAXP='2', MAXE='1', MAXA='1', ENCS='{"qp", "b64"}', SMIMES=KEYS2,
                                              PDESCS='{"", "plain", "long", "utf8"}', FDESCS='{"", "long", "utf8"}', FNAMES='{"", "long", "utf8"}')),
        # the message grows between two signed renders: the signature part of the earlier render must not survive
        ('grows-between-renders', 'Smime', scfg(MAXP='2', MAXE='1', MAXA='1', ENCS='{"qp"}', SMIMES=KEYS2B,
                                                 OPSEQS='{<<"WriteTo", "AddAlt", "WriteTo">>, <<"Reader", "AddAlt", "File", "AddAlt", "WriteTo">>, <<"AddAlt", "WriteTo", "WriteTo">>}')),
        # a file option of the caller gives the file a header field with two values (File.Header is public)
        ('file-header-of-the-caller', 'Smime', scfg(MAXP='1', MAXE='1', MAXA='1', ENCS='{"qp"}', SMIMES=KEYS2, FDESCS='{"twotags"}', CCS='<<"crlf", "size300">>')),
        # files handed over as readers that are not at their start
        ('reader-at-offset', 'Smime', scfg(MAXP='1', MAXE='1', MAXA='1', ENCS='{"qp"}', SMIMES=KEYS2, SRCS='<<"readeroff", "reader">>', CCS='<<"crlf", "size300">>', ROTS='{0, 1}')),
        ('histories', 'Smime', scfg(MAXP='2', MAXE='1', MAXA='1', ENCS='{"qp"}', SMIMES=KEYS2B,
                                     OPSEQS='{<<a, b, c>> : a \\in {"WriteTo", "Reader", "FailSinkLate", "SkipMw"}, b \\in {"Write", "File", "FailSinkMid", "UpdateReader", "SkipMw", "Sendmail"}, c \\in {"WriteTo", "TempFile", "SkipMw"}}')),
    ],
    'thorough': [
        ('shapes-keys-inter', 'Smime', scfg(MAXP='3', MAXE='2', MAXA='2', SMIMES=KEYS4, ROTS='{0, 1, 2, 3}', BOUNDARIES='{"", "fixed"}')),
        ('encodings', 'Smime', scfg(MAXP='2', MAXE='2', MAXA='2', PENCS='{"", "qp", "b64", "8bit"}', FENCS='{"", "b64", "8bit", "qp"}',
                                     SMIMES=KEYS2, CCS='<<"crlf", "utf8", "dots", "eq">>')),
        ('headers-pairs', 'Smime', scfg(MAXP='2', MAXE='1', MAXA='1', ENCS='{"qp", "b64"}', SMIMES=KEYS2B,
                                         HDRS='{<<[setter |-> s1, val |-> v1], [setter |-> s2, val |-> v2]>> : s1, s2 \\in {%s}, v1, v2 \\in {"plain", "long", "multiline", "lffold"}}' % ', '.join('"%s"' % x for x in SHDR))),
        ('descriptions-names', 'Smime', scfg(MAXP='2', MAXE='1', MAXA='1', ENCS='{"qp", "b64", "8bit"}', SMIMES=KEYS4,
                                              PDESCS='{"", "plain", "long", "utf8", "blanks"}', FDESCS='{"", "long", "utf8", "blanks"}', FNAMES='{"", "long", "utf8", "blanks", "dotted"}')),
        ('histories', 'Smime', scfg(MAXP='2', MAXE='1', MAXA='1', ENCS='{"qp", "b64"}', SMIMES=KEYS2B,
                                     OPSEQS='{<<a, b, c, d>> : a, c \\in {"WriteTo", "Reader", "FailSinkLate", "FailSink"}, b, d \\in {"Write", "File", "FailSinkMid", "UpdateReader", "TempFile", "SkipMw", "Sendmail"}}')),
    ],
}
SDEV = dict(MAXP='2', MAXE='1', MAXA='1', ENCS='{"qp"}', SMIMES='{[key |-> "rsa", inter |-> FALSE]}',
            HDRS=hdrsets(["genempty", "subject"], ["plain"]), PDESCS='{"", "long"}',
            OPSEQS='{<<"WriteTo", "WriteTo">>, <<"FailSinkLate", "WriteTo">>, <<"SkipMw", "WriteTo">>}')
B64 = dict(SIZES='{1, 2, 3, 4, 56, 57, 72, 75, 76, 77, 80, 152, 153, 1024}', MAXCALLS='4', DEV_OffByOne='FALSE')
# unbounded argument (any number of Write calls of any sizes): inductive invariant of spec/B64LineInd.tla with Apalache
EXTERNAL = {('C18', 'thorough'): [('line-breaker-inductive', 'bin/apalache-b64')]}
DESIGN_ONLY = {'C18': [('line-breaker', 'B64Line', B64, ['FullLines', 'NeverTooLong', 'Conserves', 'Complete'])]}
SENSITIVITY = {'C18': [('DEV_OffByOne', 'B64Line', dict(B64, DEV_OffByOne='TRUE'), 'NeverTooLong')],
               'C08': [(d, 'Smime', scfg(**dict(SDEV, **{d: 'TRUE'})), 'CounterClean' if d in ('DEV_NoReset', 'DEV_NoResetOnError') else 'Verifies')
                       for d in ['DEV_CountUnwritten', 'DEV_FoldTopLeaf', 'DEV_NoReset', 'DEV_NoResetOnError',
                                 'DEV_FreshInnerBoundary', 'DEV_CountSignaturePart', 'DEV_SkipUnsigned']]}


ALLCALLS = '{"SetBodyP", "SetBodyH", "AddAltP", "AddAltH", "Del1", "Del2", "Embed", "Attach", "UnsetAtt", "UnsetEmb", "UnsetParts", "DropFirstAtt", "DropFirstEmb", "RevAtt", "Handover"}'
CORECALLS = '{"SetBodyP", "AddAltH", "Del1", "Embed", "Attach", "UnsetAtt", "RevAtt", "Handover"}'
# sequences of builder calls (MsgCalls.tla): the calls are executed on a real Msg, the expectation is the specification's final state
STAGES['C01']['quick'] += [('call-sequences-len3', 'MsgCalls', dict(MAXCALLS='3', CALLS=ALLCALLS, ENCS='{"qp"}')),
                           ('call-sequences-len4-core', 'MsgCalls', dict(MAXCALLS='4', CALLS=CORECALLS, ENCS='{"b64"}'))]
STAGES['C01']['thorough'] += [('call-sequences-len4', 'MsgCalls', dict(MAXCALLS='4', CALLS=ALLCALLS, ENCS='{"qp"}')),
                              ('call-sequences-len5-core', 'MsgCalls', dict(MAXCALLS='5', CALLS=CORECALLS, ENCS='{"qp", "b64"}'))]
# failing producers and sinks of S/MIME signed messages (the message is rendered twice per WriteTo)
STAGES['C12']['quick'].append(
    ('signed-producers-and-sinks', 'MimeBuild', cfg(MAXP='2', MAXE='1', MAXA='1', ENCS='{"qp", "8bit"}', SMIMES='{[key |-> "ecdsa", inter |-> FALSE]}',
                                                    FAULTS=PRODFAULTS + ' \\cup {[kind |-> "sink", slot |-> 0, when |-> ""]}', CCS='<<"crlf", "utf8">>')))
# destinations that are files of the operating system which cannot take the message (read-only handle, closed handle, /dev/full)
STAGES['C12']['quick'].append(
    ('os-file-destinations', 'MimeBuild', cfg(MAXP='2', MAXE='1', MAXA='1', ENCS='{"qp", "8bit"}', SMIMES='{[key |-> "", inter |-> FALSE], [key |-> "ecdsa", inter |-> FALSE]}',
                                              FAULTS='{[kind |-> "osfile", slot |-> 0, when |-> ""]}', CCS='<<"crlf", "size900">>')))
# a destination that takes every byte of a write call and reports an error all the same (io.Writer allows (len(p), err))
STAGES['C12']['quick'].append(
    ('complete-writes-with-error', 'MimeBuild', cfg(MAXP='2', MAXE='1', MAXA='1', ENCS='{"qp", "8bit"}', FAULTS='{[kind |-> "fullerr", slot |-> 0, when |-> ""]}', CCS='<<"crlf", "utf8">>')))
# a producer that fails ONCE (its first invocation) and works afterwards: an unsigned message calls it once, a signed message calls it in the
# signing render first - whichever render the failure hits, WriteTo must report it
STAGES['C12']['quick'].append(
    ('transient-producer-failure', 'MimeBuild', cfg(MAXP='2', MAXE='1', MAXA='1', ENCS='{"qp", "8bit"}', SMIMES='{[key |-> "", inter |-> FALSE], [key |-> "ecdsa", inter |-> FALSE]}',
                                                    PRODS='<<"writer", "chunk7", "string">>', FAULTS='{[kind |-> "producer", slot |-> s, when |-> "first"] : s \\in 1..4}', CCS='<<"crlf", "utf8", "size300">>')))
# bodies far larger than any copy buffer (40 KB), written straight to the destination (single part / single file) or through a multipart
STAGES['C12']['quick'].append(
    ('large-bodies', 'MimeBuild', cfg(MAXP='1', MAXE='0', MAXA='1', ENCS='{"qp", "8bit"}', FENCS='{"", "8bit"}', FAULTS='{[kind |-> "sink", slot |-> 0, when |-> ""]}', CCS='<<"size40000">>')))
# a boundary of the caller (and every signed message) makes the writer call multipart.Writer.SetBoundary: the step that
# used to erase a pending error (fix 0642c98); short writes fail ONE call and accept the rest, which is what shows it
STAGES['C12']['quick'].append(
    ('given-boundary-sink-faults', 'MimeBuild', cfg(MAXP='2', MAXE='1', MAXA='1', ENCS='{"qp", "8bit"}', BOUNDARIES='{"fixed"}', FAULTS=SINKFAULTS, CCS='<<"crlf", "utf8">>')))
STAGES['C12']['quick'].append(
    ('signed-short-writes', 'MimeBuild', cfg(MAXP='1', MAXE='1', MAXA='1', ENCS='{"qp", "8bit"}', SMIMES='{[key |-> "ecdsa", inter |-> FALSE]}',
                                             FAULTS='{[kind |-> "short", slot |-> 0, when |-> ""], [kind |-> "shortnil", slot |-> 0, when |-> ""]}', CCS='<<"crlf">>')))
STAGES['C12']['thorough'].append(
    ('given-boundary-sink-faults', 'MimeBuild', cfg(MAXP='2', MAXE='2', MAXA='2', ENCS='{"qp", "b64", "8bit"}', BOUNDARIES='{"fixed"}', FAULTS=SINKFAULTS, CCS='<<"crlf", "utf8", "size300">>')))
STAGES['C12']['thorough'].append(
    ('signed-producers-and-sinks', 'MimeBuild', cfg(MAXP='2', MAXE='2', MAXA='2', ENCS='{"qp", "b64", "8bit"}', SMIMES=KEYS2,
                                                    FAULTS=PRODFAULTS + ' \\cup ' + SINKFAULTS, CCS='<<"crlf", "utf8">>')))
STAGES['C02']['quick'].append(
    ('signed-file-options', 'MimeBuild', cfg(MAXP='1', MAXE='1', MAXA='1', ENCS='{"qp", "b64"}', CCS='<<"crlf">>', SMIMES='{[key |-> "ecdsa", inter |-> FALSE]}',
                                              FDESCS='{"", "utf8", "crlf"}', FNAMES='{"", "utf8", "quotes"}', PDESCS='{"", "utf8"}')))
STAGES['C02']['thorough'].append(
    ('signed-options-product', 'MimeBuild', cfg(MAXP='2', MAXE='1', MAXA='1', ENCS='{"qp", "b64"}', CCS='<<"crlf">>', SMIMES='{[key |-> "ecdsa", inter |-> FALSE]}',
                                                 PDESCS=DESCCLS, FDESCS=DESCCLS, FNAMES=NAMECLS, HDRS=hdrsets(["subject", "fromname"], ["utf8", "crlf", "long"]))))
STAGES['C11']['quick'].append(
    ('signed-histories', 'MimeBuild', cfg(MAXP='2', MAXE='1', MAXA='1', ENCS='{"qp"}', SMIMES=KEYS2, CCS='<<"crlf", "utf8", "size900">>',
                                           OPSEQS='{<<a, b, c>> : a \\in {"WriteTo", "Reader", "FailSinkLate", "FailSinkMid", "SkipMw"}, b \\in {"Write", "File", "FailSinkLate", "UpdateReader", "SkipMw", "Sendmail"}, c \\in {"WriteTo", "TempFile", "SkipMw"}}')))
# a Reader whose first bytes are taken with Read and the rest with io.Copy; messages with a PGP/MIME type and a boundary of the caller, rendered repeatedly
STAGES['C11']['quick'].append(
    ('reader-sniff-then-copy', 'MimeBuild', cfg(MAXP='2', MAXE='1', MAXA='1', ENCS='{"qp"}', CCS='<<"crlf", "size900", "size6000">>', ROTS='{0, 1}',
                                                OPSEQS='{<<"WriteTo", "ReaderCopy">>, <<"ReaderCopy", "ReaderCopy", "WriteTo">>, <<"Reader", "ReaderCopy">>}')))
STAGES['C11']['quick'].append(
    ('pgp-types-rerender', 'MimeBuild', cfg(MAXP='2', MAXE='0', MAXA='1', ENCS='{"qp"}', CCS='<<"crlf">>', PGPS='{"encrypted", "signed"}', BOUNDARIES='{"fixed"}', STYLES='{"", "set"}',
                                            OPSEQS='{<<"WriteTo", "WriteTo", "Reader", "TempFile", "WriteTo", "WriteTo">>}')))
# header programs whose stored values a render must not touch (several values, one of them empty; no From address)
STAGES['C11']['quick'].append(
    ('header-programs', 'MimeBuild', cfg(MAXP='1', MAXE='0', MAXA='1', ENCS='{"qp"}', CCS='<<"crlf">>', HDRS=hdrsets(["genmultiempty", "genmulti", "envonly", "ccsome"], ["plain", "long"]),
                                         OPSEQS='{<<"WriteTo", "WriteTo">>, <<"Reader", "File", "WriteTo">>}')))
# a producer outage while a SIGNED message is rendered, then renders after the source is back
STAGES['C11']['quick'].append(
    ('signed-producer-outage', 'MimeBuild', cfg(MAXP='2', MAXE='0', MAXA='1', ENCS='{"qp"}', SMIMES=KEYS2, PRODS='<<"writer", "chunk7">>', SRCS='<<"seeker", "iofsflaky">>', ROTS='{0, 1}',
                                                CCS='<<"crlf", "size900">>',
                                                OPSEQS='{<<a, "BreakSrc", b, "FixSrc", c, d>> : a \\in {"WriteTo", "Reader"}, b \\in {"WriteTo", "File"}, c \\in {"WriteTo", "TempFile"}, d \\in {"WriteTo", "Reader"}}')))
# files handed over as a seekable reader that is not at its start: every render carries what was ahead of the reader at that moment
STAGES['C11']['quick'].append(
    ('reader-at-offset', 'MimeBuild', cfg(MAXP='1', MAXE='1', MAXA='1', ENCS='{"qp"}', SRCS='<<"readeroff">>', CCS='<<"crlf", "size900">>',
                                          SMIMES='{[key |-> "", inter |-> FALSE], [key |-> "ecdsa", inter |-> FALSE]}',
                                          OPSEQS='{<<"WriteTo", "WriteTo">>, <<"Reader", "File", "WriteTo">>}')))
# a message created (and sent) by mail.QuickSend: what is rendered afterwards equals what went over the wire
STAGES['C11']['quick'].append(
    ('made-by-quicksend', 'MimeBuild', cfg(MAXP='1', MAXE='0', MAXA='0', ENCS='{"qp"}', STYLES='{"quicksend"}', CCS='<<"crlf", "utf8", "dots", "size900", "lf", "eq", "long">>', ROTS='0..6',
                                           OPSEQS='{<<"WriteTo", "WriteTo">>, <<"Reader", "File">>, <<"TempFile", "UpdateReader", "Write">>}')))
STAGES['C11']['thorough'].append(
    ('made-by-quicksend', 'MimeBuild', cfg(MAXP='1', MAXE='0', MAXA='0', ENCS='{"qp"}', STYLES='{"quicksend"}', CCS=TEXTCC, ROTS='0..16',
                                           OPSEQS='{<<a, b>> : a, b \\in {"WriteTo", "Reader", "File", "TempFile", "UpdateReader", "FailSinkMid"}}')))
# two middlewares of the caller; WriteToSkipMiddleware leaves the first out of ONE render: the renders before and after are unchanged
STAGES['C11']['quick'].append(
    ('middleware-pair-skip', 'MimeBuild', cfg(MAXP='2', MAXE='0', MAXA='1', ENCS='{"qp"}', MWS='{"pair"}', SMIMES='{[key |-> "", inter |-> FALSE], [key |-> "ecdsa", inter |-> FALSE]}',
                                               CCS='<<"crlf", "utf8">>',
                                               OPSEQS='{<<a, b, c>> : a \\in {"WriteTo", "SkipMw", "Reader"}, b \\in {"SkipMw", "File", "FailSinkMid"}, c \\in {"WriteTo", "SkipMw", "TempFile"}}')))
STAGES['C11']['thorough'].append(
    ('middleware-pair-skip', 'MimeBuild', cfg(MAXP='2', MAXE='1', MAXA='1', ENCS='{"qp", "b64"}', MWS='{"pair"}', SMIMES='{[key |-> "", inter |-> FALSE], [key |-> "ecdsa", inter |-> FALSE]}',
                                               CCS='<<"crlf", "utf8">>',
                                               OPSEQS='{<<a, b, c, d>> : a, c \\in {"WriteTo", "SkipMw", "Reader"}, b, d \\in {"SkipMw", "File", "FailSinkMid", "WriteTo"}}')))
STAGES['C11']['thorough'].append(
    ('signed-histories', 'MimeBuild', cfg(MAXP='2', MAXE='1', MAXA='2', ENCS='{"qp", "b64"}', SMIMES=KEYS2, CCS='<<"crlf", "utf8", "size900">>',
                                           OPSEQS='{<<a, b, c, d>> : a, c \\in {"WriteTo", "Reader", "FailSinkLate", "FailSinkMid", "FailSink"}, b, d \\in {"Write", "File", "FailSinkLate", "UpdateReader", "TempFile", "SkipMw", "Sendmail"}}')))


# charsets other than UTF-8: a message in ISO-8859-1 (the caller's header texts, descriptions and file names are ISO-8859-1 octets and
# are labelled so), parts with a charset that differs from the message's (their descriptions are header text of the MESSAGE)
STAGES['C01']['quick'].append(
    ('charsets', 'MimeBuild', cfg(MAXP='2', MAXE='1', MAXA='1', ENCS='{"qp", "b64"}', CHARSETS='{"", "latin1"}', PCHARSETS='{"", "latin1", "utf8"}', STYLES='{"", "set"}',
                                  FNAMES='{"", "utf8", "longutf8"}', PDESCS='{"", "utf8"}', FDESCS='{"", "utf8"}', CCS='<<"utf8", "crlf", "bin">>')))
STAGES['C01']['thorough'].append(
    ('charsets', 'MimeBuild', cfg(MAXP='3', MAXE='2', MAXA='2', ENCS='{"qp", "b64", "8bit"}', CHARSETS='{"", "latin1"}', PCHARSETS='{"", "latin1", "utf8"}', STYLES='{"", "set"}',
                                  FNAMES='{"", "utf8", "longutf8", "path"}', PDESCS='{"", "utf8"}', FDESCS='{"", "utf8"}', CCS='<<"utf8", "crlf", "bin">>')))
STAGES['C02']['quick'].append(
    ('charsets-header-setters', 'MimeBuild', cfg(MAXP='1', MAXE='0', MAXA='0', ENCS='{"qp", "b64", "8bit"}', CCS='<<"crlf">>', CHARSETS='{"latin1"}', STYLES='{"", "set"}',
                                                 HDRS=hdrsets(["subject", "gen", "org", "ua", "hdr", "fromname", "toname"], ["utf8", "long", "badutf8", "crlf", "encword", "blanks", "quotes", "nul"]))))
STAGES['C02']['quick'].append(
    ('charsets-options', 'MimeBuild', cfg(MAXP='2', MAXE='1', MAXA='1', ENCS='{"qp", "b64"}', CCS='<<"crlf">>', CHARSETS='{"", "latin1"}', PCHARSETS='{"", "latin1", "utf8"}',
                                          PDESCS='{"", "utf8", "longutf8", "crlf"}', FDESCS='{"", "utf8"}', FNAMES='{"", "utf8", "path"}')))
STAGES['C02']['thorough'].append(
    ('charsets-options', 'MimeBuild', cfg(MAXP='2', MAXE='1', MAXA='1', ENCS='{"qp", "b64", "8bit"}', CCS='<<"crlf">>', CHARSETS='{"", "latin1"}', PCHARSETS='{"", "latin1", "utf8"}', STYLES='{"", "set"}',
                                          PDESCS=DESCCLS, FDESCS='{"", "utf8", "longutf8", "crlf"}', FNAMES=NAMECLS)))
STAGES['C18']['quick'].append(
    ('charsets', 'MimeBuild', cfg(MAXP='2', MAXE='0', MAXA='1', ENCS='{"qp", "b64"}', CCS='<<"crlf">>', CHARSETS='{"latin1"}', PCHARSETS='{"", "utf8"}',
                                  HDRS=hdrsets(["subject", "gen"], ["utf8", "long", "words20", "dwords40", "blanks"]), PDESCS='{"", "longutf8"}', FNAMES='{"", "longutf8"}')))
# a message that was parsed from its own rendering and is rendered again (a reply in a thread: long References): the library generates that output too
STAGES['C18']['quick'].append(
    ('rerendered-after-parsing', 'MimeBuild', cfg(MAXP='2', MAXE='0', MAXA='1', ENCS='{"qp", "b64"}', CCS='<<"crlf", "len76">>', ROUNDTRIP='{TRUE}',
                                                  HDRS=hdrsets(["refs", "subject"], ["plain", "long", "words20"]))))
STAGES['C08']['quick'].append(
    ('charsets', 'Smime', scfg(MAXP='2', MAXE='0', MAXA='1', ENCS='{"qp"}', SMIMES=KEYS2, CHARSETS='{"latin1"}', PCHARSETS='{"", "utf8"}',
                               HDRS=hdrsets(["subject"], ["utf8", "long"]), PDESCS='{"", "utf8"}', FNAMES='{"", "longutf8"}', CCS='<<"crlf", "utf8">>')))


def facts(begin):
    p = begin['prog']
    np, ne, na = len(p['parts']), len(p['embeds']), len(p['atts'])
    f = {'np': np, 'ne': ne, 'na': na, 'enc': p['enc'], 'boundary': p['boundary'],
         'no_body': np == 0, 'single_leaf': np + ne + na <= 1,
         'nested_multiparts': (1 if np > 1 else 0) + (1 if ne >= 1 and np + ne > 1 else 0) + (1 if na >= 1 and np + ne + na > 1 else 0) >= 2,
         'fault': (begin.get('fault') or {}).get('kind', 'none'), 'signed': bool(begin.get('signed')),
         'key': (p.get('smime') or {}).get('key', ''), 'pgp': p.get('pgp', ''), 'has_pgp': bool(p.get('pgp')),
         'cs': p.get('cs', ''), 'pcs': p.get('pcs', '')}
    longish = ('long', 'utf8', 'longutf8', 'blanks', 'quotes', 'semi', 'token1000', 'encword')
    for s in p['embeds'] + p['atts']:
        if s['name'] in longish or s['desc'] in longish:
            f['long_part_header_value'] = True
        if s['enc'] not in ('', 'b64'):
            f['file_enc_nondefault'] = True
        if s['desc']:
            f['file_desc'] = True
        if s['name'] not in ('', 'none'):
            f['file_name_set'] = True
        if s['cid']:
            f['file_cid:' + s['cid']] = True
    for s in p['parts']:
        if s['desc'] in longish:
            f['long_part_header_value'] = True
        if s['desc']:
            f['part_desc'] = True
            f['part_desc:' + s['desc']] = True
    for h in p.get('hdrs') or []:
        f['hdr:%s:%s' % (h['setter'], h['val'])] = True
        f['val:' + h['val']] = True
    if any(s['cid'] in ('crlf', 'nul', 'ctl', 'lf', 'cr') for s in p['embeds'] + p['atts']):   # (WithFileContentID works for attachments too)
        f['cid_with_control'] = True
    if len(begin.get('ops') or []) > 1:
        f['rerender'] = True
    return f


def signature(begin):
    p = begin['prog']
    return {'shape': [len(p['parts']), len(p['embeds']), len(p['atts'])], 'enc': p['enc'],
            'fault': (begin.get('fault') or {}).get('kind', 'none'), 'ops': begin.get('ops'),
            'smime': (p.get('smime') or {}).get('key', ''), 'setters': sorted(h['setter'] for h in p.get('hdrs') or [])}


RULE = ('every builder program of the bounded design model (counts of parts / embeds / attachments, encodings per message, '
        'part and file, boundary mode, operation sequence, fault) is one scenario; content classes, producers and file '
        'sources are assigned to the slots by a rotating covering assignment and concretised with the seed; non-trivial = '
        'at least one leaf; distinct by program')


def casekey(begin):
    return json.dumps([begin['prog'], begin.get('ops'), begin.get('fault')], sort_keys=True)


def sample(tr):
    b = tr[0][0]
    evs = [e for e, _ in tr[1:] if e['ev'] != 'line'][:12]
    lines = [e for e, _ in tr[1:] if e['ev'] == 'line'][:8]
    return dict(scenario=b.get('scn'), prog=b['prog'], ops=b.get('ops'), fault=b.get('fault'), events=evs, first_lines=lines)


def nontrivial(begin):
    p = begin['prog']
    return len(p['parts']) + len(p['embeds']) + len(p['atts']) >= 1


def _find(evs, pred, start=0):
    for i in range(start, len(evs)):
        if pred(evs[i]):
            return i
    return -1


def mut_leaf_differs(evs):
    i = _find(evs, lambda e: e['ev'] == 'leaf' and e['eq'])
    if i < 0:
        return None
    evs[i]['eq'] = False
    return evs


def mut_drop_close(evs):
    # remove a close-delimiter line: the multipart stays open
    i = _find(evs, lambda e: e['ev'] == 'line' and e['dd'] and e['close'])
    if i < 0:
        return None
    return evs[:i] + evs[i + 1:]


def mut_swap_tree(evs):
    i = _find(evs, lambda e: e['ev'] == 'tree' and e['tree'].get('mp') and len(e['tree']['kids']) >= 2)
    if i < 0:
        return None
    k = evs[i]['tree']['kids']
    evs[i]['tree']['mp'] = 'alternative' if evs[i]['tree']['mp'] != 'alternative' else 'mixed'
    return evs


def mut_leaf_attr(evs):
    i = _find(evs, lambda e: e['ev'] == 'tree')
    if i < 0:
        return None

    def first_leaf(n):
        if not n.get('mp'):
            return n
        for k in n['kids']:
            r = first_leaf(k)
            if r:
                return r
    lf = first_leaf(evs[i]['tree'])
    if not lf:
        return None
    lf['cte'] = 'binary'
    return evs


def mut_inner_delim(evs):
    # insert a delimiter of the outer multipart inside the open inner one
    outs = [k for k, e in enumerate(evs) if e['ev'] == 'line' and e['bparam']]
    if len(outs) < 2:
        return None
    outer = evs[outs[0]]['bparam']
    j = _find(evs, lambda e: e['ev'] == 'line' and e['dd'] and e['tok'] == evs[outs[1]]['bparam'] and not e['close'])
    if j < 0 or outer == evs[outs[1]]['bparam']:
        return None
    extra = dict(evs[j])
    extra['tok'] = outer
    k = _find(evs, lambda e: e['ev'] == 'line' and e['len'] == 0, j)   # end of that part's header section
    if k < 0:
        return None
    return evs[:k + 1] + [extra] + evs[k + 1:]


def _mut_out(evs, pred, **kv):
    i = _find(evs, lambda e: e['ev'] == 'out' and pred(e))
    if i < 0:
        return None
    evs[i].update(kv)
    return evs


def mut_line(evs, pred, **kv):
    i = _find(evs, lambda e: e['ev'] == 'line' and pred(e))
    if i < 0:
        return None
    evs[i].update(kv)
    return evs


def mut_part_header_line(evs):
    # a header line of a MIME part (after the first delimiter line) that is too long although it could be folded
    j = _find(evs, lambda e: e['ev'] == 'line' and e['dd'])
    if j < 0:
        return None
    i = _find(evs, lambda e: e['ev'] == 'line' and e['name'] == 'content-transfer-encoding', j)
    if i < 0:
        return None
    evs[i].update(len=79, inner=True)
    return evs


def mut_hdr(evs):
    i = _find(evs, lambda e: e['ev'] == 'hdr')
    if i < 0:
        return None
    evs[i]['got'] = evs[i]['got'] + ' x'
    evs[i]['gotx'] = evs[i]['gotx'] + ' '
    return evs


def mut_fname(evs):
    i = _find(evs, lambda e: e['ev'] == 'tree')
    if i < 0:
        return None

    def file_leaf(n):
        if not n.get('mp'):
            return n if n.get('fname') else None
        for k in n['kids']:
            r = file_leaf(k)
            if r:
                return r
    lf = file_leaf(evs[i]['tree'])
    if not lf:
        return None
    lf['fname'] = lf['fname'] + '.exe'
    return evs


def mut_dup_field(evs):
    i = _find(evs, lambda e: e['ev'] == 'line' and e['name'] == 'subject')
    if i < 0:
        return None
    return evs[:i + 1] + [dict(evs[i])] + evs[i + 1:]


def mut_extra_field(evs):
    i = _find(evs, lambda e: e['ev'] == 'line' and e['name'] == 'subject')
    if i < 0:
        return None
    x = dict(evs[i])
    x['name'] = 'x-injected'
    return evs[:i + 1] + [x] + evs[i + 1:]


def mut_early_end(evs):
    # an empty line right after the Subject line: premature end of the header section
    i = _find(evs, lambda e: e['ev'] == 'line' and e['name'] == 'subject')
    j = _find(evs, lambda e: e['ev'] == 'line' and e['len'] == 0)
    if i < 0 or j < i:
        return None
    x = dict(evs[j])
    return evs[:i + 1] + [x] + evs[i + 1:]


def mut_rt(evs, what):
    i = _find(evs, lambda e: e['ev'] == 'rt' and e['what'] == what and e['eq'])
    if i < 0:
        return None
    evs[i]['eq'] = False
    return evs


def mut_smime(evs, second=False, **kv):
    i = _find(evs, lambda e: e['ev'] == 'smime' and e['digest'] and e['sigvalid'] and (not second or e['k'] > 1))
    if i < 0:
        return None
    evs[i].update(kv)
    return evs


def mut_second_leaf(evs):
    j = _find(evs, lambda e: e['ev'] == 'render' and e.get('second'))
    i = _find(evs, lambda e: e['ev'] == 'leaf' and e['eq'], j) if j >= 0 else -1
    if i < 0:
        return None
    evs[i]['eq'] = False
    return evs


SELFTESTS = {
    'C08': [('digest differs', lambda evs: mut_smime(evs, digest=False, openssl='skipped'), 'C08_DigestEqual'),
            ('digest of the second render differs', lambda evs: mut_smime(evs, second=True, digest=False, openssl='skipped'), 'C08_DigestEqual'),
            ('signature invalid', lambda evs: mut_smime(evs, sigvalid=False, openssl='skipped'), 'C08_SignatureValid'),
            ('foreign signer certificate', lambda evs: mut_smime(evs, signerleaf=False), 'C08_SignatureValid'),
            ('intermediate missing', lambda evs: mut_smime(evs, wantinter=True, inter=False), 'C08_IntermediateIncluded'),
            ('micalg wrong', lambda evs: mut_smime(evs, micalg='sha1'), 'C08_ProtocolMicalg'),
            ('three parts', lambda evs: mut_smime(evs, nkids=3), 'C08_Wrapper'),
            ('signed render fails', lambda evs: _mut_out(evs, lambda e: e['ok'], ok=False, err=True), 'C08_RenderSucceeds')],
    'C10': [('parsed subject differs', lambda evs: mut_rt(evs, 'subject'), 'C10_subject'),
            ('parsed part differs', lambda evs: mut_rt(evs, 'part'), 'C10_part'),
            ('parsed attachment differs', lambda evs: mut_rt(evs, 'attbytes'), 'C10_attbytes'),
            ('extra part after parsing', lambda evs: mut_rt(evs, 'partcount'), 'C10_partcount'),
            ('content of the second rendering differs', mut_second_leaf, 'C10_R2_C01_ContentEqual')],
    'C12': [('success despite a fault', lambda evs: _mut_out(evs, lambda e: e['faulted'] and e['err'] and not e['panic'], err=False), 'C12_ErrorOnFault'),
            ('wrong count after a fault', lambda evs: _mut_out(evs, lambda e: e['faulted'] and not e['panic'] and e['n'] == e['accepted'], n=1 << 20), 'C12_CountOnFault'),
            ('panic', lambda evs: _mut_out(evs, lambda e: e['faulted'] and not e['panic'], panic=True), 'C12_NoPanic'),
            ('wrong count on success', lambda evs: _mut_out(evs, lambda e: e['ok'], n=3), 'C12_CountOnSuccess')],
    'C11': [('second render differs', lambda evs: _mut_out(evs, lambda e: e['ok'] and e['k'] > 1, id=2), 'C11_SameBytes'),
            ('render after a failure fails', lambda evs: _mut_out(evs, lambda e: e['ok'] and e['k'] > 1, ok=False, err=True), 'C11_RenderSucceeds')],
    'C18': [('bare LF', lambda evs: mut_line(evs, lambda e: e['eol'] == 'crlf', eol='lf'), 'C18_CRLF'),
            ('bare CR', lambda evs: mut_line(evs, lambda e: e['len'] > 0, barecr=True), 'C18_NoBareCR'),
            ('long header line with blanks', lambda evs: mut_line(evs, lambda e: e['name'] == 'subject', len=79, inner=True), 'C18_HeaderLineLength'),
            ('long part header line with blanks', mut_part_header_line, 'C18_PartHeaderLineLength'),
            ('encoded body line of 77', lambda evs: mut_line(evs, lambda e: e['b64'] and e['len'] == 76 and e['name'] == '', len=77), 'C18_EncodedLineLength'),
            ('folded value differs', mut_hdr, 'C18_UnfoldsToValue')],
    'C02': [('duplicated singleton field', mut_dup_field, 'C02_TopFields'),
            ('additional field', mut_extra_field, 'C02_TopFields'),
            ('premature end of headers', mut_early_end, 'C02_TopFields'),
            ('line that is neither field nor continuation', lambda evs: mut_line(evs, lambda e: e['name'] == 'subject', name=''), 'C02_HeaderSyntax'),
            ('control character in header', lambda evs: mut_line(evs, lambda e: e['name'] == 'subject', ctl=True), 'C02_NoControlInHeader'),
            ('decoded value differs', mut_hdr, 'C02_ValueRoundTrip'),
            ('file name differs', mut_fname, 'C02_PartValues')],
    'C01': [('leaf content differs', mut_leaf_differs, 'C01_ContentEqual'),
            ('close-delimiter removed', mut_drop_close, 'C01_AllMultipartsClosed'),
            ('multipart subtype changed', mut_swap_tree, 'C01_Structure'),
            ('leaf transfer encoding changed', mut_leaf_attr, 'C01_LeafAttributes'),
            ('outer delimiter inside inner multipart', mut_inner_delim, 'C01_BoundaryNesting')],
}
VACUITY = {'C18b': [], 'C08': ['smimes', 'smimes2', 'leaves'], 'C01': ['lines', 'leaves', 'trees', 'multiparts'], 'C12': ['faulted', 'outs'], 'C11': ['rerenders'],
           'C18': ['lines', 'hdrs', 'b64segs'], 'C02': ['lines', 'hdrs'], 'C10': ['rts', 'lines', 'leaves']}
LEVEL = {'X02': 'exploration', 'C08': 'model_checking', 'C10': 'exploration', 'C01': 'exploration', 'C02': 'exploration', 'C11': 'model_checking', 'C12': 'fault_enumeration', 'C18': 'exploration'}
