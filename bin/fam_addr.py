"""Address family: C06 (AddrHeaders.tla / TraceAddr.tla, harness family `addr`)."""
import json

HARNESS_FAMILY = 'addr'
TRACE_SPEC = ('TraceAddr.tla', 'TraceAddr.cfg')
INVS = ['FoldAgrees', 'RcptCount', 'AtMostOneFrom', 'SenderDefined', 'Emit']
STAGES = {
    'C06': {
        'quick': [('full-menu-len2', 'AddrHeaders', dict(MAXLEN='2', MENU='"full"')),
                  ('small-menu-len3', 'AddrHeaders', dict(MAXLEN='3', MENU='"small"'))],
        'thorough': [('full-menu-len3', 'AddrHeaders', dict(MAXLEN='3', MENU='"full"')),
                     ('small-menu-len4', 'AddrHeaders', dict(MAXLEN='4', MENU='"small"'))],
    },
}
RULE = ('every sequence of address-setting calls up to the length bound over the call menu of AddrHeaders.tla is one scenario; '
        'non-trivial = at least two calls or a call with an invalid / named address; distinct by call sequence')


def facts(begin):
    f = {'ncalls': len(begin['calls'])}
    for c in begin['calls']:
        f['op:' + c['op']] = True
        f['kind:' + c['k']] = True
    return f


def signature(begin):
    return {'ops': sorted({c['op'] + ':' + c['k'] for c in begin['calls']})}


def casekey(begin):
    return json.dumps(begin['calls'], sort_keys=True)


def sample(tr):
    return dict(scenario=tr[0][0].get('scn'), calls=tr[0][0]['calls'], events=[e for e, _ in tr[1:]][:12])


def nontrivial(begin):
    cs = begin['calls']
    return len(cs) >= 2 or any('bad' in c['ts'] or c['name'] for c in cs)


def _find(evs, pred, start=0):
    for i in range(start, len(evs)):
        if pred(evs[i]):
            return i
    return -1


def mut_wire(evs, field, fn):
    i = _find(evs, lambda e: e['ev'] == 'wire' and e['sent'] and e['rcpts'])
    if i < 0:
        return None
    evs[i][field] = fn(evs[i][field])
    return evs


def mut_bcc_visible(evs):
    calls = evs[0]['calls']
    bcc = [t for c in calls if c['k'] == 'Bcc' and c['op'] in ('set', 'add') for t in c['ts'] if t in ('a1', 'a2', 'a3', 'a4', 'a5')]
    others = [t for c in calls if c['k'] != 'Bcc' for t in c['ts']]
    i = _find(evs, lambda e: e['ev'] == 'fields')
    cand = [t for t in bcc if t not in others]
    if i < 0 or not cand or evs[i]['present'].get(cand[0]) is not False:
        return None
    evs[i]['present'][cand[0]] = True
    return evs


def mut_field(evs):
    i = _find(evs, lambda e: e['ev'] == 'fields' and e['to'])
    if i < 0:
        return None
    evs[i]['to'][0][1] = 'other@to.test'
    return evs


def mut_twice(evs):
    i = _find(evs, lambda e: e['ev'] == 'fields' and e['counts']['To'] == 1)
    if i < 0:
        return None
    evs[i]['counts']['To'] = 2
    return evs


SELFTESTS = {
    'C06': [('wrong envelope sender', lambda evs: mut_wire(evs, 'mail', lambda v: 'x' + v), 'C06_EnvelopeSender'),
            ('recipient dropped', lambda evs: mut_wire(evs, 'rcpts', lambda v: v[1:]), 'C06_EnvelopeRecipients'),
            ('recipient order swapped', lambda evs: (lambda e2: e2 if e2 and len(e2[_find(e2, lambda e: e['ev'] == 'wire')]['rcpts']) >= 2 and len(set(e2[_find(e2, lambda e: e['ev'] == 'wire')]['rcpts'])) >= 2 else None)(mut_wire(evs, 'rcpts', lambda v: v[::-1])), 'C06_EnvelopeRecipients'),
            ('Bcc address in the rendering', mut_bcc_visible, 'C06_BccHidden'),
            ('rendered To address differs', mut_field, 'C06_RenderedAddresses'),
            ('To field twice', mut_twice, 'C06_RenderedOnce')],
}
VACUITY = {'C06': ['sent', 'rcpts', 'bccs', 'named']}
LEVEL = {'C06': 'model_checking'}
