package refsmtp

import (
	"crypto/tls"
	"encoding/base64"
	"strings"

	"verif/harness/sasl"
)

// HonestAuth is the RFC-conforming server side of every mechanism go-mail speaks,
// built on the independent verifiers of package sasl.
type HonestAuth struct {
	Creds sasl.Creds
	// NormUser / NormPass: the account as stored by the server (after string preparation).
	NormUser, NormPass string
	Salt               []byte
	Iter               int
	NonceSuffix        string
	Extension          string // extension attributes of the SCRAM server-first message
	Challenge          string // CRAM-MD5 challenge
	TLS                *tls.ConnectionState

	mech   string
	scram  *sasl.ScramServer
	user   string
	ok     bool
	why    string
	Result *sasl.Verdict // filled when the exchange ends
	// ClientNonces collects the client nonces of SCRAM exchanges (C14: freshness).
	ClientNonce string
}

func b64s(s string) string { return base64.StdEncoding.EncodeToString([]byte(s)) }

func (h *HonestAuth) finish(ok bool, why string) AuthStep {
	h.Result = &sasl.Verdict{Done: true, Accepted: ok, Why: why}
	if ok {
		return AuthStep{Code: 235, Text: "2.7.0 authentication successful"}
	}
	return AuthStep{Code: 535, Text: "5.7.8 authentication credentials invalid"}
}

// Step answers message j of the exchange (0 = the AUTH command with optional initial response).
func (h *HonestAuth) Step(j int, mech string, msg []byte, has bool) AuthStep {
	if j == 0 {
		h.mech = mech
	}
	switch {
	case h.mech == "PLAIN":
		if j == 0 && !has {
			return AuthStep{Code: 334, Text: ""}
		}
		ok, why := sasl.VerifyPlain(h.Creds, msg)
		return h.finish(ok, why)
	case h.mech == "LOGIN":
		switch j {
		case 0:
			return AuthStep{Code: 334, Text: b64s("Username:")}
		case 1:
			h.user = string(msg)
			return AuthStep{Code: 334, Text: b64s("Password:")}
		default:
			ok := h.user == h.Creds.User && string(msg) == h.Creds.Pass
			return h.finish(ok, "wrong user or password")
		}
	case h.mech == "CRAM-MD5":
		if j == 0 {
			return AuthStep{Code: 334, Text: b64s(h.Challenge)}
		}
		ok, why := sasl.VerifyCramMD5(h.Creds, h.Challenge, msg)
		return h.finish(ok, why)
	case h.mech == "XOAUTH2":
		if j == 0 {
			ok, why := sasl.VerifyXOAuth2(h.Creds, msg)
			if ok {
				return h.finish(true, "")
			}
			h.why = why
			return AuthStep{Code: 334, Text: b64s(`{"status":"401","schemes":"bearer","scope":"https://mail.example.test/"}`)}
		}
		return h.finish(false, h.why)
	case strings.HasPrefix(h.mech, "SCRAM-SHA-"):
		if j == 0 && !has {
			return AuthStep{Code: 334, Text: ""}
		}
		if h.scram == nil {
			h.scram = &sasl.ScramServer{C: h.Creds, NormUser: h.NormUser, NormPass: h.NormPass,
				P: sasl.ScramParams{Hash: sasl.HashFor(h.mech), Plus: strings.HasSuffix(h.mech, "-PLUS"),
					Salt: h.Salt, Iter: h.Iter, NonceSuffix: h.NonceSuffix, Extension: h.Extension, TLS: h.TLS}}
			sf, err := h.scram.ServerFirst(msg)
			h.ClientNonce = h.scram.ClientNonce
			if err != nil {
				return h.finish(false, err.Error())
			}
			return AuthStep{Code: 334, Text: b64s(sf)}
		}
		if !h.scram.Verdict.Done {
			fin, ok := h.scram.ServerFinal(msg)
			if !ok {
				return h.finish(false, h.scram.Verdict.Why)
			}
			return AuthStep{Code: 334, Text: b64s(fin)}
		}
		if len(msg) != 0 {
			return h.finish(false, "non-empty response to server-final")
		}
		return h.finish(true, "")
	}
	h.Result = &sasl.Verdict{Done: true, Why: "unknown mechanism"}
	return AuthStep{Code: 504, Text: "5.5.4 unrecognised authentication type"}
}
