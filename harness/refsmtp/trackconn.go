package refsmtp

import (
	"net"
	"sync"
	"time"

	"verif/harness/rec"
)

// TrackConn wraps the client side of the transport and records Close and
// SetDeadline calls.  It observes only.
type TrackConn struct {
	net.Conn
	rec    *rec.Recorder
	once   sync.Once
	mu     sync.Mutex
	closed bool
}

// NewTrackConn wraps c.
func NewTrackConn(c net.Conn, r *rec.Recorder) *TrackConn {
	r.Emit("open")
	return &TrackConn{Conn: c, rec: r}
}

// Close records the first close.
func (t *TrackConn) Close() error {
	t.once.Do(func() {
		t.mu.Lock()
		t.closed = true
		t.mu.Unlock()
		t.rec.Emit("cclose")
	})
	return t.Conn.Close()
}

// Closed reports whether Close was called.
func (t *TrackConn) Closed() bool {
	t.mu.Lock()
	defer t.mu.Unlock()
	return t.closed
}

// ForceClose closes the underlying transport without recording a client close
// (used by the harness to clean up leaked connections).
func (t *TrackConn) ForceClose() { _ = t.Conn.Close() }

// SetDeadline records whether a deadline is armed.
func (t *TrackConn) SetDeadline(d time.Time) error {
	t.rec.Emit("setdl", "armed", !d.IsZero())
	return t.Conn.SetDeadline(d)
}

// SetReadDeadline records whether a deadline is armed.
func (t *TrackConn) SetReadDeadline(d time.Time) error {
	t.rec.Emit("setdl", "armed", !d.IsZero())
	return t.Conn.SetReadDeadline(d)
}
