package refsmtp

import (
	"bytes"
	"net"
	"strings"
	"sync"
	"time"

	"verif/harness/rec"
)

// TrackConn wraps the client side of the transport and records Close and
// SetDeadline calls.  It observes only.
type TrackConn struct {
	net.Conn
	rec    *rec.Recorder
	once   sync.Once
	mu     sync.Mutex
	closed bool
	ID     int // number of this transport within the scenario (1, 2, ...)

	// Timeout is the timeout the client was configured with; a Read that begins with at least half of it ahead and
	// ends in a timeout error is reported ("rwait": the caller waited for the peer until the deadline).
	Timeout time.Duration
	rdl     time.Time

	// scripted transport failures (cleartext connections only): WFail lists the command
	// occurrences whose write fails; a CONTENT key fails the first write of that message's content.
	WFail   map[Key]bool
	Addr    map[string][2]int
	last    int
	ehlo    int
	authj   int
	inAuth  bool
	dataCmd bool // a DATA line was written, its reply not yet seen
	inData  bool
	broken  bool
}

var errReset = &net.OpError{Op: "write", Net: "pipe", Err: errConnReset{}}

type errConnReset struct{}

func (errConnReset) Error() string { return "connection reset by peer (scripted)" }

// keyOf mirrors the command keys of the reference server for a cleartext command line.
func (t *TrackConn) keyOf(line string) Key {
	raw := strings.TrimRight(line, "\r\n")
	verb := strings.ToUpper(strings.SplitN(raw, " ", 2)[0])
	if t.inAuth && verb != "QUIT" && raw != "*" {
		t.authj++
		return Key{"AUTHRESP", 0, t.authj}
	}
	arg := ""
	if i := strings.IndexByte(raw, ' '); i >= 0 {
		arg = raw[i+1:]
	}
	switch verb {
	case "MAIL", "RCPT":
		path, _ := splitPath(arg)
		mr := t.Addr[path]
		if verb == "MAIL" {
			t.last = mr[0]
		}
		return Key{verb, mr[0], mr[1]}
	case "EHLO":
		t.ehlo++
		return Key{"EHLO", 0, t.ehlo}
	case "HELO":
		return Key{"HELO", 0, 1}
	case "AUTH":
		t.inAuth, t.authj = true, 0
		return Key{"AUTH", 0, 0}
	case "*":
		t.inAuth = false
		return Key{"ABORT", 0, 0}
	case "QUIT", "STARTTLS":
		t.inAuth = false
		return Key{verb, 0, 0}
	case "DATA", "RSET", "NOOP":
		return Key{verb, t.last, 0}
	}
	return Key{"OTHER", 0, 0}
}

// Write fails scripted writes; afterwards the transport is broken in both directions.
func (t *TrackConn) Write(p []byte) (int, error) {
	t.mu.Lock()
	if t.broken {
		t.mu.Unlock()
		return 0, errReset
	}
	if len(t.WFail) > 0 {
		fail := false
		if t.inData {
			if t.WFail[Key{"CONTENT", t.last, 0}] {
				fail = true
			}
			if bytes.HasSuffix(p, []byte("\r\n.\r\n")) {
				t.inData = false
			}
		} else if bytes.HasSuffix(p, []byte("\r\n")) && bytes.Count(p, []byte("\n")) == 1 {
			k := t.keyOf(string(p))
			fail = t.WFail[k]
			t.dataCmd = k.V == "DATA"
		}
		if fail {
			t.broken = true
			t.mu.Unlock()
			t.rec.Emit("wfail")
			_ = t.Conn.Close() // the peer sees the connection go away
			return 0, errReset
		}
	}
	t.mu.Unlock()
	return t.Conn.Write(p)
}

// Read watches for the reply to DATA (354 switches to content mode) and for the end of AUTH.
func (t *TrackConn) Read(p []byte) (int, error) {
	t.mu.Lock()
	rdl := t.rdl
	t.mu.Unlock()
	start := time.Now()
	n, err := t.Conn.Read(p)
	if ne, ok := err.(net.Error); ok && ne.Timeout() && t.Timeout > 0 && !rdl.IsZero() && rdl.Sub(start) >= t.Timeout/2 {
		t.rec.Emit("rwait", "cid", t.ID)
	}
	if len(t.WFail) > 0 && n >= 3 {
		t.mu.Lock()
		if t.dataCmd {
			t.inData = string(p[:3]) == "354"
			t.dataCmd = false
		}
		if t.inAuth && string(p[:3]) != "334" {
			t.inAuth = false
		}
		t.mu.Unlock()
	}
	return n, err
}

// NewTrackConn wraps c.
func NewTrackConn(c net.Conn, r *rec.Recorder) *TrackConn {
	return NewTrackConnID(c, r, 1)
}

// NewTrackConnID wraps c as the id-th transport of the scenario.
func NewTrackConnID(c net.Conn, r *rec.Recorder, id int) *TrackConn {
	r.Emit("open", "cid", id)
	return &TrackConn{Conn: c, rec: r, ID: id}
}

// Close records the first close.
func (t *TrackConn) Close() error {
	t.once.Do(func() {
		t.mu.Lock()
		t.closed = true
		t.mu.Unlock()
		t.rec.Emit("cclose", "cid", t.ID)
	})
	return t.Conn.Close()
}

// Closed reports whether Close was called.
func (t *TrackConn) Closed() bool {
	t.mu.Lock()
	defer t.mu.Unlock()
	return t.closed
}

// ForceClose closes the underlying transport without recording a client close
// (used by the harness to clean up leaked connections).
func (t *TrackConn) ForceClose() { _ = t.Conn.Close() }

// SetDeadline records whether a deadline is armed.
func (t *TrackConn) SetDeadline(d time.Time) error {
	t.rec.Emit("setdl", "armed", !d.IsZero())
	t.mu.Lock()
	t.rdl = d
	t.mu.Unlock()
	return t.Conn.SetDeadline(d)
}

// SetReadDeadline records whether a deadline is armed.
func (t *TrackConn) SetReadDeadline(d time.Time) error {
	t.rec.Emit("setdl", "armed", !d.IsZero())
	t.mu.Lock()
	t.rdl = d
	t.mu.Unlock()
	return t.Conn.SetReadDeadline(d)
}
