package refsmtp

import (
	"crypto/ecdsa"
	"crypto/elliptic"
	"crypto/rand"
	"crypto/tls"
	"crypto/x509"
	"crypto/x509/pkix"
	"encoding/pem"
	"math/big"
	"net"
	"os"
	"path/filepath"
	"sync"
	"time"
)

// TLSMaterial holds the certificates the reference server presents.
type TLSMaterial struct {
	CAPEM     []byte
	Good      tls.Certificate // valid for mail.example.test, localhost, 127.0.0.1, 127.0.0.2, ::1; issued by the CA
	WrongName tls.Certificate // issued by the CA for other.example.test
	Untrusted tls.Certificate // right names, issued by an unknown CA
	Pool      *x509.CertPool
}

var (
	tlsOnce sync.Once
	tlsMat  *TLSMaterial
	tlsErr  error
)

func genCA(cn string) (*x509.Certificate, *ecdsa.PrivateKey, []byte, error) {
	key, err := ecdsa.GenerateKey(elliptic.P256(), rand.Reader)
	if err != nil {
		return nil, nil, nil, err
	}
	tmpl := &x509.Certificate{
		SerialNumber: big.NewInt(time.Now().UnixNano()), Subject: pkix.Name{CommonName: cn},
		NotBefore: time.Now().Add(-time.Hour), NotAfter: time.Now().Add(48 * time.Hour),
		IsCA: true, BasicConstraintsValid: true, KeyUsage: x509.KeyUsageCertSign | x509.KeyUsageDigitalSignature,
	}
	der, err := x509.CreateCertificate(rand.Reader, tmpl, tmpl, &key.PublicKey, key)
	if err != nil {
		return nil, nil, nil, err
	}
	cert, err := x509.ParseCertificate(der)
	return cert, key, der, err
}

func genLeaf(ca *x509.Certificate, caKey *ecdsa.PrivateKey, names []string, ips []net.IP) (tls.Certificate, error) {
	key, err := ecdsa.GenerateKey(elliptic.P256(), rand.Reader)
	if err != nil {
		return tls.Certificate{}, err
	}
	tmpl := &x509.Certificate{
		SerialNumber: big.NewInt(time.Now().UnixNano()), Subject: pkix.Name{CommonName: names[0]},
		NotBefore: time.Now().Add(-time.Hour), NotAfter: time.Now().Add(48 * time.Hour),
		KeyUsage: x509.KeyUsageDigitalSignature, ExtKeyUsage: []x509.ExtKeyUsage{x509.ExtKeyUsageServerAuth},
		DNSNames: names, IPAddresses: ips,
	}
	der, err := x509.CreateCertificate(rand.Reader, tmpl, ca, &key.PublicKey, caKey)
	if err != nil {
		return tls.Certificate{}, err
	}
	return tls.Certificate{Certificate: [][]byte{der}, PrivateKey: key}, nil
}

// Material generates the TLS material once per process and points SSL_CERT_FILE at
// the CA so that the client's *default* tls.Config trusts it. Must be called before
// the first certificate verification of the process.
func Material(dir string) (*TLSMaterial, error) {
	tlsOnce.Do(func() {
		ca, caKey, caDER, err := genCA("verif reference CA")
		if err != nil {
			tlsErr = err
			return
		}
		other, otherKey, _, err := genCA("unknown CA")
		if err != nil {
			tlsErr = err
			return
		}
		names := []string{"mail.example.test", "localhost", "127.mail.example.test", "localhost.example.test",
			"127.0.0.1.relay.example.test", "localhost6.example.test"}
		ips := []net.IP{net.ParseIP("127.0.0.1"), net.ParseIP("127.0.0.2"), net.ParseIP("::1")}
		m := &TLSMaterial{CAPEM: pem.EncodeToMemory(&pem.Block{Type: "CERTIFICATE", Bytes: caDER})}
		if m.Good, err = genLeaf(ca, caKey, names, ips); err != nil {
			tlsErr = err
			return
		}
		if m.WrongName, err = genLeaf(ca, caKey, []string{"other.example.test"}, nil); err != nil {
			tlsErr = err
			return
		}
		if m.Untrusted, err = genLeaf(other, otherKey, names, ips); err != nil {
			tlsErr = err
			return
		}
		m.Pool = x509.NewCertPool()
		m.Pool.AddCert(ca)
		p := filepath.Join(dir, "verif-ca.pem")
		if err = os.WriteFile(p, m.CAPEM, 0o600); err != nil {
			tlsErr = err
			return
		}
		_ = os.Setenv("SSL_CERT_FILE", p)
		_ = os.Setenv("SSL_CERT_DIR", filepath.Join(dir, "no-such-dir"))
		tlsMat = m
	})
	return tlsMat, tlsErr
}

// ServerConfig returns the server-side configuration for a handshake outcome
// (ok, wrongname, untrusted); maxVersion 0 = default.
func (m *TLSMaterial) ServerConfig(outcome string, maxVersion uint16) *tls.Config {
	c := m.Good
	switch outcome {
	case "wrongname":
		c = m.WrongName
	case "untrusted":
		c = m.Untrusted
	}
	return &tls.Config{Certificates: []tls.Certificate{c}, MaxVersion: maxVersion, MinVersion: tls.VersionTLS12}
}
