// Package refsmtp is a scriptable reference SMTP server used as the
// environment of the go-mail client.  It answers every command with the
// default positive reply unless the scenario lists a fault for that command
// occurrence, and it records what it sees on the wire.  It does not judge:
// legality of the dialogue is decided by the TLA+ monitors from the events.
package refsmtp

import (
	"bufio"
	"bytes"
	"crypto/tls"
	"encoding/base64"
	"fmt"
	"net"
	"strings"
	"sync"
	"time"

	"verif/harness/rec"
)

// Key names a command occurrence: verb, message index, recipient index
// (0 where not applicable).
type Key struct {
	V    string
	M, R int
}

// Fault is a non-default environment choice.
type Fault struct {
	K     int    // 1-based position in the scenario's fault list: decides the reply code
	Class string // t4, p5, drop, stall, garbage
	Shape string // lead, later, none: where an enhanced status code appears in the text
	Rot   int    // rotation of the reply-code table (cfg.cs of the model)
}

// AuthStep scripts one server message of an AUTH exchange.
type AuthStep struct {
	Code int
	Text string // sent verbatim after the code (base64 for 334)
}

// AuthHandler produces the server side of an AUTH exchange: Step answers message j
// (0 = the AUTH command with its optional initial response, then every client response).
type AuthHandler interface {
	Step(j int, mech string, msg []byte, has bool) AuthStep
}

// Config describes one server instance.
type Config struct {
	Caps      []string          // EHLO keywords (first EHLO)
	Caps2     []string          // EHLO keywords after STARTTLS (nil: same as Caps)
	Faults    map[Key]Fault     // scripted non-default replies
	Addr      map[string][2]int // mailbox -> (message, recipient index; 0 for the sender)
	Expected  map[int][]byte    // complete rendering per message
	TLS       *tls.Config       // used for STARTTLS / implicit TLS
	Implicit  bool              // TLS from the first byte
	Auth      func(state *tls.ConnectionState) AuthHandler
	RawLines  bool                 // record every line read in command mode as raw bytes
	Jitter    func() time.Duration // latency before every reply (varies the schedule of concurrent clients)
	MultiOK   bool                 // every positive 250 reply is given as a multi-line reply
	HSGarbage bool                 // answer the ClientHello with bytes that are not TLS
	HSStall   bool                 // never answer the ClientHello
	// CredScan reports whether a cleartext line carries a password-revealing payload.
	CredScan func(line string) bool
	// FaultsFromConn: the scripted faults apply to connections with this number and later only (0: all)
	FaultsFromConn int
	Greeting       time.Duration // how long to listen for early bytes before greeting
	// LateReply: a "stall" is not for ever - after this long the server answers the command with a 451
	// (which nobody should be waiting for any more) and goes on serving the connection
	LateReply time.Duration
}

// Server is one scripted server bound to one recorder.
type Server struct {
	cfg Config
	rec *rec.Recorder
	wg  sync.WaitGroup
	mu  sync.Mutex
	// stallCh is closed by Release to let stalled connections finish.
	stallCh chan struct{}
	conns   []net.Conn
	muted   map[int]bool // connections (by number) on which the server has gone silent for good
}

// Mute makes the server silent on connection id from now on: whatever it reads there stays unanswered.
func (s *Server) Mute(id int) {
	s.mu.Lock()
	if s.muted == nil {
		s.muted = map[int]bool{}
	}
	s.muted[id] = true
	s.mu.Unlock()
}

func (s *Server) isMuted(id int) bool {
	s.mu.Lock()
	defer s.mu.Unlock()
	return s.muted[id]
}

// New creates a server.
func New(cfg Config, r *rec.Recorder) *Server {
	if cfg.Greeting == 0 {
		cfg.Greeting = 2 * time.Millisecond
	}
	return &Server{cfg: cfg, rec: r, stallCh: make(chan struct{})}
}

// Go serves one connection in a goroutine.
func (s *Server) Go(c net.Conn) {
	s.mu.Lock()
	s.conns = append(s.conns, c)
	id := len(s.conns)
	s.mu.Unlock()
	s.wg.Add(1)
	go func() {
		defer s.wg.Done()
		s.serve(c, id)
	}()
}

// Release unblocks stalled connections.
func (s *Server) Release() {
	s.mu.Lock()
	select {
	case <-s.stallCh:
	default:
		close(s.stallCh)
	}
	s.mu.Unlock()
}

// Wait waits until all connection goroutines are done.
func (s *Server) Wait(d time.Duration) bool {
	ch := make(chan struct{})
	go func() { s.wg.Wait(); close(ch) }()
	select {
	case <-ch:
		return true
	case <-time.After(d):
		return false
	}
}

// Kill closes all server-side connections.
func (s *Server) Kill() {
	s.mu.Lock()
	for _, c := range s.conns {
		_ = c.Close()
	}
	s.mu.Unlock()
}

// OkCode is the positive reply code a command expects.
func OkCode(v string) int {
	switch v {
	case "DATA":
		return 354
	case "QUIT":
		return 221
	case "GREET", "STARTTLS":
		return 220
	case "ABORT":
		return 501
	}
	return 250
}

// ReplyFor computes code, text and leading enhanced status code of a faulty reply.
func ReplyFor(f Fault) (int, string, string) {
	off := (f.Rot + 33*(f.K-1)) % 100
	code, d := 400+off, "4"
	if f.Class == "p5" {
		code, d = 500+off, "5"
	}
	if f.Class == "x3" {
		return 330 + f.K, "intermediate reply by script", ""
	}
	if f.Shape == "toomany" { // RFC 5321 4.5.3.1.10: "too many recipients" - 452, or the historical 552, with the enhanced code X.5.3
		esc := d + ".5.3"
		return map[string]int{"4": 452, "5": 552}[d], esc + " too many recipients", esc
	}
	esc := fmt.Sprintf("%s.5.%d", d, f.K)
	if f.Shape == "xlead" { // an enhanced status code of the other class than the reply code
		esc = fmt.Sprintf("%s.5.%d", map[string]string{"4": "5", "5": "4"}[d], f.K)
		return code, esc + " rejected by script", esc
	}
	switch f.Shape {
	case "lead", "multi", "multiterse":
		return code, esc + " rejected by script", esc
	case "terse": // nothing but the enhanced status code
		return code, esc, esc
	case "later":
		return code, fmt.Sprintf("rejected by script, see host 4.2.2.%d for policy", f.K), ""
	}
	return code, "rejected by script", ""
}

type session struct {
	id   int // connection number of this server, starting at 1
	s    *Server
	c    net.Conn
	br   *bufio.Reader
	enc  bool
	last int // message of the latest MAIL command
	ehlo int // number of EHLO commands seen
}

// fault returns the scripted fault for key k on this connection.
func (x *session) fault(k Key) (Fault, bool) {
	if x.id < x.s.cfg.FaultsFromConn {
		return Fault{}, false
	}
	f, ok := x.s.cfg.Faults[k]
	return f, ok
}

// emit records an event of this connection.
func (x *session) emit(kind string, kv ...interface{}) {
	x.s.rec.Emit(kind, append(kv, "conn", x.id)...)
}

func (x *session) write(str string) error {
	_ = x.c.SetWriteDeadline(time.Now().Add(10 * time.Second))
	_, err := x.c.Write([]byte(str))
	return err
}

func (x *session) readLine() (string, error) {
	var buf []byte
	for {
		part, err := x.br.ReadSlice('\n')
		buf = append(buf, part...)
		if err == bufio.ErrBufferFull {
			continue
		}
		if err != nil {
			return string(buf), err
		}
		return string(buf), nil
	}
}

// stall blocks until Release; the connection stays open and silent.
func (x *session) stall() {
	x.emit("stall")
	<-x.s.stallCh
}

// reply answers verb (key k); returns false when the connection is finished.
func (x *session) reply(k Key, okText string, caps []string) bool {
	if x.s.cfg.Jitter != nil {
		time.Sleep(x.s.cfg.Jitter())
	}
	f, bad := x.fault(k)
	if !bad {
		code := OkCode(k.V)
		if caps != nil {
			var b strings.Builder
			fmt.Fprintf(&b, "%d-%s\r\n", code, okText)
			for i, cp := range caps {
				sep := "-"
				if i == len(caps)-1 {
					sep = " "
				}
				fmt.Fprintf(&b, "%d%s%s\r\n", code, sep, cp)
			}
			x.emit("reply", "code", code, "cls", "ok", "esc", "", "caps", capNames(caps))
			return x.write(b.String()) == nil
		}
		x.emit("reply", "code", code, "cls", "ok", "esc", "", "caps", []string{})
		if x.s.cfg.MultiOK && code == 250 { // RFC 5321 4.2.1: any reply may be multi-line
			return x.write(fmt.Sprintf("%d-%s\r\n%d-second line of the reply\r\n%d %s\r\n", code, okText, code, code, okText)) == nil
		}
		return x.write(fmt.Sprintf("%d %s\r\n", code, okText)) == nil
	}
	switch f.Class {
	case "drop":
		x.emit("drop")
		_ = x.c.Close()
		return false
	case "stall":
		if x.s.cfg.LateReply > 0 {
			x.emit("stall")
			select {
			case <-x.s.stallCh:
				return false
			case <-time.After(x.s.cfg.LateReply):
			}
			return x.write("451 4.4.5 late reply by script\r\n") == nil
		}
		x.stall()
		return false
	case "garbage":
		x.emit("reply", "code", 0, "cls", "garbage", "esc", "", "caps", []string{})
		return x.write("\x16\x03\x01 this is not an SMTP reply\r\n") == nil
	}
	code, text, esc := ReplyFor(f)
	x.emit("reply", "code", code, "cls", f.Class, "esc", esc, "caps", []string{})
	if f.Shape == "multi" { // a multi-line negative reply (RFC 5321 4.2.1), the enhanced code on every line
		return x.write(fmt.Sprintf("%d-%s\r\n%d-%s see policy\r\n%d %s\r\n", code, text, code, esc, code, text)) == nil
	}
	if f.Shape == "multiterse" { // the first line carries the enhanced code only
		return x.write(fmt.Sprintf("%d-%s\r\n%d %s\r\n", code, esc, code, text)) == nil
	}
	return x.write(fmt.Sprintf("%d %s\r\n", code, text)) == nil
}

func capNames(caps []string) []string {
	out := make([]string, 0, len(caps))
	for _, c := range caps {
		out = append(out, strings.ToUpper(strings.SplitN(c, " ", 2)[0]))
	}
	return out
}

// splitPath extracts the mailbox between the first '<' and the last '>' before
// the parameters of a MAIL / RCPT argument, and the parameter keywords.
func splitPath(arg string) (string, []string) {
	lt := strings.IndexByte(arg, '<')
	gt := strings.IndexByte(arg, '>')
	if lt < 0 || gt < lt {
		return "", nil
	}
	path := arg[lt+1 : gt]
	var params []string
	for _, p := range strings.Fields(arg[gt+1:]) {
		kw := strings.ToUpper(strings.SplitN(p, "=", 2)[0])
		params = append(params, kw)
	}
	return path, params
}

func (x *session) serveCmds() {
	s := x.s
	for {
		line, err := x.readLine()
		if err != nil {
			x.emit("sclose", "indata", false, "partial", len(line))
			return
		}
		if !x.enc && len(line) > 0 && line[0] == 0x16 {
			// a TLS handshake record where a command was expected (a client that dials a cleartext
			// port with implicit TLS): nothing readable was sent
			x.emit("tlshello")
			x.emit("sclose", "indata", false, "partial", 0)
			return
		}
		if s.isMuted(x.id) { // an idle connection the server no longer answers on (not a fault of the running scenario script)
			x.emit("muted")
			<-x.s.stallCh
			return
		}
		raw := strings.TrimRight(line, "\r\n")
		if s.cfg.RawLines {
			x.emit("rawline", "b", lineBytes(line), "crlf", strings.HasSuffix(line, "\r\n"))
		}
		verb := strings.ToUpper(strings.SplitN(raw, " ", 2)[0])
		arg := ""
		if i := strings.IndexByte(raw, ' '); i >= 0 {
			arg = raw[i+1:]
		}
		wf := strings.HasSuffix(line, "\r\n") && !strings.ContainsAny(raw, "\r\n")
		m, r := 0, 0
		params := []string{}
		mech := ""
		v := verb
		switch verb {
		case "MAIL", "RCPT":
			path, ps := splitPath(arg)
			if ps != nil {
				params = ps
			}
			if mr, ok := s.cfg.Addr[path]; ok {
				m, r = mr[0], mr[1]
			}
			if verb == "MAIL" {
				x.last = m
			}
		case "EHLO":
			x.ehlo++
			r = x.ehlo
		case "HELO":
			r = 1
		case "AUTH":
			mech = strings.ToUpper(strings.SplitN(arg, " ", 2)[0])
		case "DATA", "RSET", "NOOP", "QUIT", "STARTTLS":
		case "VRFY", "EXPN", "HELP": // legal RFC 5321 commands the library does not use today: answered 250, never judged unknown
			v = "NOOP"
		case "*":
			v = "ABORT"
		default:
			v = "OTHER"
		}
		cred := false
		if s.cfg.CredScan != nil {
			cred = s.cfg.CredScan(raw)
		}
		x.emit("cmd", "verb", v, "m", m, "r", r, "params", params, "enc", x.enc, "cred", cred,
			"mech", mech, "wf", wf, "line", clip(raw), "rverb", verb)
		key := Key{v, m, r}
		if v != "MAIL" && v != "RCPT" && v != "EHLO" && v != "HELO" {
			key = Key{v, x.last, 0}
		}
		if v == "QUIT" || v == "STARTTLS" || v == "AUTH" || v == "OTHER" || v == "ABORT" {
			key = Key{v, 0, 0}
		}
		switch v {
		case "EHLO":
			caps := s.cfg.Caps
			if x.enc && s.cfg.Caps2 != nil {
				caps = s.cfg.Caps2
			}
			if caps == nil {
				caps = []string{}
			}
			if len(caps) == 0 {
				if !x.reply(key, "refsmtp.test", nil) {
					return
				}
			} else if !x.reply(key, "refsmtp.test", caps) {
				return
			}
		case "DATA":
			_, bad := x.fault(key)
			if !x.reply(key, "go ahead", nil) {
				return
			}
			if !bad {
				if f, st := x.fault(Key{"CONTENT", x.last, 0}); st && f.Class == "cstall" {
					x.stall() // stop reading in the middle of the content
					return
				}
				if !x.readData() {
					return
				}
			}
		case "STARTTLS":
			_, bad := x.fault(key)
			if !x.reply(key, "ready for TLS", nil) {
				return
			}
			if !bad {
				if !x.startTLS() {
					return
				}
			}
		case "AUTH":
			if !x.auth(arg) {
				return
			}
		case "OTHER":
			x.emit("reply", "code", 500, "cls", "p5", "esc", "", "caps", []string{})
			if x.write("500 unrecognised command\r\n") != nil {
				return
			}
		default:
			if !x.reply(key, "ok", nil) {
				return
			}
		}
	}
}

// lineBytes returns the bytes of a line without its terminating CRLF (or LF) as integers.
func lineBytes(line string) []int {
	line = strings.TrimSuffix(strings.TrimSuffix(line, "\n"), "\r")
	out := make([]int, len(line))
	for i := 0; i < len(line); i++ {
		out[i] = int(line[i])
	}
	return out
}

func clip(s string) string {
	if len(s) > 200 {
		return s[:200]
	}
	return s
}

// readData consumes the content of a DATA section, classifies it and replies.
func (x *session) readData() bool {
	s := x.s
	var content bytes.Buffer
	for {
		line, err := x.readLine()
		if err != nil {
			x.emit("sclose", "indata", true, "partial", content.Len()+len(line))
			return false
		}
		if line == ".\r\n" || line == ".\n" {
			break
		}
		if strings.HasPrefix(line, ".") {
			line = line[1:]
		}
		content.WriteString(line)
	}
	cls := Classify(content.Bytes(), s.cfg.Expected, x.last)
	x.emit("eod", "m", x.last, "content", cls, "len", content.Len())
	return x.reply(Key{"EOD", x.last, 0}, "queued", nil)
}

// Canon undoes what RFC 5321 mandates on the wire besides dot-stuffing: line
// terminators are CRLF (2.3.8), so bare LF compares equal to CRLF.
func Canon(b []byte) []byte {
	b = bytes.ReplaceAll(b, []byte("\r\n"), []byte("\n"))
	return bytes.ReplaceAll(b, []byte("\n"), []byte("\r\n"))
}

// Classify compares committed content with the complete renderings.
func Classify(got []byte, expected map[int][]byte, m int) string {
	g := Canon(got)
	if exp, ok := expected[m]; ok && bytes.Equal(g, Canon(exp)) {
		return "complete"
	}
	for _, exp := range expected {
		if bytes.Equal(g, Canon(exp)) {
			return "other" // complete rendering of a message of another envelope
		}
	}
	if exp, ok := expected[m]; ok && bytes.HasPrefix(Canon(exp), bytes.TrimRight(g, "\r\n")) {
		return "prefix"
	}
	return "other"
}

func (x *session) startTLS() bool {
	if x.s.cfg.HSStall {
		x.stall()
		return false
	}
	if x.s.cfg.HSGarbage {
		// answer the client's first bytes (a ClientHello) with something that is not TLS; written
		// earlier it would be swallowed by the client's cleartext reader together with the 220
		_ = x.c.SetReadDeadline(time.Now().Add(10 * time.Second))
		_, _ = x.br.Peek(1)
		_ = x.write("this is not a TLS record at all\r\n")
		x.emit("tls", "ok", false)
		// drain; anything that is not a TLS record is recorded as cleartext
		var seen []byte
		buf := make([]byte, 4096)
		_ = x.c.SetReadDeadline(time.Now().Add(10 * time.Second))
		for {
			n, err := x.br.Read(buf)
			if len(seen) < 8192 {
				seen = append(seen, buf[:n]...)
			}
			if err != nil {
				break
			}
		}
		x.clearLines(seen)
		x.emit("sclose", "indata", false, "partial", 0)
		return false
	}
	tap := &tapConn{Conn: x.c}
	tc := tls.Server(tap, x.s.cfg.TLS)
	_ = tc.SetDeadline(time.Now().Add(10 * time.Second))
	err := tc.Handshake()
	_ = tc.SetDeadline(time.Time{})
	x.emit("tls", "ok", err == nil)
	if err != nil {
		// bytes that were sent instead of a ClientHello are cleartext: record them as commands
		x.clearLines(tap.seen)
		return false
	}
	x.c = tc
	x.br = bufio.NewReader(tc)
	x.enc = true
	return true
}

// tapConn remembers what was read while a handshake was attempted.
type tapConn struct {
	net.Conn
	seen []byte
}

func (t *tapConn) Read(p []byte) (int, error) {
	n, err := t.Conn.Read(p)
	if len(t.seen) < 4096 {
		t.seen = append(t.seen, p[:n]...)
	}
	return n, err
}

// clearLines emits command events for cleartext found where a TLS record was expected.
func (x *session) clearLines(b []byte) {
	if len(b) == 0 || b[0] == 0x16 {
		return // a TLS handshake record: nothing in clear
	}
	for _, l := range strings.Split(string(b), "\n") {
		raw := strings.TrimRight(l, "\r")
		if raw == "" {
			continue
		}
		verb := strings.ToUpper(strings.SplitN(raw, " ", 2)[0])
		switch verb {
		case "EHLO", "HELO", "MAIL", "RCPT", "DATA", "RSET", "NOOP", "QUIT", "STARTTLS", "AUTH":
		default:
			verb = "OTHER"
		}
		cred := x.s.cfg.CredScan != nil && x.s.cfg.CredScan(raw)
		x.emit("cmd", "verb", verb, "m", 0, "r", 0, "params", []string{}, "enc", false, "cred", cred,
			"mech", "", "wf", true, "line", clip(raw), "unexpected_clear", true)
	}
}

func (x *session) tlsState() *tls.ConnectionState {
	if tc, ok := x.c.(*tls.Conn); ok {
		st := tc.ConnectionState()
		return &st
	}
	return nil
}

func replyClass(code int) string {
	switch {
	case code >= 500:
		return "p5"
	case code >= 400:
		return "t4"
	}
	return "ok"
}

func (x *session) auth(arg string) bool {
	s := x.s
	key := Key{"AUTH", 0, 0}
	if s.cfg.Auth == nil {
		if _, bad := x.fault(key); bad {
			return x.reply(key, "", nil)
		}
		x.emit("reply", "code", 504, "cls", "p5", "esc", "", "caps", []string{})
		return x.write("504 unrecognised authentication type\r\n") == nil
	}
	h := s.cfg.Auth(x.tlsState())
	parts := strings.SplitN(arg, " ", 2)
	mech := strings.ToUpper(parts[0])
	var msg []byte
	has := false
	if len(parts) == 2 && parts[1] != "" {
		has = true
		if parts[1] != "=" {
			msg, _ = base64.StdEncoding.DecodeString(parts[1])
		}
	}
	for j := 0; ; j++ {
		if f, bad := x.fault(key); bad {
			if f.Class != "mal" {
				return x.reply(key, "", nil)
			}
			x.emit("reply", "code", 334, "cls", "mal", "esc", "", "caps", []string{})
			if x.write("334 %%%this-is-not-base64%%%\r\n") != nil {
				return false
			}
		} else {
			step := h.Step(j, mech, msg, has)
			x.emit("reply", "code", step.Code, "cls", replyClass(step.Code), "esc", "", "caps", []string{})
			if x.write(fmt.Sprintf("%d %s\r\n", step.Code, step.Text)) != nil {
				return false
			}
			if step.Code != 334 {
				return true
			}
		}
		line, err := x.readLine()
		if err != nil {
			x.emit("sclose", "indata", false, "partial", len(line))
			return false
		}
		raw := strings.TrimRight(line, "\r\n")
		if s.cfg.RawLines {
			x.emit("rawline", "b", lineBytes(line), "crlf", strings.HasSuffix(line, "\r\n"))
		}
		if raw == "*" {
			x.emit("cmd", "verb", "ABORT", "m", 0, "r", 0, "params", []string{}, "enc", x.enc,
				"cred", false, "mech", "", "wf", strings.HasSuffix(line, "\r\n"), "line", "*")
			return x.reply(Key{"ABORT", 0, 0}, "", nil)
		}
		cred := false
		if s.cfg.CredScan != nil {
			cred = s.cfg.CredScan(raw)
		}
		x.emit("cmd", "verb", "AUTHRESP", "m", 0, "r", j+1, "params", []string{}, "enc", x.enc,
			"cred", cred, "mech", "", "wf", strings.HasSuffix(line, "\r\n"), "line", clip(raw))
		msg, _ = base64.StdEncoding.DecodeString(raw)
		has = true
		key = Key{"AUTHRESP", 0, j + 1}
	}
}

func (s *Server) serve(c net.Conn, id int) {
	x := &session{s: s, c: c, id: id}
	if s.cfg.Implicit && s.cfg.HSStall { // the connection is accepted, the ClientHello is never answered
		defer func() { _ = c.Close() }()
		x.stall()
		return
	}
	if s.cfg.Implicit {
		tap := &tapConn{Conn: c}
		tc := tls.Server(tap, s.cfg.TLS)
		_ = tc.SetDeadline(time.Now().Add(10 * time.Second))
		err := tc.Handshake()
		_ = tc.SetDeadline(time.Time{})
		x.emit("tls", "ok", err == nil)
		if err != nil {
			// bytes that were sent instead of a ClientHello are cleartext: record them as commands
			x.clearLines(tap.seen)
			x.emit("sclose", "indata", false, "partial", 0)
			_ = c.Close()
			return
		}
		x.c, x.enc = tc, true
	}
	x.br = bufio.NewReader(x.c)
	defer func() { _ = x.c.Close() }()

	// listen for bytes sent before the greeting
	_ = x.c.SetReadDeadline(time.Now().Add(s.cfg.Greeting))
	first, perr := x.br.Peek(1)
	_ = x.c.SetReadDeadline(time.Time{})
	early := perr == nil
	if early && !x.enc && first[0] == 0x16 { // a TLS ClientHello on a cleartext port
		x.emit("tlshello")
		x.emit("sclose", "indata", false, "partial", 0)
		return
	}
	if perr != nil {
		if ne, ok := perr.(net.Error); !ok || !ne.Timeout() {
			x.emit("sclose", "indata", false, "partial", 0)
			return
		}
	}
	gk := Key{"GREET", 0, 0}
	if f, bad := x.fault(gk); bad {
		switch f.Class {
		case "drop":
			x.emit("drop")
			return
		case "stall":
			x.stall()
			return
		case "garbage":
			x.emit("greet", "code", 0, "cls", "garbage", "early", early)
			if x.write("\x16\x03\x01 not a greeting\r\n") != nil {
				return
			}
		default:
			code, text, _ := ReplyFor(f)
			x.emit("greet", "code", code, "cls", f.Class, "early", early)
			if x.write(fmt.Sprintf("%d %s\r\n", code, text)) != nil {
				return
			}
		}
	} else {
		x.emit("greet", "code", 220, "cls", "ok", "early", early)
		if x.write("220 refsmtp.test ESMTP ready\r\n") != nil {
			return
		}
	}
	x.serveCmds()
}
