// Package session replays scenarios of the TLA+ model Session.tla against the
// real go-mail client and records the observable events.
package session

import (
	"bytes"
	"context"
	"crypto/ecdsa"
	"crypto/ed25519"
	"crypto/elliptic"
	"crypto/rand"
	"crypto/tls"
	"crypto/x509"
	"crypto/x509/pkix"
	"encoding/base64"
	"encoding/hex"
	"encoding/json"
	"errors"
	"fmt"
	"io"
	"math/big"
	"net"
	"os"
	"runtime"
	"sort"
	"strconv"
	"strings"
	"sync"
	"time"

	mail "github.com/wneessen/go-mail"
	maillog "github.com/wneessen/go-mail/log"
	"github.com/wneessen/go-mail/smtp"

	"verif/harness/pipeconn"
	"verif/harness/rec"
	"verif/harness/refsmtp"
	"verif/harness/sasl"
)

// TLSDir is where the CA certificate is written (set by main).
var TLSDir = os.TempDir()

// EnvChoice is one fault of a scenario.
type EnvChoice struct {
	V  string `json:"v"`
	M  int    `json:"m"`
	R  int    `json:"r"`
	C  string `json:"c"`
	Sh string `json:"sh"`
}

// Cfg mirrors the cfg record of Session.tla.
type Cfg struct {
	// onMid (not part of the scenario record): called by the body producer of a message between the two halves of its content
	onMid func()

	Op        string   `json:"op"`
	Nr        []int    `json:"nr"`
	Enc8      []bool   `json:"enc8"`
	Rf        []string `json:"rf"`
	Caps      []string `json:"caps"`
	Dsn       string   `json:"dsn"`
	Nonoop    bool     `json:"nonoop"`
	Cs        int      `json:"cs"`
	Policy    string   `json:"policy"`
	Authtype  string   `json:"authtype"`
	Noenc     bool     `json:"noenc"`
	Hostkind  string   `json:"hostkind"`
	Logauth   bool     `json:"logauth"`
	Debug     bool     `json:"debug"`
	Starttls  bool     `json:"starttls"`
	Authlist  []string `json:"authlist"`
	Hs        string   `json:"hs"`
	Caps2     []string `json:"caps2"`
	Logger    string   `json:"logger"` // capture (default), std, json
	Fallback  bool     `json:"fallback"`
	Latedebug bool     `json:"latedebug"` // debug logging is switched on while the AUTH exchange is in flight
	Variant   string   `json:"variant"`   // "", ctxdl, ctxcancel, latereply, customport, sslflag (environment variants)
	Redial    bool     `json:"redial"`    // dial with TLS policy none first, then set the policy of the scenario and run the operation
	Big       bool     `json:"-"`         // attachments larger than every buffer on the way (content stalls)
}

// gate hooks of the smtp package (build tag verif), dispatched by goroutine
var (
	hookMu sync.Mutex
	hooks  = map[int64]func(event, detail string){}
)

func goid() int64 {
	var buf [64]byte
	n := runtime.Stack(buf[:], false)
	f := bytes.Fields(buf[:n])
	if len(f) < 2 {
		return -1
	}
	id, _ := strconv.ParseInt(string(f[1]), 10, 64)
	return id
}

func setHook(id int64, h func(event, detail string)) {
	hookMu.Lock()
	defer hookMu.Unlock()
	if h == nil {
		delete(hooks, id)
		return
	}
	hooks[id] = h
}

// InstallHooks routes smtp.VerifHook to the per-goroutine hooks of this package.
func InstallHooks() {
	smtp.VerifHook = func(event, detail string) {
		hookMu.Lock()
		h := hooks[goid()]
		hookMu.Unlock()
		if h != nil {
			h(event, detail)
		}
	}
}

// listenLoopback binds ports 465 (primary, when wanted) and 25 (fallback, when wanted) on a loopback
// address that no other scenario uses and serves them with the given reference servers.
func listenLoopback(t int, primary, fallback bool, srvPrimary, srvFallback *refsmtp.Server) (string, []net.Listener, error) {
	var lastErr error
	for try := 0; try < 50; try++ {
		n := (os.Getpid()*7919 + t*31 + try*1009) & 0xffffff
		ip := fmt.Sprintf("127.%d.%d.%d", 1+(n>>16)%250, (n>>8)&0xff, 1+n&0xff%250)
		var lns []net.Listener
		ok := true
		// both ports are bound in any case, so that no other scenario can take this address;
		// a port that the scenario does not want is closed again at once
		for _, p := range []struct {
			port string
			want bool
			srv  *refsmtp.Server
		}{{"465", primary, srvPrimary}, {"25", fallback, srvFallback}} {
			l, err := net.Listen("tcp", ip+":"+p.port)
			if err != nil {
				lastErr, ok = err, false
				break
			}
			if !p.want {
				_ = l.Close()
				continue
			}
			lns = append(lns, l)
			srv := p.srv
			go func() {
				for {
					c, err := l.Accept()
					if err != nil {
						return
					}
					srv.Go(c)
				}
			}()
		}
		if ok {
			return ip, lns, nil
		}
		for _, l := range lns {
			_ = l.Close()
		}
	}
	return "", nil, fmt.Errorf("no loopback address with free ports 465 and 25: %v", lastErr)
}

// Credentials of the one account the reference server knows.
const (
	User = "verif.user@example.test"
	Pass = "s3cr3t-Passw0rd!of-verif"
)

// CredScan reports whether text carries the password in clear, or inside any base64 token
// (AUTH PLAIN initial response, LOGIN password step, XOAUTH2 bearer token), or hex encoded.
func CredScan(pass string) func(string) bool {
	return func(text string) bool {
		if strings.Contains(text, pass) {
			return true
		}
		if strings.Contains(strings.ToLower(text), hex.EncodeToString([]byte(pass))) {
			return true
		}
		for _, tok := range strings.FieldsFunc(text, func(r rune) bool {
			return !(r >= 'A' && r <= 'Z' || r >= 'a' && r <= 'z' || r >= '0' && r <= '9' || r == '+' || r == '/' || r == '=')
		}) {
			if len(tok) < 8 {
				continue
			}
			for _, enc := range []*base64.Encoding{base64.StdEncoding, base64.RawStdEncoding} {
				if dec, err := enc.DecodeString(tok); err == nil && bytes.Contains(dec, []byte(pass)) {
					return true
				}
			}
		}
		return false
	}
}

// passOf: the password of the scenario; variant "longcred" uses one of several hundred characters (a passphrase, a token), so that
// the lines of the exchange are longer than 512 octets.
func passOf(cfg Cfg) string {
	if cfg.Variant == "longcred" {
		return Pass + strings.Repeat("-long-0123456789abcdef", 20)
	}
	return Pass
}

func rawMech(t, host, pass string) smtp.Auth {
	switch t {
	case "PLAIN":
		return smtp.PlainAuth("", User, pass, host, false)
	case "PLAIN-NOENC":
		return smtp.PlainAuth("", User, pass, host, true)
	case "LOGIN":
		return smtp.LoginAuth(User, pass, host, false)
	case "LOGIN-NOENC":
		return smtp.LoginAuth(User, pass, host, true)
	case "CRAM-MD5":
		return smtp.CRAMMD5Auth(User, pass)
	case "XOAUTH2":
		return smtp.XOAuth2Auth(User, pass)
	case "SCRAM-SHA-1":
		return smtp.ScramSHA1Auth(User, pass)
	}
	return smtp.ScramSHA256Auth(User, pass)
}

var authTypes = map[string]mail.SMTPAuthType{
	"PLAIN": mail.SMTPAuthPlain, "PLAIN-NOENC": mail.SMTPAuthPlainNoEnc, "LOGIN": mail.SMTPAuthLogin,
	"LOGIN-NOENC": mail.SMTPAuthLoginNoEnc, "CRAM-MD5": mail.SMTPAuthCramMD5, "XOAUTH2": mail.SMTPAuthXOAUTH2,
	"SCRAM-SHA-1": mail.SMTPAuthSCRAMSHA1, "SCRAM-SHA-256": mail.SMTPAuthSCRAMSHA256,
	"SCRAM-SHA-1-PLUS": mail.SMTPAuthSCRAMSHA1PLUS, "SCRAM-SHA-256-PLUS": mail.SMTPAuthSCRAMSHA256PLUS,
	"AUTODISCOVER": mail.SMTPAuthAutoDiscover,
}

// logTap receives one formatted record per Write (standard and JSON loggers) or per call
// (custom logger) and turns it into a log event.
type logTap struct {
	r    *rec.Recorder
	scan func(string) bool
	mute *bool // the warm-up dial of variant "warmup" is not part of the recorded scenario
}

func (l *logTap) record(dir, text string) {
	if l.mute != nil && *l.mute {
		return
	}
	l.r.Emit("log", "dir", dir, "leak", l.scan(text), "redacted", strings.Contains(text, "<SMTP auth data redacted>"),
		"text", clipS(text, 300), "post", false, "verbatim", true, "after", false)
}

func (l *logTap) Write(p []byte) (int, error) {
	t := string(p)
	dir := "s2c"
	if strings.Contains(t, "C --> S") || strings.Contains(t, `"from":"client"`) {
		dir = "c2s"
	}
	l.record(dir, t)
	return len(p), nil
}

func (l *logTap) logf(x maillog.Log) {
	dir := "s2c"
	if x.Direction == maillog.DirClientToServer {
		dir = "c2s"
	}
	l.record(dir, fmt.Sprintf(x.Format, x.Messages...))
}
func (l *logTap) Debugf(x maillog.Log) { l.logf(x) }
func (l *logTap) Infof(x maillog.Log)  { l.logf(x) }
func (l *logTap) Warnf(x maillog.Log)  { l.logf(x) }
func (l *logTap) Errorf(x maillog.Log) { l.logf(x) }

func clipS(s string, n int) string {
	if len(s) > n {
		return s[:n]
	}
	return s
}

// "post" means: after the AUTH exchange ended successfully (235). A failed exchange ends the
// dial; the "*" and QUIT that smtp.Client.Auth itself issues belong to the exchange.
// PostProcessLogs pairs the k-th client-to-server log record with the k-th command the server read
// (the client logs every command exactly once, before writing it) and the k-th server-to-client
// record with the k-th reply, and fills in: post (the paired command comes after the end of the
// AUTH exchange) and verbatim (the record shows the wire text).
func PostProcessLogs(evs []rec.Ev) {
	var cmds, replies, c2s, s2c []int
	afterEod := false
	authReply := -1 // index into replies of the reply to the last AUTH / AUTHRESP / ABORT command
	lastAuth := -1  // index into cmds of that command
	pendingAuth := false
	authOK := -1 // index into cmds of the command that was answered with 235
	for i, e := range evs {
		switch e["ev"] {
		case "cmd":
			if u, _ := e["unexpected_clear"].(bool); u {
				continue
			}
			cmds = append(cmds, i)
			afterEod = false
			switch e["verb"] {
			case "AUTH", "AUTHRESP", "ABORT":
				lastAuth = len(cmds) - 1
				pendingAuth = true
			default:
				pendingAuth = false
			}
		case "eod":
			afterEod = true
		case "reply":
			if afterEod { // dataCloser.Close reads this reply without logging it
				afterEod = false
				continue
			}
			replies = append(replies, i)
			if code, _ := e["code"].(int); pendingAuth && code == 235 {
				authReply = len(replies) - 1
				authOK = lastAuth
			}
		case "log":
			if e["dir"] == "c2s" {
				c2s = append(c2s, i)
			} else {
				s2c = append(s2c, i)
			}
		}
	}
	authRet := -1 // index of the event that marks the return of smtp.Client.Auth (RawAuth scenarios)
	for i, e := range evs {
		if e["ev"] == "authret" {
			authRet = i
		}
	}
	for _, i := range append(append([]int{}, c2s...), s2c...) {
		evs[i]["after"] = authRet >= 0 && i > authRet
	}
	// a client-to-server record is verbatim when it carries the line of the command it belongs to. Records and
	// commands are aligned by content: logging may start late (SetDebugLog during the exchange), and a line that
	// was logged may never have reached the server (the write failed).
	ptr := 0
	for _, i := range c2s {
		text, _ := evs[i]["text"].(string)
		red, _ := evs[i]["redacted"].(bool)
		found := -1
		for k := ptr; k < len(cmds); k++ {
			line, _ := evs[cmds[k]]["line"].(string)
			if (line != "" && strings.Contains(text, line)) || (line == "" && k == ptr && !red) {
				found = k
				break
			}
		}
		if found >= 0 {
			evs[i]["post"] = authOK >= 0 && found > authOK
			evs[i]["verbatim"] = true
			ptr = found + 1
			continue
		}
		// redacted, or never seen by the server
		k := ptr
		if red && k < len(cmds) {
			ptr = k + 1 // a redacted record stands for the next command
		}
		evs[i]["post"] = authOK >= 0 && k > authOK
		evs[i]["verbatim"] = !red
	}
	for k, i := range s2c {
		red, _ := evs[i]["redacted"].(bool)
		evs[i]["post"] = authReply >= 0 && k > authReply
		evs[i]["verbatim"] = !red
	}
}

// Scenario is one terminal behaviour emitted by TLC.
type Scenario struct {
	ID   string          `json:"id"`
	Cfg  Cfg             `json:"cfg"`
	Env  []EnvChoice     `json:"env"`
	Pred json.RawMessage `json:"pred"`
	Ret  json.RawMessage `json:"ret"`
}

func sender(m int) string      { return fmt.Sprintf("sender%d@from.test", m) }
func rcptAddr(m, r int) string { return fmt.Sprintf("rcpt%d.%d@to.test", m, r) }

var errProducer = errors.New("scripted producer failure")

const bodyHead = "First line of the body of a message.\r\nSecond line with a trailing dot.\r\n.leading dot line\r\n"
const bodyTail = "Tail of the body after the fault point.\r\n.\r\nlast line\r\n"

// BuildMsg builds message m of a scenario. With failing=false the producers of
// the same recipe succeed: that rendering is the complete message.
func BuildMsg(m int, cfg Cfg, failing bool) (*mail.Msg, error) {
	opts := []mail.MsgOption{mail.WithBoundary(fmt.Sprintf("b0undary-%d-of-verif", m))}
	if m-1 < len(cfg.Enc8) && cfg.Enc8[m-1] {
		opts = append(opts, mail.WithEncoding(mail.NoEncoding))
	}
	msg := mail.NewMsg(opts...)
	if err := msg.From(sender(m)); err != nil {
		return nil, err
	}
	var to []string
	for r := 1; r <= cfg.Nr[m-1]; r++ {
		to = append(to, rcptAddr(m, r))
	}
	if err := msg.To(to...); err != nil {
		return nil, err
	}
	msg.Subject(fmt.Sprintf("scenario message %d", m))
	msg.SetDateWithValue(time.Date(2024, 5, 17, 10, 11, 12, 0, time.UTC))
	msg.SetMessageIDWithValue(fmt.Sprintf("verif.%d@from.test", m))
	rf := "ok"
	if m-1 < len(cfg.Rf) {
		rf = cfg.Rf[m-1]
	}
	if !failing {
		rf = "none"
	}
	switch rf {
	case "fail0":
		msg.SetBodyWriter(mail.TypeTextPlain, func(w io.Writer) (int64, error) { return 0, errProducer })
	case "failMid", "failMidSigned":
		msg.SetBodyWriter(mail.TypeTextPlain, func(w io.Writer) (int64, error) {
			n, _ := io.WriteString(w, bodyHead)
			return int64(n), errProducer
		})
	case "failEmptyErr": // a producer whose error has an empty text
		msg.SetBodyWriter(mail.TypeTextPlain, func(w io.Writer) (int64, error) {
			n, _ := io.WriteString(w, bodyHead)
			return int64(n), errors.New("")
		})
	case "failShortErr": // ... or a text that is shorter than a reply code
		msg.SetBodyWriter(mail.TypeTextPlain, func(w io.Writer) (int64, error) {
			n, _ := io.WriteString(w, bodyHead)
			return int64(n), errors.New("5")
		})
	case "failEOF": // a producer whose source ends early reports io.EOF / io.ErrUnexpectedEOF
		msg.SetBodyWriter(mail.TypeTextPlain, func(w io.Writer) (int64, error) {
			n, _ := io.WriteString(w, bodyHead)
			return int64(n), fmt.Errorf("source ended early: %w", io.EOF)
		})
	default:
		oneShot := failing && cfg.Variant == "oneshot" // a source that can be read once (a stream): a second call finds nothing left
		used := false
		onMid := cfg.onMid
		msg.SetBodyWriter(mail.TypeTextPlain, func(w io.Writer) (int64, error) {
			if oneShot && used {
				return 0, nil
			}
			used = true
			if onMid != nil && failing {
				n1, err := io.WriteString(w, bodyHead)
				if err != nil {
					return int64(n1), err
				}
				onMid()
				n2, err := io.WriteString(w, bodyTail)
				return int64(n1 + n2), err
			}
			mid := ""
			if cfg.Variant == "crbody" { // an unencoded body with lines that end in a bare CR, dots right after them
				mid = "a line that ends in a bare carriage return\r.a dot after it\r.\rand a lone dot between two of them\r\n"
			}
			n, err := io.WriteString(w, bodyHead+mid+bodyTail)
			return int64(n), err
		})
	}
	if rf == "failMidSigned" { // a message that IS signed (the signing render and the wire render both call the producers)
		key, cert, err := signingMaterial()
		if err != nil {
			return nil, err
		}
		if err = msg.SignWithKeypair(key, cert, nil); err != nil {
			return nil, fmt.Errorf("SignWithKeypair: %w", err)
		}
	}
	if rf == "failSign" { // S/MIME signing fails when the message is rendered: WriteTo returns 0 bytes and an error
		key, cert, err := unsignableMaterial()
		if err != nil {
			return nil, err
		}
		if err = msg.SignWithKeypair(key, cert, nil); err != nil {
			return nil, fmt.Errorf("SignWithKeypair refused the key already: %w", err)
		}
	}
	if rf == "failAtt" {
		msg.AttachReadSeeker("data.bin", &failSeeker{})
	} else if rf == "failAttEOF" {
		msg.AttachReadSeeker("data.bin", &failSeeker{err: io.ErrUnexpectedEOF, data: attachment(m)[:100]})
	} else if rf == "failEmptyErr" || rf == "failShortErr" {
		// (a message without attachment: the producer's error is the one that reaches the client unwrapped)
	} else {
		att := attachment(m)
		if cfg.Big {
			att = bytes.Repeat(att, 40)
		}
		msg.AttachReadSeeker("data.bin", bytes.NewReader(att))
	}
	return msg, nil
}

var (
	unsignOnce sync.Once
	unsignKey  ed25519.PrivateKey
	unsignCert *x509.Certificate
	unsignErr  error
)

var (
	signOnce sync.Once
	signKey  *ecdsa.PrivateKey
	signCert *x509.Certificate
	signErr  error
)

// signingMaterial is a self-signed ECDSA key pair for S/MIME signing.
func signingMaterial() (*ecdsa.PrivateKey, *x509.Certificate, error) {
	signOnce.Do(func() {
		signKey, signErr = ecdsa.GenerateKey(elliptic.P256(), rand.Reader)
		if signErr != nil {
			return
		}
		tpl := &x509.Certificate{SerialNumber: big.NewInt(77), Subject: pkix.Name{CommonName: "verif signer"},
			NotBefore: time.Now().Add(-time.Hour), NotAfter: time.Now().Add(24 * time.Hour),
			KeyUsage: x509.KeyUsageDigitalSignature, EmailAddresses: []string{"sender1@from.test"}}
		var der []byte
		if der, signErr = x509.CreateCertificate(rand.Reader, tpl, tpl, &signKey.PublicKey, signKey); signErr != nil {
			return
		}
		signCert, signErr = x509.ParseCertificate(der)
	})
	return signKey, signCert, signErr
}

// unsignableMaterial is a key pair SignWithKeypair accepts but the PKCS#7 signer cannot sign with (Ed25519).
func unsignableMaterial() (ed25519.PrivateKey, *x509.Certificate, error) {
	unsignOnce.Do(func() {
		pub, priv, err := ed25519.GenerateKey(rand.Reader)
		if err != nil {
			unsignErr = err
			return
		}
		tpl := &x509.Certificate{SerialNumber: big.NewInt(77), Subject: pkix.Name{CommonName: "verif ed25519"},
			NotBefore: time.Now().Add(-time.Hour), NotAfter: time.Now().Add(240 * time.Hour), KeyUsage: x509.KeyUsageDigitalSignature}
		der, err := x509.CreateCertificate(rand.Reader, tpl, tpl, pub, priv)
		if err != nil {
			unsignErr = err
			return
		}
		unsignKey = priv
		unsignCert, unsignErr = x509.ParseCertificate(der)
	})
	return unsignKey, unsignCert, unsignErr
}

func attachment(m int) []byte {
	b := make([]byte, 300)
	for i := range b {
		b[i] = byte((i*7 + m) % 256)
	}
	return b
}

// failSeeker yields data and then fails with err (errProducer by default) instead of io.EOF.
type failSeeker struct {
	err  error
	data []byte
	pos  int
}

func (f *failSeeker) Read(p []byte) (int, error) {
	if f.pos < len(f.data) {
		n := copy(p, f.data[f.pos:])
		f.pos += n
		return n, nil
	}
	if f.err != nil {
		return 0, f.err
	}
	return 0, errProducer
}

func (f *failSeeker) Seek(o int64, w int) (int64, error) { f.pos = 0; return 0, nil }

var reasonNames = map[mail.SendErrReason]string{
	mail.ErrGetSender: "getsender", mail.ErrGetRcpts: "getrcpts", mail.ErrSMTPMailFrom: "mail",
	mail.ErrSMTPRcptTo: "rcpt", mail.ErrSMTPData: "data", mail.ErrSMTPDataClose: "dataclose",
	mail.ErrSMTPReset: "reset", mail.ErrWriteContent: "writecontent", mail.ErrConnCheck: "conncheck",
	mail.ErrNoUnencoded: "noenc", mail.ErrAmbiguous: "ambiguous",
}

func rcptIndices(e *mail.SendError, m int, cfg Cfg) []int {
	// SendError has no accessor for the rejected recipients: they are what its text lists. The text is searched
	// for the recipient addresses of the scenario (robust against a change of the wording): the recipients of
	// this message by their number, a recipient of another message as 0.
	type hit struct{ pos, idx int }
	hits := []hit{}
	s := e.Error()
	for mm := 1; mm <= len(cfg.Nr); mm++ {
		for r := 1; r <= cfg.Nr[mm-1]; r++ {
			if p := strings.Index(s, rcptAddr(mm, r)); p >= 0 {
				idx := r
				if mm != m {
					idx = 0
				}
				hits = append(hits, hit{p, idx})
			}
		}
	}
	sort.Slice(hits, func(i, j int) bool { return hits[i].pos < hits[j].pos })
	out := []int{}
	for _, h := range hits {
		out = append(out, h.idx)
	}
	return out
}

func msgResult(msg *mail.Msg, m int, cfg Cfg) map[string]interface{} {
	res := map[string]interface{}{
		"delivered": msg.IsDelivered(), "haserr": msg.HasSendError(), "reason": "", "code": 0,
		"temp": false, "temp2": msg.SendErrorIsTemp(), "esc": "", "rcpts": []int{}, "ownmsg": true,
	}
	var se *mail.SendError
	if err := msg.SendError(); err != nil && errors.As(err, &se) {
		name, ok := reasonNames[se.Reason]
		if !ok {
			name = fmt.Sprintf("reason%d", int(se.Reason))
		}
		res["reason"] = name
		res["code"] = se.ErrorCode()
		res["temp"] = se.IsTemp()
		// the error names the message it belongs to
		res["ownmsg"] = se.Msg() == msg && se.MessageID() == msg.GetMessageID()
		res["esc"] = se.EnhancedStatusCode()
		res["rcpts"] = rcptIndices(se, m, cfg)
	}
	return res
}

// joinedEntries lists, for every entry of a joined send error, the 1-based index of the message it names (0: none
// of the messages of the call, or not a SendError).
func joinedEntries(err error, msgs []*mail.Msg) []int {
	out := []int{}
	var walk func(e error)
	walk = func(e error) {
		if e == nil {
			return
		}
		if j, ok := e.(interface{ Unwrap() []error }); ok {
			for _, x := range j.Unwrap() {
				walk(x)
			}
			return
		}
		if u := errors.Unwrap(e); u != nil {
			if _, ok := u.(interface{ Unwrap() []error }); ok {
				walk(u)
				return
			}
		}
		idx := 0
		var se *mail.SendError
		if errors.As(e, &se) {
			for i, m := range msgs {
				if se.Msg() == m {
					idx = i + 1
				}
			}
		}
		out = append(out, idx)
	}
	walk(err)
	return out
}

func countJoined(err error) int {
	if err == nil {
		return 0
	}
	if j, ok := err.(interface{ Unwrap() []error }); ok {
		n := 0
		for _, e := range j.Unwrap() {
			n += countJoined(e)
		}
		return n
	}
	if u := errors.Unwrap(err); u != nil {
		if _, ok := u.(interface{ Unwrap() []error }); ok {
			return countJoined(u)
		}
	}
	return 1
}

func topReason(err error, msgs []*mail.Msg) string {
	if err == nil {
		return ""
	}
	var se *mail.SendError
	if errors.As(err, &se) && se.Reason == mail.ErrConnCheck {
		return "conncheck"
	}
	s := err.Error()
	switch {
	case strings.HasPrefix(s, "dial failed"):
		return "dial"
	case strings.HasPrefix(s, "failed to close connection"):
		return "close"
	}
	return ""
}

// Timing bounds. Scenarios without a stall use a long client timeout so that a
// loaded machine cannot cause spurious timeouts; the watchdog only fires on hangs.
const (
	LongTimeout  = 20 * time.Second
	StallTimeout = 100 * time.Millisecond
	StallBound   = 5 * time.Second // max(20 x timeout, 5 s): the slack the property grants
	Watchdog     = 40 * time.Second
)

// Runner replays one scenario.
type Runner struct {
	Sc  Scenario
	Rec *rec.Recorder
	T   int

	srv    *refsmtp.Server
	tracks []*refsmtp.TrackConn
	stall  bool
	Infra  error // set when the harness itself failed (never a verdict)

	midCancel func() // variant ctxcancelmid: cancels the context of the operation (called from inside a body producer)
}

// timed runs f under the watchdog and reports the elapsed class.
func (rn *Runner) timed(f func()) string {
	done := make(chan struct{})
	start := time.Now()
	go func() {
		defer close(done)
		// a panic inside the library ends the call: it is recorded, and the scenario goes on with whatever
		// result variables the call had set by then (the monitors then judge what the panic left behind)
		defer func() {
			if x := recover(); x != nil {
				rn.Rec.Emit("panic", "text", fmt.Sprint(x))
			}
		}()
		f()
	}()
	bound := Watchdog
	if rn.stall {
		bound = StallBound
	}
	select {
	case <-done:
		_ = start
		return "within"
	case <-time.After(bound):
		// unblock the call: release the server and cut the transport
		rn.srv.Release()
		rn.srv.Kill()
		for _, t := range rn.tracks {
			t.ForceClose()
		}
		select {
		case <-done:
		case <-time.After(Watchdog):
			if rn.stall {
				// the call does not even return when its transport is gone: it is blocked for good (the
				// goroutine is abandoned). For a scenario with a stall that is an observation, not a failure
				// of the machinery.
				return "never"
			}
			rn.Infra = errors.New("call did not return after the transport was cut")
		}
		if !rn.stall {
			rn.Infra = errors.New("watchdog fired in a scenario without a stall")
		}
		return "late"
	}
}

// Run replays the scenario and returns its trace lines.
func (rn *Runner) Run() {
	sc := rn.Sc
	cfg := sc.Cfg
	r := rn.Rec
	var cfgRaw map[string]interface{}
	b, _ := json.Marshal(cfg)
	_ = json.Unmarshal(b, &cfgRaw)
	haspred := len(sc.Pred) > 0 && len(sc.Ret) > 0
	pred, pret := sc.Pred, sc.Ret
	if !haspred {
		pred, pret = json.RawMessage("[]"), json.RawMessage(`{"op":"none","err":false}`)
	}
	r.Emit("begin", "t", rn.T, "scn", sc.ID, "cfg", cfgRaw, "haspred", haspred, "pred", pred, "pret", pret, "env", sc.Env)

	// server script
	faults := map[refsmtp.Key]refsmtp.Fault{}
	for i, e := range sc.Env {
		if e.C == "xclose" || e.C == "xnoop" { // happens on the client side
			continue
		}
		faults[refsmtp.Key{V: e.V, M: e.M, R: e.R}] = refsmtp.Fault{K: i + 1, Class: e.C, Shape: e.Sh, Rot: cfg.Cs}
		if e.C == "stall" || e.C == "cstall" {
			rn.stall = true
		}
		if e.C == "cstall" || e.C == "cwfail" {
			cfg.Big = true
		}
	}
	if cfg.Variant == "ctxcancelmid" {
		cfg.onMid = func() {
			if rn.midCancel != nil {
				rn.midCancel()
			}
		}
	}
	addr := map[string][2]int{}
	expected := map[int][]byte{}
	n := len(cfg.Nr)
	msgs := make([]*mail.Msg, n)
	for m := 1; m <= n; m++ {
		addr[sender(m)] = [2]int{m, 0}
		for k := 1; k <= cfg.Nr[m-1]; k++ {
			addr[rcptAddr(m, k)] = [2]int{m, k}
		}
		twin, err := BuildMsg(m, cfg, false)
		if err != nil {
			rn.Infra = err
			return
		}
		var buf bytes.Buffer
		if _, err = twin.WriteTo(&buf); err != nil {
			rn.Infra = fmt.Errorf("twin render failed: %w", err)
			return
		}
		expected[m] = buf.Bytes()
		if msgs[m-1], err = BuildMsg(m, cfg, true); err != nil {
			rn.Infra = err
			return
		}
	}
	scan := CredScan(passOf(cfg))
	caps := append([]string{}, cfg.Caps...)
	caps2 := append([]string{}, cfg.Caps2...)
	if len(cfg.Authlist) > 0 {
		caps = append(caps, "AUTH "+strings.Join(cfg.Authlist, " "))
		caps2 = append(caps2, "AUTH "+strings.Join(cfg.Authlist, " "))
	}
	if cfg.Starttls {
		caps = append(caps, "STARTTLS")
	}
	scfg := refsmtp.Config{Caps: caps, Caps2: caps2, Faults: faults, Addr: addr, Expected: expected, CredScan: scan}
	if cfg.Starttls || cfg.Policy == "mandatory" || cfg.Policy == "opportunistic" || cfg.Policy == "implicit" {
		mat, err := refsmtp.Material(TLSDir)
		if err != nil {
			rn.Infra = err
			return
		}
		scfg.TLS = mat.ServerConfig(cfg.Hs, 0)
		scfg.HSGarbage = cfg.Hs == "garbage"
		scfg.HSStall = cfg.Hs == "stall"
		if cfg.Hs == "stall" {
			rn.stall = true
		}
	}
	if cfg.Authtype != "" && cfg.Authtype != "NOAUTH" {
		scfg.Auth = func(st *tls.ConnectionState) refsmtp.AuthHandler {
			return &refsmtp.HonestAuth{Creds: sasl.Creds{User: User, Pass: passOf(cfg)}, NormUser: User, NormPass: passOf(cfg),
				Salt: []byte("verif-salt-0123"), Iter: 64, NonceSuffix: "srvNonce" + fmt.Sprint(rn.T),
				Challenge: fmt.Sprintf("<%d.verif@refsmtp.test>", rn.T), TLS: st}
		}
	}
	scfg.Implicit = cfg.Policy == "implicit"
	scfg.MultiOK = cfg.Variant == "multiok"
	if cfg.Variant == "lowercaps" { // the server spells its extension keywords in lower case; the scenario (and the model) count them as not advertised
		scfg.Caps = append(scfg.Caps, "8bitmime", "smtputf8", "dsn", "enhancedstatuscodes")
	}
	if cfg.Variant == "bigehlo" { // a server with a long list of extensions: the EHLO reply has more than a hundred lines
		for i := 0; i < 100; i++ {
			scfg.Caps = append(scfg.Caps, fmt.Sprintf("X-VERIF-EXTENSION-%03d parameter", i))
		}
	}
	if cfg.Redial { // the first dial of a redial scenario is fault-free: the script applies from the second connection on
		scfg.FaultsFromConn = 2
	}
	if cfg.Variant == "mute" {
		rn.stall = true // short client timeout and the stall bound: the second dial must not wait for the old connection
	}
	if cfg.Variant == "latereply" && rn.stall { // the silent server answers after all - one and a half timeouts later
		scfg.LateReply = StallTimeout * 3 / 2 // after the client gave up, before a renewed timeout would expire
	}
	rn.srv = refsmtp.New(scfg, r)

	refusePrimary := false
	wfail := map[refsmtp.Key]bool{}
	for _, e := range sc.Env {
		if e.C == "wfail" || e.C == "cwfail" {
			wfail[refsmtp.Key{V: e.V, M: e.M, R: e.R}] = true
		}
		if e.V == "DIAL" && e.C == "refuse" {
			refusePrimary = true
		}
	}
	// the context of the dial operations: none, one with a deadline far beyond the client timeout, or one
	// that is cancelled as soon as the transport connection exists
	opctx, opcancel := context.Background(), context.CancelFunc(func() {})
	switch cfg.Variant {
	case "ctxdl":
		opctx, opcancel = context.WithTimeout(context.Background(), 10*time.Minute)
	case "ctxcancel", "ctxcancelmid":
		opctx, opcancel = context.WithCancel(context.Background())
	}
	if cfg.Variant == "ctxcancelmid" { // the caller cancels the context of DialAndSend while a message is half-way through DATA
		rn.midCancel = func() { opcancel(); time.Sleep(30 * time.Millisecond) }
	}
	defer opcancel()
	// variant "warmup": before the scenario starts the same Client completes a dial (STARTTLS, authentication) and a Close
	// against a well-behaved server that is not part of the scenario and is not recorded; then the policy of the
	// scenario is set. What a Client does in a dial must not depend on its earlier dials.
	warmPhase := false
	var warmSrv *refsmtp.Server
	if cfg.Variant == "warmup" {
		mat, err := refsmtp.Material(TLSDir)
		if err != nil {
			rn.Infra = err
			return
		}
		wcfg := refsmtp.Config{Caps: []string{"AUTH PLAIN LOGIN", "STARTTLS"}, Caps2: []string{"AUTH PLAIN LOGIN"},
			Faults: map[refsmtp.Key]refsmtp.Fault{}, Addr: map[string][2]int{}, Expected: map[int][]byte{}, TLS: mat.ServerConfig("ok", 0)}
		if cfg.Authtype != "" && cfg.Authtype != "NOAUTH" {
			wcfg.Auth = func(st *tls.ConnectionState) refsmtp.AuthHandler {
				return &refsmtp.HonestAuth{Creds: sasl.Creds{User: User, Pass: Pass}, NormUser: User, NormPass: Pass,
					Salt: []byte("warmup-salt-4567"), Iter: 64, NonceSuffix: "warmNonce", Challenge: "<warm@refsmtp.test>", TLS: st}
			}
		}
		warmSrv = refsmtp.New(wcfg, rec.New())
	}
	dials := 0
	dial := func(ctx context.Context, network, address string) (net.Conn, error) {
		if warmPhase {
			wc, ws := pipeconn.Pipe()
			warmSrv.Go(ws)
			return wc, nil
		}
		if cfg.Variant == "ctxcancel" {
			defer opcancel() // the caller gives up right after the connection was established
		}
		dials++
		r.Emit("dial", "addr", address, "n", dials)
		if refusePrimary && dials == 1 {
			return nil, fmt.Errorf("dial tcp %s: connect: connection refused (scripted)", address)
		}
		cl, sv := pipeconn.Pipe()
		rn.srv.Go(sv)
		t := refsmtp.NewTrackConnID(cl, r, len(rn.tracks)+1)
		t.WFail, t.Addr = wfail, addr
		t.Timeout = LongTimeout
		if rn.stall {
			t.Timeout = StallTimeout
		}
		rn.tracks = append(rn.tracks, t)
		return t, nil
	}
	timeout := LongTimeout
	if rn.stall {
		timeout = StallTimeout
	}
	policy := mail.NoTLS
	switch cfg.Policy {
	case "mandatory":
		policy = mail.TLSMandatory
	case "opportunistic":
		policy = mail.TLSOpportunistic
	}
	opts := []mail.Option{
		mail.WithDialContextFunc(dial), mail.WithTimeout(timeout), mail.WithHELO("client.test"),
	}
	// variant "setters": what the other variants pass as options of NewClient is set through the setter methods
	// of the Client after construction
	var post []func(*mail.Client)
	add := func(opt mail.Option, set func(*mail.Client)) {
		if cfg.Variant == "setters" {
			post = append(post, set)
			return
		}
		opts = append(opts, opt)
	}
	implicitHost := ""
	if cfg.Policy == "implicit" {
		// Implicit TLS is only in effect with the library's own dialer: real TCP on a loopback address of
		// this scenario's own, port 465 with TLS from the first byte (nothing listens when the scenario
		// refuses the primary port) and - with fallback - port 25 with a cleartext SMTP server.
		scfg2 := scfg
		scfg2.Implicit = false
		srv2 := refsmtp.New(scfg2, r)
		ip, lns, lerr := listenLoopback(rn.T, !refusePrimary, cfg.Fallback, rn.srv, srv2)
		if lerr != nil {
			r.Emit("skip", "why", clip(lerr))
			r.Emit("end", "t", rn.T)
			r.Seal()
			return
		}
		defer func() {
			for _, l := range lns {
				_ = l.Close()
			}
			srv2.Release()
			if !srv2.Wait(Watchdog) {
				srv2.Kill()
			}
		}()
		implicitHost = ip
		opts = []mail.Option{mail.WithTimeout(timeout), mail.WithHELO("client.test")}
		tc := &tls.Config{ServerName: "mail.example.test", MinVersion: tls.VersionTLS12}
		add(mail.WithSSLPort(cfg.Fallback), func(c *mail.Client) { c.SetSSLPort(true, cfg.Fallback) })
		add(mail.WithTLSConfig(tc), func(c *mail.Client) { _ = c.SetTLSConfig(tc) })
	} else if cfg.Fallback && cfg.Variant == "stalefallback" {
		// a configuration history: opportunistic port policy first (587, fallback 25), the policy of the scenario afterwards
		opts = append(opts, mail.WithTLSPortPolicy(mail.TLSOpportunistic))
		if rn.T%2 == 0 {
			post = append(post, func(c *mail.Client) { c.SetTLSPolicy(policy) })
		} else {
			post = append(post, func(c *mail.Client) { c.SetTLSPortPolicy(policy) })
		}
	} else if cfg.Fallback {
		add(mail.WithTLSPortPolicy(policy), func(c *mail.Client) { c.SetTLSPortPolicy(policy) }) // 587 with fallback to 25 when opportunistic
	} else if cfg.Variant == "customport" { // the port is chosen first (no TLS yet), the policy is tightened later through the port-policy setter
		opts = append(opts, mail.WithPort(2525), mail.WithTLSPolicy(mail.NoTLS))
	} else if cfg.Redial {
		opts = append(opts, mail.WithTLSPolicy(mail.NoTLS)) // the policy of the scenario is set after the first dial
	} else {
		add(mail.WithTLSPolicy(policy), func(c *mail.Client) { c.SetTLSPolicy(policy) })
	}
	if cfg.Variant == "sslflag" { // implicit TLS requested, but the transport comes from the caller's dial function
		if rn.T%2 == 0 {
			opts = append(opts, mail.WithSSL())
		} else { // the same through the setter
			post = append(post, func(c *mail.Client) { c.SetSSL(true) })
		}
	}
	if cfg.Variant == "sharedcfg" {
		// one tls.Config object of the application (it names no server) is handed to two Clients: first to one for the host the
		// "wrong name" certificate is valid for, then to the Client of the scenario - whose handshakes must verify against ITS host
		tc := &tls.Config{MinVersion: tls.VersionTLS12}
		if _, oerr := mail.NewClient("other.example.test", mail.WithTLSConfig(tc), mail.WithTLSPolicy(mail.TLSMandatory)); oerr != nil {
			rn.Infra = oerr
			return
		}
		add(mail.WithTLSConfig(tc), func(c *mail.Client) { _ = c.SetTLSConfig(tc) })
	}
	if cfg.Variant == "ssltoggle" { // implicit TLS requested and taken back before the dial
		if rn.T%2 == 0 {
			opts = append(opts, mail.WithSSL())
		} else {
			post = append(post, func(c *mail.Client) { c.SetSSL(true) })
		}
		post = append(post, func(c *mail.Client) { c.SetSSL(false) })
	}
	if at, ok := authTypes[cfg.Authtype]; ok {
		add(mail.WithSMTPAuth(at), func(c *mail.Client) { c.SetSMTPAuth(at) })
		add(mail.WithUsername(User), func(c *mail.Client) { c.SetUsername(User) })
		add(mail.WithPassword(passOf(cfg)), func(c *mail.Client) { c.SetPassword(passOf(cfg)) })
	}
	if cfg.Debug {
		tap := &logTap{r: r, scan: scan, mute: &warmPhase}
		var lg maillog.Logger = tap
		switch cfg.Logger {
		case "std":
			lg = maillog.New(tap, maillog.LevelDebug)
		case "json":
			lg = maillog.NewJSON(tap, maillog.LevelDebug)
		}
		add(mail.WithLogger(lg), func(c *mail.Client) { c.SetLogger(lg) })
		add(mail.WithDebugLog(), func(c *mail.Client) { c.SetDebugLog(true) })
	}
	if cfg.Logauth {
		add(mail.WithLogAuthData(), func(c *mail.Client) { c.SetLogAuthData(true) })
	}
	host := "mail.example.test"
	switch cfg.Hostkind {
	case "localhost":
		host = "localhost"
	case "loopback":
		host = []string{"127.0.0.1", "::1"}[rn.T%2]
	case "lookalike": // names that merely look like a localhost server
		host = []string{"127.mail.example.test", "localhost.example.test", "127.0.0.1.relay.example.test",
			"localhost6.example.test"}[rn.T%4]
	}
	if cfg.Nonoop {
		opts = append(opts, mail.WithoutNoop())
	}
	switch cfg.Dsn {
	case "ret":
		opts = append(opts, mail.WithDSNMailReturnType(mail.DSNMailReturnHeadersOnly))
	case "notify":
		opts = append(opts, mail.WithDSNRcptNotifyType(mail.DSNRcptNotifyFailure, mail.DSNRcptNotifySuccess))
	case "both":
		opts = append(opts, mail.WithDSNMailReturnType(mail.DSNMailReturnFull),
			mail.WithDSNRcptNotifyType(mail.DSNRcptNotifyFailure))
	}
	if implicitHost != "" {
		host = implicitHost
	}
	if cfg.Variant == "unixsock" { // the server is reached through a UNIX domain socket (the transport still comes from the dial function of the scenario)
		host = "unix:///run/verif/smtp.sock"
	}
	c, err := mail.NewClient(host, opts...)
	if err != nil {
		rn.Infra = err
		return
	}
	if cfg.Variant == "customport" {
		c.SetTLSPortPolicy(policy)
	}
	if cfg.Variant == "otherclient" {
		// the application creates another Client, for the host the "wrong name" certificate is valid for, after this one:
		// both keep the TLS configuration NewClient gave them
		if _, oerr := mail.NewClient("other.example.test", mail.WithTLSPolicy(mail.TLSMandatory)); oerr != nil {
			rn.Infra = oerr
			return
		}
	}
	for _, set := range post {
		set(c)
	}
	if warmSrv != nil && cfg.Policy != "implicit" {
		c.SetTLSPolicy(mail.TLSMandatory)
		warmPhase = true
		werr := c.DialWithContext(context.Background())
		_ = c.Close()
		warmPhase = false
		warmSrv.Kill()
		if werr != nil && cfg.Authtype != "XOAUTH2" && !strings.HasPrefix(cfg.Authtype, "SCRAM") && cfg.Authtype != "CRAM-MD5" {
			// (mechanisms the warm-up server does not offer fail the warm-up dial: that is part of the history, not an error)
			rn.Infra = fmt.Errorf("warm-up dial failed: %w", werr)
			return
		}
		c.SetTLSPolicy(policy)
	}

	sendRet := func(op string, err error, elapsed string) {
		res := make([]interface{}, n)
		for m := 1; m <= n; m++ {
			res[m-1] = msgResult(msgs[m-1], m, cfg)
		}
		inner := err
		if op == "DialAndSend" && err != nil && strings.HasPrefix(err.Error(), "send failed") {
			inner = errors.Unwrap(err)
		}
		r.Emit("ret", "op", op, "err", err != nil, "elapsed", elapsed, "top", topReason(err, msgs),
			"nerrs", countJoined(inner), "entries", joinedEntries(inner, msgs), "msgs", res, "text", clip(err))
	}

	if cfg.Redial { // a first dial under policy none, then the configuration changes
		r.Emit("setpolicy", "policy", "none")
		r.Emit("call", "op", "Dial")
		var derr error
		el := rn.timed(func() { derr = c.DialWithContext(context.Background()) })
		r.Emit("ret", "op", "Dial", "err", derr != nil, "elapsed", el, "text", clip(derr))
		if derr != nil {
			rn.Infra = fmt.Errorf("the fault-free first dial failed: %w", derr)
			return
		}
		c.SetTLSPolicy(policy)
		r.Emit("setpolicy", "policy", cfg.Policy)
		if cfg.Variant == "mute" { // the server keeps the idle first connection open but never answers on it again
			rn.srv.Mute(1)
		}
		if cfg.Variant == "gone" { // the server drops the idle first connection before the Client dials again
			rn.srv.Kill()
			time.Sleep(5 * time.Millisecond)
			r.Emit("gone")
		}
	}
	// what is handed to Send / DialAndSend: the messages - with variant "nilmsg" with a nil entry after the first one
	// (nil entries are skipped by the library; errors must still land on the message they belong to)
	batch := msgs
	if cfg.Variant == "nilmsg" && len(msgs) >= 2 {
		batch = append([]*mail.Msg{msgs[0], nil}, msgs[1:]...)
	}
	switch cfg.Op {
	case "RawAuth": // the smtp package used directly: NewClient, Auth with its lazy EHLO, Quit
		r.Emit("call", "op", "RawAuth")
		var aerr error
		var sc2 *smtp.Client
		el := rn.timed(func() {
			conn, _ := dial(context.Background(), "tcp", host+":25")
			sc2, aerr = smtp.NewClient(conn, host)
			if aerr != nil {
				return
			}
			if cfg.Debug {
				tap := &logTap{r: r, scan: scan}
				switch cfg.Logger {
				case "std":
					sc2.SetLogger(maillog.New(tap, maillog.LevelDebug))
				case "json":
					sc2.SetLogger(maillog.NewJSON(tap, maillog.LevelDebug))
				default:
					sc2.SetLogger(tap)
				}
				if !cfg.Latedebug {
					sc2.SetDebugLog(true)
				}
			}
			if cfg.Logauth {
				sc2.SetLogAuthData()
			}
			// "xclose": another goroutine closes the client right before the scripted command of the exchange
			xclose := map[refsmtp.Key]bool{}
			xnoop := map[refsmtp.Key]bool{}
			for _, e := range sc.Env {
				if e.C == "xclose" {
					xclose[refsmtp.Key{V: e.V, M: e.M, R: e.R}] = true
				}
				if e.C == "xnoop" {
					xnoop[refsmtp.Key{V: e.V, M: e.M, R: e.R}] = true
				}
			}
			if len(xclose) > 0 || len(xnoop) > 0 || (cfg.Latedebug && cfg.Debug) {
				j, started := 0, false
				id := goid()
				setHook(id, func(event, format string) {
					if event != "cmd.pre" {
						return
					}
					var k refsmtp.Key
					switch { // smtp.Client.Auth sends the AUTH command and every response with the format "%s"
					case format == "%s" && !started:
						started, j = true, 0
						k = refsmtp.Key{V: "AUTH"}
					case format == "%s":
						j++
						k = refsmtp.Key{V: "AUTHRESP", R: j}
					default:
						return
					}
					if cfg.Latedebug && cfg.Debug && k.V == "AUTHRESP" && k.R == 1 {
						sc2.SetDebugLog(true) // the caller switches debug logging on while the exchange is in flight
					}
					if xnoop[k] { // another goroutine uses the client: a complete NOOP exchange
						done := make(chan struct{})
						go func() { defer close(done); _ = sc2.Noop() }()
						<-done
					}
					if xclose[k] {
						r.Emit("xclose")
						done := make(chan struct{})
						go func() { defer close(done); _ = sc2.Close() }()
						<-done
					}
				})
				defer setHook(id, nil)
			}
			aerr = sc2.Auth(rawMech(cfg.Authtype, host, passOf(cfg)))
		})
		r.Emit("ret", "op", "RawAuth", "err", aerr != nil, "elapsed", el, "text", clip(aerr))
		r.Emit("authret")
		if cfg.Variant == "authretry" && aerr != nil && sc2 != nil {
			// the caller tries again on the same smtp.Client (other credentials, a retry after a transient refusal): the
			// records of the second exchange are redacted like those of the first (the design model stops at the first
			// return: the extra commands show up as conformance drift of this stage, not as a verdict)
			var aerr2 error
			el2 := rn.timed(func() { aerr2 = sc2.Auth(rawMech(cfg.Authtype, host, passOf(cfg))) })
			r.Emit("ret", "op", "RawAuth2", "err", aerr2 != nil, "elapsed", el2, "text", clip(aerr2))
			r.Emit("authret")
			if aerr2 == nil {
				aerr = nil
			}
		}
		if aerr != nil && sc2 != nil && !sc2.HasConnection() {
			// Auth gave up and closed the connection; whatever the caller does next is logged normally again
			// (the line is logged before the write fails)
			_ = sc2.Noop()
		}
		if aerr == nil && sc2 != nil {
			var cerr error
			el = rn.timed(func() { cerr = sc2.Quit() })
			r.Emit("ret", "op", "Close", "err", cerr != nil, "elapsed", el, "text", clip(cerr))
		}
		if sc2 != nil {
			_ = sc2.Close()
		}
	case "Send":
		r.Emit("call", "op", "Dial")
		var derr error
		el := rn.timed(func() { derr = c.DialWithContext(opctx) })
		r.Emit("ret", "op", "Dial", "err", derr != nil, "elapsed", el, "text", clip(derr))
		if derr == nil {
			r.Emit("call", "op", "Send")
			var serr error
			el = rn.timed(func() { serr = c.Send(batch...) })
			sendRet("Send", serr, el)
			var cerr error
			el = rn.timed(func() { cerr = c.Close() })
			r.Emit("ret", "op", "Close", "err", cerr != nil, "elapsed", el, "text", clip(cerr))
		}
	case "DialAndSend":
		r.Emit("call", "op", "DialAndSend")
		var serr error
		el := rn.timed(func() { serr = c.DialAndSendWithContext(opctx, batch...) })
		sendRet("DialAndSend", serr, el)
	case "Reset", "Reset2":
		r.Emit("call", "op", "Dial")
		var derr error
		el := rn.timed(func() { derr = c.DialWithContext(opctx) })
		r.Emit("ret", "op", "Dial", "err", derr != nil, "elapsed", el, "text", clip(derr))
		if derr == nil {
			for round := 1; round <= 2; round++ {
				if round == 2 && cfg.Op != "Reset2" {
					break
				}
				r.Emit("call", "op", "Reset")
				var rerr error
				el = rn.timed(func() { rerr = c.Reset() })
				r.Emit("ret", "op", "Reset", "err", rerr != nil, "elapsed", el, "text", clip(rerr))
				if el == "never" {
					break
				}
			}
			var cerr error
			el = rn.timed(func() { cerr = c.Close() })
			r.Emit("ret", "op", "Close", "err", cerr != nil, "elapsed", el, "text", clip(cerr))
		}
	case "Dial":
		r.Emit("call", "op", "Dial")
		var derr error
		el := rn.timed(func() { derr = c.DialWithContext(opctx) })
		r.Emit("ret", "op", "Dial", "err", derr != nil, "elapsed", el, "text", clip(derr))
		if derr == nil {
			var cerr error
			el = rn.timed(func() { cerr = c.Close() })
			r.Emit("ret", "op", "Close", "err", cerr != nil, "elapsed", el, "text", clip(cerr))
		}
	default:
		rn.Infra = fmt.Errorf("unknown op %q", cfg.Op)
		return
	}
	// clean up what the client left open, then wait until the server has seen everything
	rn.srv.Release()
	for _, t := range rn.tracks {
		if !t.Closed() {
			t.ForceClose()
		}
	}
	if !rn.srv.Wait(Watchdog) {
		rn.srv.Kill()
		rn.Infra = errors.New("server goroutines did not finish")
	}
	r.Emit("end", "t", rn.T)
	r.Seal()
}

func clip(err error) string {
	if err == nil {
		return ""
	}
	s := err.Error()
	if len(s) > 300 {
		s = s[:300]
	}
	return s
}
