// Package lifefam replays operation histories of the mail.Client life cycle (ClientLife.tla):
// Dial, Send, Reset, Close and DialAndSend in any order on one Client, with the server going away
// between operations, refused dials and rejected messages. It records what each call returned,
// what reached the server and which transport connections were opened and closed.
package lifefam

import (
	"context"
	"errors"
	"fmt"
	"net"
	"sync"
	"time"

	mail "github.com/wneessen/go-mail"
	"github.com/wneessen/go-mail/smtp"

	"verif/harness/pipeconn"
	"verif/harness/rec"
	"verif/harness/refsmtp"
)

// Op is one step of a history.
type Op struct {
	Op string `json:"op"` // Dial, Send, Reset, Close, DialAndSend
	F  string `json:"f"`  // ok; gone (the server closed every connection before the call); refused (the dial is refused); p5 (MAIL is rejected)
}

// Scenario is one history.
type Scenario struct {
	ID  string `json:"id"`
	Ops []Op   `json:"ops"`
}

type conn struct {
	net.Conn
	id   int
	r    *rec.Recorder
	once sync.Once
	mu   sync.Mutex
	shut bool
}

func (c *conn) Close() error {
	c.once.Do(func() {
		c.mu.Lock()
		c.shut = true
		c.mu.Unlock()
		c.r.Emit("cclose", "cid", c.id)
	})
	return c.Conn.Close()
}

// lingerConn is the server end of a real TCP connection (QuickSend and smtp.SendMail dial by themselves, so the
// client end cannot be wrapped): when the server is done with it, it waits for the client to close its end.
type lingerConn struct {
	net.Conn
	id         int
	once       sync.Once
	done       chan struct{}
	peerClosed bool
}

func (c *lingerConn) Close() error {
	c.once.Do(func() {
		_ = c.Conn.SetReadDeadline(time.Now().Add(3 * time.Second))
		buf := make([]byte, 256)
		for {
			if _, err := c.Conn.Read(buf); err != nil {
				ne, isNet := err.(net.Error)
				c.peerClosed = !(isNet && ne.Timeout())
				break
			}
		}
		_ = c.Conn.Close()
		close(c.done)
	})
	return nil
}

// Runner replays one scenario.
type Runner struct {
	Sc    Scenario
	Rec   *rec.Recorder
	T     int
	Infra error
}

func sender(m int) string { return fmt.Sprintf("sender%d@from.test", m) }
func rcpt(m int) string   { return fmt.Sprintf("rcpt%d@to.test", m) }

// Run replays the history.
func (rn *Runner) Run() {
	sc, r := rn.Sc, rn.Rec
	opsRaw := make([]interface{}, len(sc.Ops))
	for i, o := range sc.Ops {
		opsRaw[i] = map[string]interface{}{"op": o.Op, "f": o.F}
	}
	r.Emit("begin", "t", rn.T, "scn", sc.ID, "ops", opsRaw)
	faults := map[refsmtp.Key]refsmtp.Fault{}
	addr := map[string][2]int{}
	for k, o := range sc.Ops {
		m := k + 1
		addr[sender(m)] = [2]int{m, 0}
		addr[rcpt(m)] = [2]int{m, 1}
		if o.F == "p5" {
			faults[refsmtp.Key{V: "MAIL", M: m, R: 0}] = refsmtp.Fault{K: 1, Class: "p5", Shape: "none", Rot: 51}
		}
	}
	srv := refsmtp.New(refsmtp.Config{Faults: faults, Addr: addr, Expected: map[int][]byte{}}, r)
	refuse := false
	dials := 0
	var mu sync.Mutex
	var conns []*conn
	dial := func(ctx context.Context, network, address string) (net.Conn, error) {
		mu.Lock()
		defer mu.Unlock()
		if refuse {
			r.Emit("refused")
			return nil, errors.New("dial tcp: connect: connection refused (scripted)")
		}
		dials++
		cl, sv := pipeconn.Pipe()
		srv.Go(sv)
		c := &conn{Conn: cl, id: dials, r: r}
		conns = append(conns, c)
		r.Emit("open", "cid", dials)
		return c, nil
	}
	// real TCP on the loopback interface for the calls that dial by themselves
	var ln net.Listener
	var lingers []*lingerConn
	deadAddr := ""
	needTCP := false
	for _, o := range sc.Ops {
		if o.Op == "QuickSend" || o.Op == "LegacySendMail" {
			needTCP = true
		}
	}
	if needTCP {
		var lerr error
		if ln, lerr = net.Listen("tcp", "127.0.0.1:0"); lerr != nil {
			rn.Infra = lerr
			return
		}
		defer ln.Close()
		// an address nothing listens on (a port that was free a moment ago may belong to the listener of a scenario
		// that runs in parallel by now): the tcpmux port of a loopback address no scenario binds
		deadAddr = "127.0.0.2:1"
		go func() {
			for {
				tc, aerr := ln.Accept()
				if aerr != nil {
					return
				}
				mu.Lock()
				dials++
				lc := &lingerConn{Conn: tc, id: dials, done: make(chan struct{})}
				lingers = append(lingers, lc)
				r.Emit("open", "cid", dials)
				srv.Go(lc)
				mu.Unlock()
			}
		}()
	}
	c, err := mail.NewClient("mail.example.test", mail.WithDialContextFunc(dial), mail.WithTLSPolicy(mail.NoTLS),
		mail.WithTimeout(5*time.Second), mail.WithHELO("client.test"))
	if err != nil {
		rn.Infra = err
		return
	}
	timed := func(f func()) bool {
		done := make(chan struct{})
		go func() { defer close(done); f() }()
		select {
		case <-done:
			return true
		case <-time.After(30 * time.Second):
			srv.Kill()
			<-done
			return false
		}
	}
	for k, o := range sc.Ops {
		m := k + 1
		if o.F == "gone" { // the server end of every connection goes away while the client is idle
			srv.Kill()
			if !srv.Wait(10 * time.Second) {
				rn.Infra = errors.New("server sessions did not end")
				return
			}
			r.Emit("gone")
		}
		mu.Lock()
		refuse = o.F == "refused"
		mu.Unlock()
		var msg *mail.Msg
		if o.Op == "Send" || o.Op == "DialAndSend" || o.Op == "DialAndSendCtx" {
			msg = mail.NewMsg()
			if err := msg.From(sender(m)); err != nil {
				rn.Infra = err
				return
			}
			if err := msg.To(rcpt(m)); err != nil {
				rn.Infra = err
				return
			}
			msg.Subject(fmt.Sprintf("life cycle message %d", m))
			msg.SetBodyString(mail.TypeTextPlain, "body of the message\r\n")
		}
		r.Emit("call", "k", m, "op", o.Op, "f", o.F)
		mu.Lock()
		nl := len(lingers)
		mu.Unlock()
		tcpAddr := deadAddr
		if ln != nil && o.F != "refused" {
			tcpAddr = ln.Addr().String()
		}
		legacyOK := false
		var oerr error
		ok := timed(func() {
			switch o.Op {
			case "Dial":
				oerr = c.DialWithContext(context.Background())
			case "Send":
				oerr = c.Send(msg)
			case "Reset":
				oerr = c.Reset()
			case "Close":
				oerr = c.Close()
			case "DialAndSend":
				oerr = c.DialAndSend(msg)
			case "DialAndSendCtx":
				oerr = c.DialAndSendWithContext(context.Background(), msg)
			case "QuickSend": // package-level helper: its own Client on its own TCP connection
				msg, oerr = mail.QuickSend(tcpAddr, nil, sender(m), []string{rcpt(m)}, fmt.Sprintf("life cycle message %d", m),
					[]byte("body of the message\r\n"))
			case "LegacySendMail": // smtp.SendMail, the function kept from net/smtp
				oerr = smtp.SendMail(tcpAddr, nil, sender(m), []string{rcpt(m)},
					[]byte(fmt.Sprintf("From: <%s>\r\nTo: <%s>\r\nSubject: life cycle message %d\r\n\r\nbody of the message\r\n", sender(m), rcpt(m), m)))
				legacyOK = oerr == nil
			default:
				oerr = fmt.Errorf("unknown op %q", o.Op)
			}
		})
		if !ok {
			rn.Infra = fmt.Errorf("operation %d (%s) did not return", m, o.Op)
			return
		}
		text := ""
		if oerr != nil {
			text = oerr.Error()
			if len(text) > 200 {
				text = text[:200]
			}
		}
		// "no active connection": the sentinel itself (Reset) or a SendError whose reason is the connection check (Send)
		noconn := errors.Is(oerr, mail.ErrNoActiveConnection)
		var se *mail.SendError
		if errors.As(oerr, &se) && se.Reason == mail.ErrConnCheck {
			noconn = true
		}
		// the TCP connections this call opened: closed by the client before it returned?
		mu.Lock()
		mine := append([]*lingerConn(nil), lingers[nl:]...)
		mu.Unlock()
		for _, lc := range mine {
			select {
			case <-lc.done:
				if lc.peerClosed {
					r.Emit("cclose", "cid", lc.id)
				}
			case <-time.After(8 * time.Second):
			}
		}
		r.Emit("ret", "k", m, "op", o.Op, "err", oerr != nil, "delivered", (msg != nil && msg.IsDelivered()) || legacyOK,
			"noconn", noconn, "text", text)
	}
	// transports the client never closed
	mu.Lock()
	for _, lc := range lingers {
		select {
		case <-lc.done:
			if !lc.peerClosed {
				r.Emit("leftopen", "cid", lc.id)
			}
		default:
			r.Emit("leftopen", "cid", lc.id)
		}
	}
	for _, cn := range conns {
		cn.mu.Lock()
		if !cn.shut {
			r.Emit("leftopen", "cid", cn.id)
		}
		cn.mu.Unlock()
	}
	mu.Unlock()
	srv.Kill()
	if !srv.Wait(10 * time.Second) {
		rn.Infra = errors.New("server goroutines did not finish")
	}
	for _, cn := range conns {
		_ = cn.Conn.Close()
	}
	r.Emit("end", "t", rn.T)
	r.Seal()
}
