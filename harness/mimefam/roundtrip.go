package mimefam

import (
	"bytes"
	"strings"
	"time"

	netmail "net/mail"

	mail "github.com/wneessen/go-mail"

	"verif/harness/mimeread"
	"verif/harness/rec"
)

func fileBytes(f *mail.File) ([]byte, error) {
	var b bytes.Buffer
	_, err := f.Writer(&b)
	return b.Bytes(), err
}

func decoded(v []string) string {
	if len(v) == 0 {
		return ""
	}
	d, err := mimeread.DecodeWords(v[0])
	if err != nil {
		return v[0]
	}
	return d
}

// RoundTrip parses the rendering with the library's EML parser, compares the parsed message with the
// built one (C10) and renders the parsed message again; the second rendering is analysed like a first one.
func RoundTrip(r *rec.Recorder, first []byte, b *Built) {
	type res struct {
		m   *mail.Msg
		err error
		pan string
	}
	ch := make(chan res, 1)
	go func() {
		defer func() {
			if p := recover(); p != nil {
				ch <- res{pan: "panic"}
			}
		}()
		m, err := mail.EMLToMsgFromString(string(first))
		ch <- res{m: m, err: err}
	}()
	var got res
	select {
	case got = <-ch:
	case <-time.After(5 * time.Second):
		got = res{pan: "timeout"}
	}
	if got.pan != "" || got.err != nil || got.m == nil {
		txt := got.pan
		if got.err != nil {
			txt = got.err.Error()
		}
		r.Emit("rt", "what", "parse", "eq", false, "text", clipS(txt, 200))
		return
	}
	pm := got.m
	r.Emit("rt", "what", "parse", "eq", true, "text", "")
	// headers
	if want, ok := b.HdrWant["Subject"]; ok {
		r.Emit("rt", "what", "subject", "eq", NormWS(decoded(pm.GetGenHeader(mail.HeaderSubject))) == NormWS(want), "text", "")
	} else {
		r.Emit("rt", "what", "subject", "eq", NormWS(decoded(pm.GetGenHeader(mail.HeaderSubject))) == "render scenario", "text", "")
	}
	addrOK := func(list []*netmail.Address, want [][2]string) bool {
		if len(list) != len(want) {
			return false
		}
		for i := range list {
			if list[i].Address != want[i][1] || NormWS(list[i].Name) != NormWS(want[i][0]) {
				return false
			}
		}
		return true
	}
	fromName := b.HdrWant["From:name"]
	toWant := [][2]string{{"", "rcpt@to.test"}}
	if n, ok := b.HdrWant["To:name"]; ok {
		toWant = append(toWant, [2]string{n, "second@to.test"})
	}
	r.Emit("rt", "what", "from", "eq", addrOK(pm.GetFrom(), [][2]string{{fromName, "sender@from.test"}}), "text", "")
	r.Emit("rt", "what", "to", "eq", addrOK(pm.GetTo(), toWant), "text", "")
	ccWant := [][2]string{}
	if _, ok := b.HdrWant["Cc:list"]; ok {
		ccWant = [][2]string{{"", "cc1@to.test"}, {"Carbon Copy", "cc2@to.test"}}
	}
	r.Emit("rt", "what", "cc", "eq", addrOK(pm.GetCc(), ccWant), "text", "")
	r.Emit("rt", "what", "date", "eq", strings.Contains(strings.Join(pm.GetGenHeader(mail.HeaderDate), " "), "17 May 2024 10:11:12"), "text", "")
	// body parts, attachments, embeds
	var parts, embeds, atts []Slot
	for _, s := range b.Slots {
		switch s.Kind {
		case "part":
			parts = append(parts, s)
		case "embed":
			embeds = append(embeds, s)
		default:
			atts = append(atts, s)
		}
	}
	gp := pm.GetParts()
	r.Emit("rt", "what", "partcount", "eq", len(gp) == len(parts), "text", "")
	for i := 0; i < len(gp) && i < len(parts); i++ {
		c, err := gp[i].GetContent()
		want := parts[i].content
		if parts[i].qp {
			want, c = canonLF(want), canonLF(c)
		}
		r.Emit("rt", "what", "part", "eq", err == nil && bytes.Equal(c, want) && string(gp[i].GetContentType()) == parts[i].Ctype &&
			strings.EqualFold(string(gp[i].GetCharset()), parts[i].Charset), "text", "")
	}
	files := func(kind string, got []*mail.File, want []Slot) {
		r.Emit("rt", "what", kind+"count", "eq", len(got) == len(want), "text", "")
		for i := 0; i < len(got) && i < len(want); i++ {
			data, err := fileBytes(got[i])
			r.Emit("rt", "what", kind+"bytes", "eq", err == nil && bytes.Equal(data, want[i].content), "text", "")
			r.Emit("rt", "what", kind+"name", "eq", got[i].Name == want[i].Fname, "text", clipS(got[i].Name, 80))
		}
	}
	files("att", pm.GetAttachments(), atts)
	files("embed", pm.GetEmbeds(), embeds)
	// second rendering
	var out2 bytes.Buffer
	_, werr, pan := safeWriteTo(pm, &out2)
	r.Emit("rt", "what", "rerender", "eq", werr == nil && pan == "", "text", clipErr(werr, pan))
	if werr == nil && pan == "" {
		r.Emit("render", "id", 2, "second", true)
		Analyse(r, out2.Bytes(), b, "", "rt", 2)
	}
}
