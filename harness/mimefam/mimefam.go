// Package mimefam replays scenarios of the render models (MimeBuild.tla,
// Render.tla) against the real go-mail message builder and renderer and
// records: the outcome of every render operation, the lexical line events of
// the rendered bytes, the tree found by the independent MIME reader and the
// content comparison of every leaf.
package mimefam

import (
	"bufio"
	"bytes"
	"context"
	"embed"
	ht "html/template"
	"crypto/sha256"
	"crypto/x509"
	"encoding/hex"
	"encoding/json"
	"errors"
	"fmt"
	"io"
	"io/fs"
	"math/rand"
	"mime"
	"net"
	netmail "net/mail"
	"os"
	"os/exec"
	"path/filepath"
	"runtime"
	"sort"
	"strconv"
	"strings"
	"sync"
	"testing/fstest"
	tt "text/template"
	"time"
	"unicode/utf8"

	mail "github.com/wneessen/go-mail"

	"verif/harness/mimeread"
	"verif/harness/rec"
)

// PartSpec describes one body part / alternative.
type PartSpec struct {
	Ct   string `json:"ct"`   // plain, html
	Enc  string `json:"enc"`  // "" (message default), qp, b64, 8bit
	Desc string `json:"desc"` // "", plain, long, utf8, crlf
	Cc   string `json:"cc"`   // content class
	Prod string `json:"prod"` // string, writer, chunk1, chunk3, chunk7, chunk57, chunk76, chunkr
	Del  bool   `json:"del"`  // the part is deleted again (Part.Delete) after the program was built
}

// FileSpec describes one embed / attachment.
type FileSpec struct {
	Enc   string `json:"enc"`   // "" (base64), b64, 8bit, 7bit, qp (documented as ignored)
	Desc  string `json:"desc"`  // description class
	Ctype bool   `json:"ctype"` // content type declared by the caller
	Cid   string `json:"cid"`   // "", plain, crlf ... content-id class
	Name  string `json:"name"`  // name class
	Src   string `json:"src"`   // seeker, reader, file, iofs, tpl, chunk1, chunk3, chunk57
	Cc    string `json:"cc"`    // content class
}

// HdrSpec is one text-accepting setter call (C02, C18).
type HdrSpec struct {
	Setter string `json:"setter"` // subject, gen, fromname, toname, msgid, org, ua, mdnname
	Val    string `json:"val"`    // value class
}

// Prog is a builder program.
type Prog struct {
	Enc      string     `json:"enc"` // qp, b64, 8bit
	Parts    []PartSpec `json:"parts"`
	Embeds   []FileSpec `json:"embeds"`
	Atts     []FileSpec `json:"atts"`
	Boundary string     `json:"boundary"` // "" random, fixed
	Hdrs     []HdrSpec  `json:"hdrs"`
	Smime    SmimeSpec  `json:"smime"` // S/MIME signing (C08); Key "" = unsigned
	// Calls: the builder calls of MsgCalls.tla. When present the message is built by executing them;
	// Parts / Embeds / Atts then hold the message the specification expects them to leave behind.
	Calls []string `json:"calls"`
	// Style: "" / "with" (options at construction) or "set" (the setter methods of Msg and Part after construction)
	Style string `json:"style"`
	// Pgp: "" / "encrypted" / "signed": the PGP/MIME type of the message (WithPGPType / SetPGPType) - one flat multipart
	// of that kind around everything; the caller supplies the parts PGP/MIME asks for
	Pgp string `json:"pgp"`
	// Cs: charset of the message: "" = UTF-8, "latin1" = ISO-8859-1 - the caller then hands over the texts the library labels
	// with the charset of the message (subject, generic headers, descriptions, file names) as ISO-8859-1 octets.
	// Pcs: charset of the body parts when it differs from the message's ("" = inherited, "latin1", "utf8")
	Cs  string `json:"cs"`
	Pcs string `json:"pcs"`
	// Mw: a middleware of the caller ("attach": adds an attachment once, "body": replaces the first body part once)
	Mw string `json:"mw"`
}

// Fault describes a render fault (C12).
type Fault struct {
	Kind string `json:"kind"` // sink (every offset), short (short writes), producer
	Slot int    `json:"slot"` // producer: 1-based slot index over parts ++ embeds ++ atts
	When string `json:"when"` // before, after
}

// Scenario is one terminal behaviour of the render models.
type Scenario struct {
	ID    string          `json:"id"`
	Prog  Prog            `json:"prog"`
	Ops   []string        `json:"ops"`
	Fault *Fault          `json:"fault"`
	Tree  json.RawMessage `json:"tree"` // model's prediction (conformance)
	// RoundTrip: parse the rendering with the library's EML parser and render again (C10)
	RoundTrip bool `json:"roundtrip"`
	// Predict: outcome predicted by Smime.tla (conformance)
	Predict json.RawMessage `json:"predict"`
}

func clipS(s string, n int) string {
	if len(s) > n {
		return s[:n]
	}
	return s
}

//go:embed embedded/embedded.bin
var embeddedFS embed.FS

var (
	sendmailMu   sync.Mutex
	sendmailOnce sync.Once
	sendmailPath string
	sendmailErr  error
)

// sendmailScript installs (once per process) the stand-in for the sendmail binary: a script that stores its standard
// input. A script that was just written can be "text file busy" while a concurrently forked child still holds the
// descriptor it was written through: the script is probed until it starts.
func sendmailScript(dir string) (script, spool string, err error) {
	sendmailOnce.Do(func() {
		sendmailPath = filepath.Join(dir, fmt.Sprintf("sendmail-%d.sh", os.Getpid()))
		body := "#!/bin/sh\ncat > '" + sendmailPath + ".out'\n"
		if sendmailErr = os.WriteFile(sendmailPath, []byte(body), 0o700); sendmailErr != nil {
			return
		}
		for i := 0; i < 200; i++ {
			c := exec.Command(sendmailPath)
			c.Stdin = strings.NewReader("")
			if sendmailErr = c.Run(); sendmailErr == nil {
				return
			}
			time.Sleep(10 * time.Millisecond)
		}
	})
	return sendmailPath, sendmailPath + ".out", sendmailErr
}

// SendmailRender hands the message to the stand-in sendmail binary (WriteToSendmailWithContext) and returns what the binary read.
func SendmailRender(m *mail.Msg, dir string) ([]byte, error) {
	script, spool, err := sendmailScript(dir)
	if err != nil {
		return nil, err
	}
	sendmailMu.Lock()
	defer sendmailMu.Unlock()
	_ = os.Remove(spool)
	ctx, cancel := context.WithTimeout(context.Background(), 2*time.Minute)
	defer cancel()
	if err := m.WriteToSendmailWithContext(ctx, script); err != nil {
		return nil, err
	}
	return os.ReadFile(spool)
}

var errProducer = errors.New("scripted producer failure")

// calls of the base64 line breaker (build-tag hook of package mail), recorded per goroutine
var (
	b64Mu    sync.Mutex
	b64Calls = map[int64]*[][]int{}
)

func goid() int64 {
	var buf [64]byte
	n := runtime.Stack(buf[:], false)
	f := bytes.Fields(buf[:n])
	if len(f) < 2 {
		return -1
	}
	id, _ := strconv.ParseInt(string(f[1]), 10, 64)
	return id
}

// InstallHooks routes mail.VerifHook to the recorder of the calling goroutine.
func InstallHooks() {
	mail.VerifHook = func(event string, a, b int) {
		b64Mu.Lock()
		dst := b64Calls[goid()]
		b64Mu.Unlock()
		if dst == nil {
			return
		}
		kind := 0
		if event == "b64.close" {
			kind = 1
		}
		*dst = append(*dst, []int{kind, a, b})
	}
}

// recordB64 runs f and returns the line breaker calls it made in this goroutine.
func recordB64(f func()) [][]int {
	calls := [][]int{}
	id := goid()
	b64Mu.Lock()
	b64Calls[id] = &calls
	b64Mu.Unlock()
	defer func() {
		b64Mu.Lock()
		delete(b64Calls, id)
		b64Mu.Unlock()
	}()
	f()
	return calls
}

// ---------------------------------------------------------------------------
// concretisation of abstract classes (seeded)

func repeat(s string, n int) string { return strings.Repeat(s, n) }

// Content returns the bytes of a content class.
func Content(class string, rng *rand.Rand, text bool) []byte {
	switch class {
	case "empty":
		return nil
	case "oneline":
		return []byte("a single line without any line break")
	case "crlf":
		return []byte("line one\r\nline two is a bit longer\r\n\r\nline four after an empty one\r\n")
	case "lf":
		return []byte("unix line one\nunix line two\n\nlast unix line\n")
	case "trailws":
		return []byte("ends with blanks   \r\ntabs at the end\t\t\r\n \r\nlast line with blank ")
	case "dots":
		return []byte(".leading dot\r\n.\r\n..two dots\r\nmiddle . dot\r\n.")
	case "eq":
		return []byte("a=b and ==== and =3D and =\r\n=\r\n=4\r\nsoft= \r\n")
	case "from":
		return []byte("From here to there\r\n>From quoted\r\nFrom \r\n")
	case "fromlong": // lines that start with "From " and are as long as an encoded line may be - or need a soft break
		return []byte("From " + repeat("x", 70) + "\r\nFrom " + repeat("y", 71) + "\r\n" +
			"From the very beginning this paragraph has been far longer than seventy-six characters and needs soft line breaks\r\nFrom \r\n")
	case "bdry":
		return []byte("--\r\n--=_verif\r\n--b0undary-of-verifX\r\n--b0undary-of-veri\r\n----\r\n--b0undary-of-verif--X\r\ntext\r\n")
	case "len75":
		return []byte(repeat("x", 75) + "\r\n" + repeat("y", 75))
	case "len76":
		return []byte(repeat("x", 76) + "\r\n" + repeat("y", 76) + "\r\n")
	case "len77":
		return []byte(repeat("x", 77) + "\r\n" + repeat("y z", 26) + "\r\n")
	case "long":
		return []byte(repeat("0123456789", 100) + "\r\n")
	case "utf8":
		return []byte("Grüße aus Köln, 世界 € \U0001F600\r\nzweite Zeile\r\n")
	case "bin":
		b := make([]byte, 256)
		for i := range b {
			b[i] = byte(i)
		}
		if text { // text producers: every byte value, in lines
			var t []byte
			for i := 0; i < 256; i += 32 {
				t = append(t, b[i:i+32]...)
				t = append(t, '\r', '\n')
			}
			return bytes.ReplaceAll(bytes.ReplaceAll(t, []byte("\n"), []byte("N")), []byte("\r"), []byte("R"))
		}
		return b
	case "nul":
		return []byte("a\x00b\x00\x00\r\nc\x00")
	}
	if strings.HasPrefix(class, "id") { // idN: the leaf created by call N of a call sequence (MsgCalls.tla)
		return []byte("content of leaf " + class + ", line one\r\nsecond line of " + class + "\r\n")
	}
	if strings.HasPrefix(class, "size") { // sizeN: N bytes, seeded
		n := 0
		fmt.Sscanf(class, "size%d", &n)
		b := make([]byte, n)
		for i := range b {
			if text {
				b[i] = byte('a' + rng.Intn(26))
			} else {
				b[i] = byte(rng.Intn(256))
			}
		}
		return b
	}
	n := 1 + rng.Intn(400)
	b := make([]byte, n)
	for i := range b {
		b[i] = byte(rng.Intn(256))
	}
	if text {
		for i := range b {
			if b[i] == '\n' || b[i] == '\r' {
				b[i] = ' '
			}
		}
	}
	return b
}

// Text returns the string of a header / name / description value class.
func Text(class string, rng *rand.Rand) string {
	switch class {
	case "", "none":
		return ""
	case "plain":
		return "Quarterly report"
	case "utf8":
		return "Grüße 世界 € report"
	case "long":
		return "word " + repeat("longword", 12) + " and " + repeat("x", 70) + " tail with several more words to make it fold at least twice, really"
	case "token300":
		return repeat("t", 300)
	case "token78":
		return "see " + repeat("u", 78) + " end"
	case "token1000":
		return repeat("T", 1000)
	case "blanks":
		return "  leading and   multiple    inner blanks and trailing  "
	case "trail":
		return "ends with one blank "
	case "tabs":
		return "has\ttabs\tinside"
	case "crlf":
		return "first\r\nX-Injected: yes"
	case "crlfcrlf":
		return "first\r\n\r\ninjected body"
	case "lf":
		return "first\nX-Injected: yes"
	case "cr":
		return "first\rX-Injected: yes"
	case "nul":
		return "nul\x00inside"
	case "ctl":
		return "bell\x07 and escape\x1b and del\x7f"
	case "ctlonly": // control characters other than NUL, TAB, CR, LF and DEL, and nothing else that is special in a file name
		return "re\x1b[2Jport\x07\x01\x0b\x1f.txt"
	case "quotes":
		return `say "hi" \ back(slash) <angle> ; = ? :`
	case "encword":
		return "=?UTF-8?q?fake?= looks encoded"
	case "badutf8":
		return "bad \xff\xfe utf8"
	case "path":
		return "../dir/na:me?.txt"
	case "semi":
		return "na;me=1 with blank.txt"
	case "dotted":
		return "report.final.v2.pdf"
	case "longutf8": // needs several RFC 2047 encoded words
		return "Übersicht der Quartalszahlen für das Geschäftsjahr – Zusammenfassung und Ausblick auf die nächsten Monate.pdf"
	}
	if strings.HasPrefix(class, "dwords") { // dwordsN: N-character words separated by TWO blanks, after a short lead
		n := 5
		fmt.Sscanf(class, "dwords%d", &n)
		var sb strings.Builder
		sb.WriteString("lead")
		for sb.Len() < 220 {
			sb.WriteString("  ")
			sb.WriteString(repeat(string(rune('a'+rng.Intn(26))), n))
		}
		return sb.String()
	}
	if strings.HasPrefix(class, "words") { // wordsN: N-character words up to about 200 characters
		n := 5
		fmt.Sscanf(class, "words%d", &n)
		var sb strings.Builder
		for sb.Len() < 200 {
			if sb.Len() > 0 {
				sb.WriteByte(' ')
			}
			sb.WriteString(repeat(string(rune('a'+rng.Intn(26))), n))
		}
		return sb.String()
	}
	return "value " + class
}

// inCharset: the text v as a caller hands it to a message whose charset is cs. For ISO-8859-1 the octets are the code
// points below 256; characters the charset does not have are replaced by '?' beforehand. Returned: the octets, and the
// (Unicode) text they stand for - what a reader must find.
func inCharset(cs, v string) (octets, unicode string) {
	if cs != "latin1" {
		return v, v
	}
	var ob, ub strings.Builder
	for i := 0; i < len(v); {
		r, n := utf8.DecodeRuneInString(v[i:])
		if r == utf8.RuneError && n == 1 { // an octet that is no UTF-8: it is an ISO-8859-1 character as it stands
			ob.WriteByte(v[i])
			ub.WriteRune(rune(v[i]))
			i++
			continue
		}
		if r > 255 {
			r = '?'
		}
		ob.WriteByte(byte(r))
		ub.WriteRune(r)
		i += n
	}
	return ob.String(), ub.String()
}

var charsetOf = map[string]mail.Charset{"latin1": mail.CharsetISO88591, "utf8": mail.CharsetUTF8}
var charsetName = map[string]string{"latin1": "ISO-8859-1", "utf8": "UTF-8", "": "UTF-8"}

// Sanitize is the documented replacement of control and path characters in file names.
func Sanitize(s string) string {
	var b strings.Builder
	for i := 0; i < len(s); i++ {
		c := s[i]
		if c < 32 || c == '"' || c == '/' || c == ':' || c == '<' || c == '>' || c == '?' || c == '\\' || c == '|' || c == 127 {
			b.WriteByte('_')
			continue
		}
		b.WriteByte(c)
	}
	return b.String()
}

// ---------------------------------------------------------------------------

type chunkWriter struct{ n int }

func writeChunks(w io.Writer, b []byte, n int, rng *rand.Rand) (int64, error) {
	var total int64
	for len(b) > 0 {
		k := n
		if n <= 0 {
			k = 1 + rng.Intn(100)
		}
		if k > len(b) {
			k = len(b)
		}
		m, err := w.Write(b[:k])
		total += int64(m)
		if err != nil {
			return total, err
		}
		b = b[k:]
	}
	return total, nil
}

func chunkSize(prod string) (int, bool) {
	if !strings.HasPrefix(prod, "chunk") {
		return 0, false
	}
	if prod == "chunkr" {
		return 0, true
	}
	n := 0
	fmt.Sscanf(prod, "chunk%d", &n)
	return n, true
}

// chunkSeeker returns at most n bytes per Read.
type chunkSeeker struct {
	r *bytes.Reader
	n int
	b *Broken
}

func (c *chunkSeeker) Read(p []byte) (int, error) {
	if c.b != nil && c.b.On {
		return 0, errProducer
	}
	if len(p) > c.n {
		p = p[:c.n]
	}
	return c.r.Read(p)
}
func (c *chunkSeeker) Seek(o int64, w int) (int64, error) { return c.r.Seek(o, w) }

// Broken switches producer failures on and off during a history (ops BreakSrc / FixSrc).
type Broken struct{ On bool }

// toggleSeeker is a read-seeker that fails while the switch is on.
type toggleSeeker struct {
	r *bytes.Reader
	b *Broken
}

func (t *toggleSeeker) Read(p []byte) (int, error) {
	if t.b.On {
		return 0, errProducer
	}
	return t.r.Read(p)
}
func (t *toggleSeeker) Seek(o int64, w int) (int64, error) { return t.r.Seek(o, w) }

// failSeeker delivers data, then fails: in Read with err (errProducer by default), or - when
// seekFails is set - it ends with a regular io.EOF and fails when it is rewound.
type failSeeker struct {
	data      []byte
	pos       int
	err       error
	seekFails bool
	firstOnly bool // the first pass fails half way, later passes are complete
	passes    int
}

func (f *failSeeker) Read(p []byte) (int, error) {
	if f.firstOnly { // a transient failure: the first pass over the data ends with an error after half of it, later passes are complete
		lim := len(f.data)
		if f.passes == 0 {
			lim = len(f.data) / 2
		}
		if f.pos < lim {
			n := copy(p, f.data[f.pos:lim])
			f.pos += n
			return n, nil
		}
		if f.passes == 0 {
			f.passes++
			f.pos = 0
			return 0, errProducer
		}
		return 0, io.EOF
	}
	if f.pos < len(f.data) {
		n := copy(p, f.data[f.pos:])
		f.pos += n
		return n, nil
	}
	if f.seekFails {
		return 0, io.EOF
	}
	if f.err != nil {
		return 0, f.err
	}
	return 0, errProducer
}

func (f *failSeeker) Seek(o int64, w int) (int64, error) {
	if f.seekFails {
		return 0, errProducer
	}
	f.passes++
	f.pos = 0
	return 0, nil
}

// Slot is the expectation for one leaf.
type Slot struct {
	Kind     string `json:"kind"` // part, embed, att
	Ctype    string `json:"ctype"`
	Declared bool   `json:"declared"`
	Charset  string `json:"charset"`
	Cte      string `json:"cte"`
	Disp     string `json:"disp"`
	Fname    string `json:"fname"`
	Desc     string `json:"desc"`
	Cid      string `json:"cid"`
	content  []byte
	text     bool
	qp       bool
}

var encNames = map[string]mail.Encoding{"qp": mail.EncodingQP, "b64": mail.EncodingB64, "8bit": mail.NoEncoding, "7bit": mail.EncodingUSASCII}

// Built is a message together with what is expected of its rendering.
type Built struct {
	Msg        *mail.Msg
	Slots      []Slot
	TopNames   []string          // expected field names of the top-level header section (sorted)
	HdrWant    map[string]string // field name -> value that was set (whitespace-normalised compare)
	SetErr     []string          // setters that rejected their value
	Broken     *Broken
	Smime      SmimeSpec
	Mat        *Material
	usesToggle bool // at least one producer honours the Broken switch
	cleanup    []func()
	// Prior: the bytes of a render that happened before the operations of the scenario (the DATA content of the send
	// through which mail.QuickSend created the message): the renders of the scenario must equal it
	Prior []byte
}

// Close removes temporary files.
func (b *Built) Close() {
	for _, f := range b.cleanup {
		f()
	}
}

const fixedBoundary = "b0undary-of-verif"

// boundaryOf: the boundary a program asks for: "" none, "fixed", or "lenN" - a boundary of N characters.
func boundaryOf(cls string) string {
	if cls == "fixed" {
		return fixedBoundary
	}
	n := 0
	if _, err := fmt.Sscanf(cls, "len%d", &n); err == nil && n > 0 {
		return (fixedBoundary + "-" + strings.Repeat("0123456789", 8))[:n]
	}
	return ""
}

// Build interprets a builder program. failSlot > 0 makes the producer of that slot fail
// (before / after emitting data).
func Build(p Prog, seed int64, failSlot int, failWhen string, tmpdir string) (*Built, error) {
	rng := rand.New(rand.NewSource(seed))
	var opts []mail.MsgOption
	viaSetters := p.Style == "set"
	if !viaSetters {
		if e, ok := encNames[p.Enc]; ok {
			opts = append(opts, mail.WithEncoding(e))
		}
		if bd := boundaryOf(p.Boundary); bd != "" {
			opts = append(opts, mail.WithBoundary(bd))
		}
		if cs, ok := charsetOf[p.Cs]; ok {
			opts = append(opts, mail.WithCharset(cs))
		}
	} else {
		opts = append(opts, mail.WithCharset(mail.CharsetUTF8), mail.WithMIMEVersion(mail.MIME10))
	}
	pgpType := map[string]mail.PGPType{"encrypted": mail.PGPEncrypt, "signed": mail.PGPSignature}[p.Pgp]
	if p.Pgp != "" && !viaSetters {
		opts = append(opts, mail.WithPGPType(pgpType))
	}
	m := mail.NewMsg(opts...)
	if p.Pgp != "" && viaSetters {
		m.SetPGPType(pgpType)
	}
	if viaSetters { // the same configuration through the setter methods
		if e, ok := encNames[p.Enc]; ok {
			m.SetEncoding(e)
		}
		if bd := boundaryOf(p.Boundary); bd != "" {
			m.SetBoundary(bd)
		}
		m.SetCharset(mail.CharsetUTF8)
		if cs, ok := charsetOf[p.Cs]; ok {
			m.SetCharset(cs)
		}
		m.SetMIMEVersion(mail.MIME10)
	}
	b := &Built{Msg: m, HdrWant: map[string]string{}, SetErr: []string{}, Slots: []Slot{}, Broken: &Broken{}}
	envOnly := false
	for _, h := range p.Hdrs {
		envOnly = envOnly || h.Setter == "envonly"
	}
	if envOnly { // no From address: the envelope-from stands in for it in the rendering
		if err := m.EnvelopeFrom("sender@from.test"); err != nil {
			return nil, err
		}
	} else if err := m.From("sender@from.test"); err != nil {
		return nil, err
	}
	if err := m.To("rcpt@to.test"); err != nil {
		return nil, err
	}
	m.SetDateWithValue(time.Date(2024, 5, 17, 10, 11, 12, 0, time.UTC))
	m.SetMessageIDWithValue("verif.mime@from.test")
	names := map[string]bool{"Date": true, "Message-ID": true, "MIME-Version": true, "From": true, "To": true,
		"User-Agent": true, "X-Mailer": true, "Content-Type": true}
	hasSubject := false
	for _, h := range p.Hdrs {
		v := Text(h.Val, rng)
		vo, vu := inCharset(p.Cs, v) // texts the library labels with the charset of the message
		switch h.Setter {
		case "subject":
			m.Subject(vo)
			names["Subject"] = true
			b.HdrWant["Subject"] = vu
			hasSubject = true
		case "gen":
			m.SetGenHeader(mail.Header("X-Verif-Gen"), vo)
			names["X-Verif-Gen"] = true
			b.HdrWant["X-Verif-Gen"] = vu
		case "org":
			m.SetOrganization(vo)
			names["Organization"] = true
			b.HdrWant["Organization"] = vu
		case "ua":
			m.SetUserAgent(vo)
			b.HdrWant["User-Agent"] = vu
			b.HdrWant["X-Mailer"] = vu
		case "msgid":
			m.SetMessageIDWithValue(v)
			b.HdrWant["Message-ID"] = "<" + v + ">"
		case "fromname":
			if err := m.FromFormat(v, "sender@from.test"); err != nil {
				b.SetErr = append(b.SetErr, "fromname")
			} else {
				b.HdrWant["From:name"] = v
			}
		case "toname":
			if err := m.AddToFormat(v, "second@to.test"); err != nil {
				b.SetErr = append(b.SetErr, "toname")
			} else {
				b.HdrWant["To:name"] = v
			}
		case "cc":
			if err := m.Cc("cc1@to.test", "Carbon Copy <cc2@to.test>"); err != nil {
				b.SetErr = append(b.SetErr, "cc")
			} else {
				names["Cc"] = true
				b.HdrWant["Cc:list"] = "cc1@to.test,Carbon Copy <cc2@to.test>"
			}
		case "refs": // a thread: message ids of the earlier messages (far longer than a line)
			var ids []string
			for i := 0; i < 9; i++ {
				ids = append(ids, fmt.Sprintf("<%d.thread-of-the-discussion.%04d@mail.example.test>", 20240517101112+i, rng.Intn(10000)))
			}
			m.SetGenHeader(mail.HeaderReferences, strings.Join(ids, " "))
			m.SetGenHeader(mail.HeaderInReplyTo, ids[8])
			names["References"], names["In-Reply-To"] = true, true
			b.HdrWant["References"] = strings.Join(ids, " ")
		case "genempty": // a generic header without any value
			m.SetGenHeader(mail.Header("X-Verif-Empty"))
		case "genmultiempty": // ... one of them empty, and not the last
			m.SetGenHeader(mail.Header("X-Verif-Multi"), "alpha", "", v, "omega")
			names["X-Verif-Multi"] = true
		case "envonly": // (handled where the sender is set)
		case "genmulti": // a generic header with several values
			m.SetGenHeader(mail.Header("X-Verif-Multi"), v, "second value", v)
			names["X-Verif-Multi"] = true
		case "toignore": // every address is invalid: the list stays empty
			m.ToIgnoreInvalid("not an address", "@@")
			delete(names, "To")
		case "ccignore":
			m.CcIgnoreInvalid("not an address")
		case "ccsome":
			m.CcIgnoreInvalid("not an address", "cc-ok@to.test")
			names["Cc"] = true
		case "preform": // preformatted header, written as it is
			pv := v
			if h.Val == "multiline" {
				pv = "first line\r\n second line\r\n\tthird line"
			}
			if h.Val == "lffold" { // folded by the caller with bare line feeds
				pv = "first line\n second line\n\tthird line"
			}
			m.SetGenHeaderPreformatted(mail.Header("X-Verif-Pre"), pv)
			names["X-Verif-Pre"] = true
		case "replyto":
			if err := m.ReplyToFormat(v, "reply@from.test"); err != nil {
				b.SetErr = append(b.SetErr, "replyto")
			} else {
				names["Reply-To"] = true
				b.HdrWant["Reply-To:name"] = v
			}
		case "envfrom": // the envelope sender is no header field while a From exists
			if err := m.EnvelopeFromFormat(v, "bounce@from.test"); err != nil {
				b.SetErr = append(b.SetErr, "envfrom")
			}
		case "bulk":
			m.SetBulk()
			names["Precedence"], names["X-Auto-Response-Suppress"] = true, true
			b.HdrWant["Precedence"] = "bulk"
			b.HdrWant["X-Auto-Response-Suppress"] = "All"
		case "importance":
			imp := []mail.Importance{mail.ImportanceLow, mail.ImportanceHigh, mail.ImportanceNonUrgent, mail.ImportanceUrgent, mail.ImportanceNormal}[len(v)%5]
			m.SetImportance(imp)
			if imp != mail.ImportanceNormal {
				names["Importance"], names["Priority"], names["X-Priority"], names["X-MSMail-Priority"] = true, true, true, true
				b.HdrWant["Importance"] = imp.String()
			}
		case "hdr": // the deprecated aliases of SetGenHeader / SetGenHeaderPreformatted
			m.SetHeader(mail.Header("X-Verif-Gen"), vo) //nolint:staticcheck
			names["X-Verif-Gen"] = true
			b.HdrWant["X-Verif-Gen"] = vu
		case "hdrpre":
			m.SetHeaderPreformatted(mail.Header("X-Verif-Pre"), "first line\r\n second line") //nolint:staticcheck
			names["X-Verif-Pre"] = true
		case "mdnadd":
			if err := m.RequestMDNTo("mdn0@from.test"); err != nil {
				b.SetErr = append(b.SetErr, "mdnadd")
			} else if err := m.RequestMDNAddToFormat(v, "mdn@from.test"); err != nil {
				b.SetErr = append(b.SetErr, "mdnadd")
				names["Disposition-Notification-To"] = true
			} else {
				names["Disposition-Notification-To"] = true
				b.HdrWant["Disposition-Notification-To:name"] = v
			}
		case "mdnname":
			if err := m.RequestMDNToFormat(v, "mdn@from.test"); err != nil {
				b.SetErr = append(b.SetErr, "mdnname")
			} else {
				names["Disposition-Notification-To"] = true
				b.HdrWant["Disposition-Notification-To:name"] = v
			}
		}
	}
	if !hasSubject {
		m.Subject("render scenario")
		names["Subject"] = true
	}
	slot := 0
	msgCte := map[string]string{"qp": "quoted-printable", "b64": "base64", "8bit": "8bit", "7bit": "7bit", "": "quoted-printable"}[p.Enc]
	cteName := map[string]string{"qp": "quoted-printable", "b64": "base64", "8bit": "8bit", "7bit": "7bit"}
	for i, ps := range p.Parts {
		slot++
		content := Content(ps.Cc, rng, true)
		ct := mail.TypeTextPlain
		if ps.Ct == "html" {
			ct = mail.TypeTextHTML
		}
		var po []mail.PartOption
		var later []func(*mail.Part)
		cte := msgCte
		if e, ok := encNames[ps.Enc]; ok {
			if viaSetters {
				later = append(later, func(pt *mail.Part) { pt.SetEncoding(e) })
			} else {
				po = append(po, mail.WithPartEncoding(e))
			}
			cte = cteName[ps.Enc]
		}
		desco, desc := inCharset(p.Cs, Text(ps.Desc, rng))
		if desc != "" {
			if viaSetters {
				later = append(later, func(pt *mail.Part) { pt.SetDescription(desco) })
			} else {
				po = append(po, mail.WithPartContentDescription(desco))
			}
		}
		partCs := charsetName[p.Cs] // a part has the charset of the message unless it is given its own
		if viaSetters {
			po = append(po, mail.WithPartCharset(mail.CharsetUTF8))
			partCs = "UTF-8"
		}
		if pcs, ok := charsetOf[p.Pcs]; ok {
			if viaSetters {
				later = append(later, func(pt *mail.Part) { pt.SetCharset(pcs) })
			} else {
				po = append(po, mail.WithPartCharset(pcs))
			}
			partCs = charsetName[p.Pcs]
		}
		fail := slot == failSlot
		chunk, chunked := chunkSize(ps.Prod)
		var wf func(io.Writer) (int64, error)
		if fail || chunked || ps.Prod == "writer" {
			c, when := content, failWhen
			br := b.Broken
			b.usesToggle = true
			calls := 0
			wf = func(w io.Writer) (int64, error) {
				calls++
				if (fail && when == "before") || br.On {
					return 0, errProducer
				}
				if fail && when == "first" { // a transient failure: the first invocation fails after half of the data, later ones succeed
					if calls == 1 {
						k, _ := w.Write(c[:len(c)/2])
						return int64(k), errProducer
					}
					k, err := w.Write(c)
					return int64(k), err
				}
				var n int64
				var err error
				if chunked {
					n, err = writeChunks(w, c, chunk, rng)
				} else {
					var k int
					k, err = w.Write(c)
					n = int64(k)
				}
				if err == nil && fail {
					err = errProducer
					if when == "eofplain" {
						err = fmt.Errorf("source ended early: %w", io.EOF)
					}
				}
				return n, err
			}
		}
		switch {
		case ps.Prod == "tpl" && wf == nil: // the content comes out of a template (static text, no actions)
			var terr error
			if ct == mail.TypeTextHTML {
				tpl, perr := ht.New("p").Parse(string(content))
				if perr != nil {
					return nil, fmt.Errorf("html template: %w", perr)
				}
				if i == 0 {
					terr = m.SetBodyHTMLTemplate(tpl, nil, po...)
				} else {
					terr = m.AddAlternativeHTMLTemplate(tpl, nil, po...)
				}
			} else {
				tpl, perr := tt.New("p").Parse(string(content))
				if perr != nil {
					return nil, fmt.Errorf("text template: %w", perr)
				}
				if i == 0 {
					terr = m.SetBodyTextTemplate(tpl, nil, po...)
				} else {
					terr = m.AddAlternativeTextTemplate(tpl, nil, po...)
				}
			}
			if terr != nil {
				return nil, terr
			}
		case i == 0 && wf == nil:
			m.SetBodyString(ct, string(content), po...)
		case i == 0:
			m.SetBodyWriter(ct, wf, po...)
		case wf == nil:
			m.AddAlternativeString(ct, string(content), po...)
		default:
			m.AddAlternativeWriter(ct, wf, po...)
		}
		if ps := m.GetParts(); len(later) > 0 && len(ps) > 0 {
			for _, f := range later {
				f(ps[len(ps)-1])
			}
		}
		if !ps.Del {
			b.Slots = append(b.Slots, Slot{Kind: "part", Ctype: string(ct), Declared: true, Charset: partCs, Cte: cte,
				Desc: NormWS(desc), content: content, text: true, qp: cte == "quoted-printable"})
		}
	}
	for i, ps := range p.Parts {
		if ps.Del {
			if parts := m.GetParts(); i < len(parts) {
				parts[i].Delete()
			}
		}
	}
	addFile := func(fs FileSpec, embed bool, idx int) error {
		slot++
		content := Content(fs.Cc, rng, false)
		nameo, name := inCharset(p.Cs, Text(fs.Name, rng))
		if name == "" {
			name = fmt.Sprintf("file%d.bin", idx)
			nameo = name
		}
		var fo []mail.FileOption
		cte := "base64"
		if e, ok := encNames[fs.Enc]; ok {
			fo = append(fo, mail.WithFileEncoding(e))
			if fs.Enc != "qp" {
				cte = cteName[fs.Enc]
			}
		}
		ctype := ""
		if fs.Ctype {
			ctype = "application/x-verif"
			fo = append(fo, mail.WithFileContentType(mail.ContentType(ctype)))
		}
		desco, desc := inCharset(p.Cs, Text(fs.Desc, rng))
		if fs.Desc == "twotags" { // no description, but a file option of the caller that gives the file a header field with two values
			desco, desc = "", ""
			fo = append(fo, func(f *mail.File) {
				f.Header.Add("X-Document-Tag", "alpha")
				f.Header.Add("X-Document-Tag", "beta gamma")
			})
		}
		if desc != "" {
			fo = append(fo, mail.WithFileDescription(desco))
		}
		cid := ""
		if fs.Cid != "" {
			cid = Text(fs.Cid, rng)
			fo = append(fo, mail.WithFileContentID(cid))
			cid = NormWS(cid) // written as given (the caller supplies the angle brackets)
		}
		fail := slot == failSlot
		src := fs.Src
		if fail {
			src = "failseeker"
			// sources with a failure of their own kind: a file of an fs.FS that cannot be opened (or read to the end) any
			// more when the message is rendered, a file on disk that was removed after it was attached
			if (fs.Src == "iofs" || fs.Src == "file") && (failWhen == "before" || failWhen == "after") {
				src = fs.Src + "-gone"
			}
		}
		var err error
		switch {
		case src == "iofs-gone":
			fsys := &flakyFS{inner: fstest.MapFS{"dir/src.bin": &fstest.MapFile{Data: content}}, half: failWhen == "after"}
			fo = append(fo, mail.WithFileName(nameo))
			if embed {
				err = m.EmbedFromIOFS("dir/src.bin", fsys, fo...)
			} else {
				err = m.AttachFromIOFS("dir/src.bin", fsys, fo...)
			}
			fsys.on = true
		case src == "file-gone":
			tf, terr := os.CreateTemp(tmpdir, "src-*.bin")
			if terr != nil {
				return terr
			}
			path := tf.Name()
			_, _ = tf.Write(content)
			_ = tf.Close()
			fo = append(fo, mail.WithFileName(nameo))
			if embed {
				m.EmbedFile(path, fo...)
			} else {
				m.AttachFile(path, fo...)
			}
			if failWhen == "after" { // still there, but no longer a regular file that can be read
				_ = os.Remove(path)
				_ = os.Mkdir(path, 0o700)
				b.cleanup = append(b.cleanup, func() { _ = os.Remove(path) })
			} else {
				_ = os.Remove(path)
			}
		case src == "failseeker":
			data := content
			if failWhen == "before" {
				data = nil
			}
			rs := &failSeeker{data: data, seekFails: failWhen == "seek", firstOnly: failWhen == "first"}
			if failWhen == "eof" { // a source that ends early reports an error wrapping io.EOF
				rs.data = data[:len(data)/2]
				rs.err = fmt.Errorf("source truncated: %w", io.ErrUnexpectedEOF)
			}
			if failWhen == "eofplain" {
				rs.data = data[:len(data)/2]
				rs.err = fmt.Errorf("source ended early: %w", io.EOF)
			}
			if embed {
				m.EmbedReadSeeker(nameo, rs, fo...)
			} else {
				m.AttachReadSeeker(nameo, rs, fo...)
			}
		case src == "reader":
			if embed {
				err = m.EmbedReader(nameo, bytes.NewReader(content), fo...)
			} else {
				err = m.AttachReader(nameo, bytes.NewReader(content), fo...)
			}
		case src == "readeroff": // a seekable reader that is not at its start: the caller has consumed a header of the stream
			prefix := []byte("magic header line the caller has read already\r\n")
			rd := bytes.NewReader(append(append([]byte{}, prefix...), content...))
			_, _ = rd.Seek(int64(len(prefix)), io.SeekStart)
			if embed {
				err = m.EmbedReader(nameo, rd, fo...)
			} else {
				err = m.AttachReader(nameo, rd, fo...)
			}
		case src == "iofsflaky": // a file of a directory file system whose reads fail while the source is "broken" (transient)
			dir, derr := os.MkdirTemp(tmpdir, "iofs-*")
			if derr != nil {
				return derr
			}
			b.cleanup = append(b.cleanup, func() { _ = os.RemoveAll(dir) })
			if werr := os.WriteFile(filepath.Join(dir, "src.bin"), content, 0o600); werr != nil {
				return werr
			}
			fsys := &toggleFS{inner: os.DirFS(dir), broken: b.Broken}
			b.usesToggle = true
			fo = append(fo, mail.WithFileName(nameo))
			if embed {
				err = m.EmbedFromIOFS("src.bin", fsys, fo...)
			} else {
				err = m.AttachFromIOFS("src.bin", fsys, fo...)
			}
		case src == "buffer": // the caller's scratch buffer is reused after the call
			buf := bytes.NewBuffer(append([]byte{}, content...))
			if embed {
				err = m.EmbedReader(nameo, buf, fo...)
			} else {
				err = m.AttachReader(nameo, buf, fo...)
			}
			buf.Reset()
			buf.Write(bytes.Repeat([]byte("x"), len(content)))
		case src == "file":
			tf, terr := os.CreateTemp(tmpdir, "src-*.bin")
			if terr != nil {
				return terr
			}
			path := tf.Name()
			_, werr := tf.Write(content)
			if cerr := tf.Close(); werr != nil || cerr != nil {
				return fmt.Errorf("temp source file: %v %v", werr, cerr)
			}
			b.cleanup = append(b.cleanup, func() { _ = os.Remove(path) })
			fo = append(fo, mail.WithFileName(nameo))
			if embed {
				m.EmbedFile(path, fo...)
			} else {
				m.AttachFile(path, fo...)
			}
		case src == "iofs":
			fsys := fstest.MapFS{"dir/src.bin": &fstest.MapFile{Data: content}}
			fo = append(fo, mail.WithFileName(nameo))
			if embed {
				err = m.EmbedFromIOFS("dir/src.bin", fsys, fo...)
			} else {
				err = m.AttachFromIOFS("dir/src.bin", fsys, fo...)
			}
		case src == "htpl": // an HTML template without actions
			tpl, terr := ht.New("t").Parse(string(content))
			if terr != nil {
				return terr
			}
			if embed {
				err = m.EmbedHTMLTemplate(nameo, tpl, nil, fo...)
			} else {
				err = m.AttachHTMLTemplate(nameo, tpl, nil, fo...)
			}
		case src == "embedfs": // a file of an embed.FS of the caller (its content is what the file holds)
			content, _ = embeddedFS.ReadFile("embedded/embedded.bin")
			fo = append(fo, mail.WithFileName(nameo))
			if embed {
				err = m.EmbedFromEmbedFS("embedded/embedded.bin", &embeddedFS, fo...)
			} else {
				err = m.AttachFromEmbedFS("embedded/embedded.bin", &embeddedFS, fo...)
			}
		case src == "tpl":
			tpl, terr := tt.New("t").Parse("{{.}}")
			if terr != nil {
				return terr
			}
			if embed {
				err = m.EmbedTextTemplate(nameo, tpl, string(content), fo...)
			} else {
				err = m.AttachTextTemplate(nameo, tpl, string(content), fo...)
			}
		default:
			var rs io.ReadSeeker = &toggleSeeker{r: bytes.NewReader(content), b: b.Broken}
			b.usesToggle = true
			if n, ok := chunkSize(src); ok {
				if n <= 0 {
					n = 1 + rng.Intn(50)
				}
				rs = &chunkSeeker{r: bytes.NewReader(content), n: n, b: b.Broken}
			}
			if embed {
				m.EmbedReadSeeker(nameo, rs, fo...)
			} else {
				m.AttachReadSeeker(nameo, rs, fo...)
			}
		}
		if err != nil {
			return err
		}
		disp := "attachment"
		kind := "att"
		if embed {
			disp, kind = "inline", "embed"
		}
		declared := fs.Ctype
		if !declared && src != "embedfs" { // no type given: the documented derivation from the file extension (the MIME table of this very process), else octet-stream
			mt := mime.TypeByExtension(filepath.Ext(nameo))
			if mt == "" {
				mt = "application/octet-stream"
			}
			ctype, declared = strings.ToLower(strings.TrimSpace(strings.SplitN(mt, ";", 2)[0])), true
		}
		b.Slots = append(b.Slots, Slot{Kind: kind, Ctype: ctype, Declared: declared, Cte: cte, Disp: disp,
			Fname: Sanitize(name), Desc: NormWS(desc), Cid: cid, content: content})
		return nil
	}
	for i, fs := range p.Embeds {
		if err := addFile(fs, true, i+1); err != nil {
			return nil, err
		}
	}
	for i, fs := range p.Atts {
		if err := addFile(fs, false, i+1); err != nil {
			return nil, err
		}
	}
	if len(p.Calls) > 0 {
		// the expectation (Slots) was computed from the lists; the message itself is built by executing
		// the calls on a fresh Msg
		fresh := mail.NewMsg(opts...)
		if err := fresh.From("sender@from.test"); err != nil {
			return nil, err
		}
		if err := fresh.To("rcpt@to.test"); err != nil {
			return nil, err
		}
		fresh.SetDateWithValue(time.Date(2024, 5, 17, 10, 11, 12, 0, time.UTC))
		fresh.SetMessageIDWithValue("verif.mime@from.test")
		fresh.Subject("render scenario")
		cur, err := runCalls(fresh, p.Calls, rng, opts)
		if err != nil {
			return nil, err
		}
		m = cur
		b.Msg = cur
	}
	if p.Mw != "" {
		m = attachMiddleware(m, p.Mw)
		b.Msg = m
	}
	if p.Smime.Key != "" {
		ms, err := Materials()
		if err != nil {
			return nil, fmt.Errorf("signing material: %w", err)
		}
		mat := ms[p.Smime.Key]
		if mat == nil {
			return nil, fmt.Errorf("unknown signing material %q", p.Smime.Key)
		}
		var inter *x509.Certificate
		if p.Smime.Inter {
			inter = mat.Inter
		}
		if err := m.SignWithKeypair(mat.Key, mat.Leaf, inter); err != nil {
			return nil, fmt.Errorf("SignWithKeypair: %w", err)
		}
		b.Smime, b.Mat = p.Smime, mat
	}
	for n := range names {
		b.TopNames = append(b.TopNames, strings.ToLower(n))
	}
	sort.Strings(b.TopNames)
	if p.Style == "quicksend" { // the message is what mail.QuickSend returns after it has sent it: one text body
		if len(p.Parts) != 1 || len(p.Embeds)+len(p.Atts) != 0 {
			return nil, fmt.Errorf("style quicksend: one body part only")
		}
		qm, wire, err := quickSendMsg(Content(p.Parts[0].Cc, rand.New(rand.NewSource(seed)), true))
		if err != nil {
			return nil, err
		}
		b.Msg, b.Prior = qm, wire
	}
	return b, nil
}

// quickSendMsg sends content with mail.QuickSend to a minimal SMTP server on the loopback interface and returns the
// message QuickSend hands back together with the DATA content the server received (dot-unstuffed).
func quickSendMsg(content []byte) (*mail.Msg, []byte, error) {
	ln, err := net.Listen("tcp", "127.0.0.1:0")
	if err != nil {
		return nil, nil, err
	}
	defer ln.Close()
	got := make(chan []byte, 1)
	go func() {
		c, aerr := ln.Accept()
		if aerr != nil {
			got <- nil
			return
		}
		defer c.Close()
		_ = c.SetDeadline(time.Now().Add(30 * time.Second))
		br := bufio.NewReader(c)
		say := func(s string) { _, _ = c.Write([]byte(s + "\r\n")) }
		say("220 quicksend.test ESMTP")
		var data []byte
		for {
			line, rerr := br.ReadString('\n')
			if rerr != nil {
				got <- data
				return
			}
			verb := strings.ToUpper(strings.TrimSpace(line))
			switch {
			case strings.HasPrefix(verb, "EHLO"), strings.HasPrefix(verb, "HELO"):
				say("250 quicksend.test")
			case strings.HasPrefix(verb, "DATA"):
				say("354 go ahead")
				for {
					l, derr := br.ReadString('\n')
					if derr != nil || l == ".\r\n" {
						break
					}
					data = append(data, strings.TrimPrefix(l, ".")...)
				}
				say("250 queued")
			case strings.HasPrefix(verb, "QUIT"):
				say("221 bye")
				got <- data
				return
			default:
				say("250 ok")
			}
		}
	}()
	m, err := mail.QuickSend(ln.Addr().String(), nil, "sender@from.test", []string{"rcpt@to.test"}, "render scenario", content)
	if err != nil {
		return nil, nil, fmt.Errorf("QuickSend: %w", err)
	}
	select {
	case wire := <-got:
		return m, wire, nil
	case <-time.After(30 * time.Second):
		return nil, nil, fmt.Errorf("QuickSend: the server did not see the end of the session")
	}
}

// verifMiddleware is a middleware of the caller that changes what is rendered (idempotent).
type verifMiddleware struct{ kind string }

func (v verifMiddleware) Type() mail.MiddlewareType { return "verif" }

func (v verifMiddleware) Handle(m *mail.Msg) *mail.Msg {
	switch v.kind {
	case "attach":
		for _, f := range m.GetAttachments() {
			if f.Name == "from-middleware.txt" {
				return m
			}
		}
		m.AttachReadSeeker("from-middleware.txt", bytes.NewReader([]byte("added by a middleware\r\n")))
	case "body":
		if ps := m.GetParts(); len(ps) > 0 {
			ps[0].SetContent("body as a middleware left it\r\n")
		}
	}
	return m
}

// flakyFS is an fs.FS whose files can be opened while the message is built and not (or only to the middle) once it is
// switched on.
type flakyFS struct {
	inner fs.FS
	on    bool
	half  bool
}

func (f *flakyFS) Open(name string) (fs.File, error) {
	if f.on && !f.half {
		return nil, &fs.PathError{Op: "open", Path: name, Err: fs.ErrNotExist}
	}
	file, err := f.inner.Open(name)
	if err != nil || !f.on {
		return file, err
	}
	st, _ := file.Stat()
	return &halfFile{File: file, left: st.Size() / 2}, nil
}

// toggleFS: reads of its files fail while the outage switch of the scenario is on (the files open fine).
type toggleFS struct {
	inner  fs.FS
	broken *Broken
}

func (t *toggleFS) Open(name string) (fs.File, error) {
	f, err := t.inner.Open(name)
	if err != nil {
		return nil, err
	}
	return &toggleFile{File: f, broken: t.broken}, nil
}

type toggleFile struct {
	fs.File
	broken *Broken
}

func (t *toggleFile) Read(p []byte) (int, error) {
	if t.broken.On {
		return 0, errProducer
	}
	return t.File.Read(p)
}

type halfFile struct {
	fs.File
	left int64
}

func (h *halfFile) Read(p []byte) (int, error) {
	if h.left <= 0 {
		return 0, errors.New("scripted read failure of an fs.FS file")
	}
	if int64(len(p)) > h.left {
		p = p[:h.left]
	}
	n, err := h.File.Read(p)
	h.left -= int64(n)
	return n, err
}

// hdrMiddleware sets one generic header field (idempotent); two of them with different types make the pair whose first
// member WriteToSkipMiddleware skips.
type hdrMiddleware struct{ typ, name string }

func (h hdrMiddleware) Type() mail.MiddlewareType { return mail.MiddlewareType(h.typ) }

func (h hdrMiddleware) Handle(m *mail.Msg) *mail.Msg {
	m.SetGenHeader(mail.Header(h.name), "on")
	return m
}

const mwaLine = "X-Verif-Mwa: on\r\n"

// attachMiddleware returns a copy of the message options with the middleware installed: a Msg takes middlewares
// only at construction, so the message is rebuilt around the same content.
func attachMiddleware(m *mail.Msg, kind string) *mail.Msg {
	mws := []mail.MsgOption{mail.WithMiddleware(verifMiddleware{kind})}
	if kind == "pair" {
		mws = []mail.MsgOption{mail.WithMiddleware(hdrMiddleware{"verif-a", "X-Verif-Mwa"}), mail.WithMiddleware(hdrMiddleware{"verif-b", "X-Verif-Mwb"})}
	}
	n := mail.NewMsg(append(mws, mail.WithEncoding(mail.Encoding(m.Encoding())))...)
	_ = n.From("sender@from.test")
	_ = n.To("rcpt@to.test")
	n.SetDateWithValue(time.Date(2024, 5, 17, 10, 11, 12, 0, time.UTC))
	n.SetMessageIDWithValue("verif.mime@from.test")
	n.Subject("render scenario")
	for i, p := range m.GetParts() {
		c, _ := p.GetContent()
		if i == 0 {
			n.SetBodyString(p.GetContentType(), string(c))
		} else {
			n.AddAlternativeString(p.GetContentType(), string(c))
		}
	}
	n.SetAttachments(m.GetAttachments())
	n.SetEmbeds(m.GetEmbeds())
	return n
}

// runCalls executes the builder calls of MsgCalls.tla on m (after removing what the list-based
// construction put there). The leaf created by call k carries content class and name "id<k>".
func runCalls(m *mail.Msg, calls []string, rng *rand.Rand, opts []mail.MsgOption) (*mail.Msg, error) {
	for i, c := range calls {
		cls := fmt.Sprintf("id%d", i+1)
		switch c {
		case "SetBodyP":
			m.SetBodyString(mail.TypeTextPlain, string(Content(cls, rng, true)))
		case "SetBodyH":
			m.SetBodyString(mail.TypeTextHTML, string(Content(cls, rng, true)))
		case "AddAltP":
			m.AddAlternativeString(mail.TypeTextPlain, string(Content(cls, rng, true)))
		case "AddAltH":
			m.AddAlternativeString(mail.TypeTextHTML, string(Content(cls, rng, true)))
		case "Del1", "Del2":
			idx := 0
			if c == "Del2" {
				idx = 1
			}
			if ps := m.GetParts(); idx < len(ps) {
				ps[idx].Delete()
			}
		case "Embed":
			m.EmbedReadSeeker(Text(cls, rng), bytes.NewReader(Content(cls, rng, false)))
		case "Attach":
			m.AttachReadSeeker(Text(cls, rng), bytes.NewReader(Content(cls, rng, false)))
		case "UnsetAtt":
			m.UnsetAllAttachments()
		case "UnsetEmb":
			m.UnsetAllEmbeds()
		case "UnsetParts":
			m.UnsetAllParts()
		case "DropFirstAtt":
			if a := m.GetAttachments(); len(a) > 0 {
				m.SetAttachments(a[1:])
			}
		case "DropFirstEmb":
			if e := m.GetEmbeds(); len(e) > 0 {
				m.SetEmbeds(e[1:])
			}
		case "RevAtt":
			a := m.GetAttachments()
			r := make([]*mail.File, len(a))
			for j := range a {
				r[len(a)-1-j] = a[j]
			}
			m.SetAttachments(r)
		case "Handover":
			// another message takes over the files; the first one is reset and filled again (a Msg reused in a loop)
			other := mail.NewMsg(opts...)
			if err := other.From("sender@from.test"); err != nil {
				return nil, err
			}
			if err := other.To("rcpt@to.test"); err != nil {
				return nil, err
			}
			other.SetDateWithValue(time.Date(2024, 5, 17, 10, 11, 12, 0, time.UTC))
			other.SetMessageIDWithValue("verif.mime@from.test")
			other.Subject("render scenario")
			other.SetAttachments(m.GetAttachments())
			other.SetEmbeds(m.GetEmbeds())
			m.Reset()
			for k := 0; k < 3; k++ {
				m.AttachReadSeeker(fmt.Sprintf("refill-%d.bin", k), bytes.NewReader([]byte("content of the refilled first message")))
				m.EmbedReadSeeker(fmt.Sprintf("refill-%d.png", k), bytes.NewReader([]byte("content of the refilled first message")))
			}
			m = other
		default:
			return nil, fmt.Errorf("unknown builder call %q", c)
		}
	}
	return m, nil
}

// ---------------------------------------------------------------------------
// analysis of a rendering

// TreeOf converts a parsed entity into the JSON tree the monitors compare.
func TreeOf(e *mimeread.Entity) map[string]interface{} {
	if e.Multi != "" {
		kids := []interface{}{}
		for _, c := range e.Children {
			kids = append(kids, TreeOf(c))
		}
		return map[string]interface{}{"mp": e.Multi, "kids": kids, "problems": len(e.Problems)}
	}
	ct, _ := e.Get("Content-Type")
	p := mimeread.ParseParams(ct)
	cte, _ := e.Get("Content-Transfer-Encoding")
	cd, _ := e.Get("Content-Disposition")
	d := mimeread.ParseParams(cd)
	fname, _ := mimeread.DecodeWords(d.Params["filename"])
	name, _ := mimeread.DecodeWords(p.Params["name"])
	cid, ncid := e.Get("Content-ID")
	desc, _ := e.Get("Content-Description")
	ddesc, derr := mimeread.DecodeWords(desc)
	if derr != nil {
		ddesc = desc
	}
	return map[string]interface{}{"mp": "", "ctype": p.Main, "charset": strings.ToUpper(p.Params["charset"]),
		"cte": strings.ToLower(strings.TrimSpace(cte)), "disp": d.Main, "fname": fname, "name": name,
		"hascid": ncid > 0 && cid != "", "cid": NormWS(cid), "desc": NormWS(ddesc), "problems": len(e.Problems)}
}

func leaves(e *mimeread.Entity, out *[]*mimeread.Entity) {
	if e.Multi == "" {
		*out = append(*out, e)
		return
	}
	for _, c := range e.Children {
		leaves(c, out)
	}
}

func canonLF(b []byte) []byte {
	b = bytes.ReplaceAll(b, []byte("\r\n"), []byte("\n"))
	return bytes.ReplaceAll(b, []byte("\n"), []byte("\r\n"))
}

// NormWS is the whitespace normalisation of C02 / C18: runs of SP / HTAB / CRLF+WSP compare as one
// blank, leading and trailing blanks are ignored.
func NormWS(s string) string { return strings.Join(strings.Fields(s), " ") }

func isPlainASCII(s string) bool {
	for i := 0; i < len(s); i++ {
		if s[i] < 32 && s[i] != '\t' || s[i] > 126 {
			return false
		}
	}
	return !strings.Contains(s, "=?")
}

func firstDiff(a, b []byte) int {
	n := len(a)
	if len(b) < n {
		n = len(b)
	}
	for i := 0; i < n; i++ {
		if a[i] != b[i] {
			return i
		}
	}
	if len(a) != len(b) {
		return n
	}
	return -1
}

// Analyse emits line / section / tree / leaf / hdr events for one rendering.
func Analyse(r *rec.Recorder, out []byte, b *Built, tmpdir, tag string, k int) {
	lines := mimeread.SplitLines(out)
	for _, l := range lines {
		// lexical facts only; the structure is decided by the TLA+ automata
		inner := false
		seenText := false
		for _, c := range l.Raw {
			if c == ' ' || c == '\t' {
				if seenText {
					inner = true
				}
			} else {
				seenText = true
			}
		}
		low := strings.ToLower(string(l.Raw))
		mp, bparam, cte := "", "", ""
		if i := strings.Index(low, "multipart/"); i >= 0 && strings.HasPrefix(low, "content-type:") {
			j := i + len("multipart/")
			k := j
			for k < len(low) && low[k] >= 'a' && low[k] <= 'z' {
				k++
			}
			mp = low[j:k]
		}
		if i := strings.Index(low, "boundary="); i >= 0 {
			v := string(l.Raw[i+len("boundary="):])
			v = strings.TrimPrefix(v, `"`)
			if j := strings.IndexAny(v, "\";"); j >= 0 {
				v = v[:j]
			}
			bparam = strings.TrimSpace(v)
		}
		if strings.HasPrefix(low, "content-transfer-encoding:") {
			cte = strings.TrimSpace(low[len("content-transfer-encoding:"):])
		}
		r.Emit("line", "n", l.N, "eol", l.EOL, "barecr", l.BareCR, "len", l.Len, "first", l.First, "dd", l.DD,
			"tok", l.Tok, "close", l.Close, "blank", l.Blank, "inner", inner, "ctl", l.Ctl, "high", l.High,
			"name", strings.ToLower(l.Name), "b64", l.B64, "mp", mp, "bparam", bparam, "cte", cte)
	}
	e := mimeread.Parse(out)
	probs := e.Problems
	if probs == nil {
		probs = []string{}
	}
	inner := e
	if b.Smime.Key != "" { // the signed entity is the first part of the multipart/signed wrapper
		AnalyseSigned(r, out, e, b, tmpdir, tag, k)
		if e.Multi == "signed" && len(e.Children) >= 1 {
			inner = e.Children[0]
		}
	}
	r.Emit("tree", "tree", TreeOf(e), "problems", probs)
	var ls []*mimeread.Entity
	leaves(inner, &ls)
	for i, lf := range ls {
		if i >= len(b.Slots) {
			r.Emit("leaf", "i", i+1, "eq", false, "why", "more leaves than slots", "b64lines", []int{}, "b64", false, "cte", "")
			continue
		}
		s := b.Slots[i]
		cte, _ := lf.Get("Content-Transfer-Encoding")
		var dec []byte
		var err error
		switch strings.ToLower(strings.TrimSpace(cte)) {
		case "quoted-printable":
			dec, err = mimeread.DecodeQP(lf.Body)
		case "base64":
			dec, err = mimeread.DecodeB64(lf.Body)
		default:
			dec = lf.Body
		}
		want, got := s.content, dec
		if s.qp { // the statement compares quoted-printable text modulo LF -> CRLF
			want, got = canonLF(want), canonLF(got)
		}
		eq := err == nil && bytes.Equal(want, got)
		why := ""
		if err != nil {
			why = err.Error()
		} else if !eq {
			why = fmt.Sprintf("first difference at %d (want %d bytes, got %d)", firstDiff(want, got), len(want), len(got))
		}
		b64lines := []int{}
		if strings.ToLower(strings.TrimSpace(cte)) == "base64" {
			body := lf.Body
			for len(body) > 0 {
				j := bytes.Index(body, []byte("\r\n"))
				if j < 0 {
					b64lines = append(b64lines, len(body))
					break
				}
				b64lines = append(b64lines, j)
				body = body[j+2:]
			}
		}
		r.Emit("leaf", "i", i+1, "eq", eq, "why", why, "b64lines", b64lines, "b64", strings.ToLower(strings.TrimSpace(cte)) == "base64",
			"cte", strings.ToLower(strings.TrimSpace(cte)))
	}
	// values of free-text fields of the top-level header section: unfold + RFC 2047 decode
	for name, want := range b.HdrWant {
		if strings.HasSuffix(name, ":list") {
			continue
		}
		field, sub := name, ""
		if i := strings.IndexByte(name, ':'); i >= 0 {
			field, sub = name[:i], name[i+1:]
		}
		raw, n := e.Get(field)
		got, err := mimeread.DecodeWords(raw)
		if err != nil {
			got = raw
		}
		if sub == "name" { // display name of the address with the mailbox this setter used (read back with net/mail)
			box := map[string]string{"From": "sender@from.test", "To": "second@to.test",
				"Disposition-Notification-To": "mdn@from.test", "Reply-To": "reply@from.test"}[field]
			got = "<no such address>"
			if list, perr := netmail.ParseAddressList(raw); perr != nil {
				got = "<unparsable address list: " + perr.Error() + ">"
			} else {
				for _, a := range list {
					if a.Address == box {
						got = a.Name
					}
				}
			}
		}
		// C18: a folded field unfolds (CRLF before WSP removed) to the value that was set. The comparison is
		// exact except for blanks right after the colon, for values that went out as plain ASCII; values that
		// needed RFC 2047 encoding are compared whitespace-normalised (6.2: blanks between encoded words vanish).
		wantx, gotx := NormWS(want), NormWS(got)
		if isPlainASCII(want) && sub == "" {
			wantx, gotx = strings.TrimLeft(want, " \t"), strings.TrimLeft(got, " \t")
		}
		r.Emit("hdr", "name", name, "count", n, "want", NormWS(want), "got", NormWS(got), "wantx", wantx, "gotx", gotx)
	}
}

// ---------------------------------------------------------------------------
// sinks

// refLenOf is the length of a complete rendering of a fresh copy of the program.
func refLenOf(p Prog, seed int64, tmpdir string) int {
	fb, err := Build(p, seed, 0, "", tmpdir)
	if err != nil {
		return 0
	}
	defer fb.Close()
	var rb bytes.Buffer
	_, _, _ = safeWriteTo(fb.Msg, &rb)
	return rb.Len()
}

// readAll drains a reader with Read calls of the given size (io.Copy would always use one large buffer).
func readAll(dst *bytes.Buffer, src io.Reader, size int) (int64, error) {
	buf := make([]byte, size)
	var total int64
	for i := 0; i < 10000000; i++ {
		n, err := src.Read(buf)
		dst.Write(buf[:n])
		total += int64(n)
		if err == io.EOF {
			return total, nil
		}
		if err != nil {
			return total, err
		}
	}
	return total, errors.New("reader does not end")
}

// limitSink accepts exactly k bytes, then fails.
type limitSink struct {
	k        int
	accepted int
	short    bool
	fullerr  bool // see Write
	silent   bool // short writes WITHOUT an error (a sink that breaks the io.Writer contract)
	at       int // the one write call (1-based) that is short
	calls    int
	hit      bool // the sink has refused (part of) a write
}

var errSink = errors.New("scripted sink failure")

func (s *limitSink) Write(p []byte) (int, error) {
	s.calls++
	if s.fullerr { // from call `at` on the destination takes every byte and reports an error all the same (a mirroring or syncing writer)
		s.accepted += len(p)
		if s.calls >= s.at {
			s.hit = true
			return len(p), errSink
		}
		return len(p), nil
	}
	if s.short { // short writes: accept half of every other write, as io.Writer allows with an error
		if s.calls == s.at && len(p) > 1 {
			n := len(p) / 2
			s.accepted += n
			if s.silent {
				return n, nil
			}
			return n, io.ErrShortWrite
		}
		s.accepted += len(p)
		return len(p), nil
	}
	room := s.k - s.accepted
	if room >= len(p) {
		s.accepted += len(p)
		return len(p), nil
	}
	if room < 0 {
		room = 0
	}
	s.accepted += room
	s.hit = true
	return room, errSink
}

// flushWriter is a destination with a Flush method (as bufio.Writer has): flushing it succeeds.
type flushWriter struct{ w io.Writer }

func (f *flushWriter) Write(p []byte) (int, error) { return f.w.Write(p) }
func (f *flushWriter) Flush() error                 { return nil }

// safeWriteTo calls WriteTo and converts a panic into a result.
func safeWriteTo(m *mail.Msg, w io.Writer) (n int64, err error, panicked string) {
	defer func() {
		if r := recover(); r != nil {
			panicked = fmt.Sprint(r)
		}
	}()
	n, err = m.WriteTo(w)
	return
}

// Runner replays one scenario.
type Runner struct {
	Sc     Scenario
	Rec    *rec.Recorder
	T      int
	Seed   int64
	TmpDir string
	Infra  error
}

func hashID(ids map[string]int, b []byte) int {
	h := sha256.Sum256(b)
	k := hex.EncodeToString(h[:])
	if id, ok := ids[k]; ok {
		return id
	}
	ids[k] = len(ids) + 1
	return ids[k]
}

// Run replays the scenario.
func (rn *Runner) Run() {
	sc, r := rn.Sc, rn.Rec
	seed := rn.Seed*1000003 + int64(rn.T)
	built, err := Build(sc.Prog, seed, 0, "", rn.TmpDir)
	if err != nil {
		rn.Infra = fmt.Errorf("build: %w", err)
		return
	}
	defer built.Close()
	var progRaw, slotsRaw interface{}
	if sc.Prog.Calls == nil {
		sc.Prog.Calls = []string{} // JSON null is not readable by the TLA+ Json module
	}
	pb, _ := json.Marshal(sc.Prog)
	_ = json.Unmarshal(pb, &progRaw)
	sb, _ := json.Marshal(built.Slots)
	_ = json.Unmarshal(sb, &slotsRaw)
	var faultRaw interface{} = map[string]interface{}{"kind": "none", "slot": 0, "when": ""}
	if sc.Fault != nil {
		faultRaw = map[string]interface{}{"kind": sc.Fault.Kind, "slot": sc.Fault.Slot, "when": sc.Fault.When}
	}
	opsRaw := sc.Ops
	if opsRaw == nil {
		opsRaw = []string{}
	}
	tree := sc.Tree
	if len(tree) == 0 {
		tree = json.RawMessage(`{"mp":"none"}`)
	}
	predict := sc.Predict
	if len(predict) == 0 {
		predict = json.RawMessage(`{"ok":[]}`)
	}
	r.Emit("begin", "t", rn.T, "predict", predict, "haspredict", len(sc.Predict) > 0, "scn", sc.ID, "prog", progRaw, "slots", slotsRaw, "nslots", len(built.Slots),
		"topnames", built.TopNames, "seterr", built.SetErr, "ptree", tree, "haspred", len(sc.Tree) > 0,
		"fault", faultRaw, "ops", opsRaw, "signed", sc.Prog.Smime.Key != "")

	ids := map[string]int{}
	ops := sc.Ops
	if len(ops) == 0 {
		ops = []string{"WriteTo"}
	}
	var first []byte
	refLen := 0
	type rendering struct {
		k     int
		b     []byte
		calls [][]int
	}
	var distinct []rendering
	mwaApplied := false
	if built.Prior != nil { // a render that precedes the scenario: what is rendered now must equal it
		// (the DATA section ends with a line break of the transport when the message does not end with one)
		hashID(ids, bytes.TrimSuffix(built.Prior, []byte("\r\n")))
	}
	var reader *mail.Reader
	for k, op := range ops {
		wasApplied := mwaApplied // (every render applies the middlewares before anything is written, a failing one too)
		if op != "SkipMw" && op != "BreakSrc" && op != "FixSrc" && op != "AddAlt" {
			mwaApplied = true
		}
		var out bytes.Buffer
		var n int64
		var oerr error
		var calls [][]int
		pan := ""
		// a panic inside any render operation is a result of that operation
		guard := func(f func()) {
			defer func() {
				if x := recover(); x != nil {
					pan = fmt.Sprint(x)
				}
			}()
			f()
		}
		switch op {
		case "WriteTo":
			calls = recordB64(func() { n, oerr, pan = safeWriteTo(built.Msg, &out) })
		case "Write":
			guard(func() { n, oerr = built.Msg.Write(&out) })
		case "Reader":
			guard(func() {
				reader = built.Msg.NewReader()
				_, oerr = readAll(&out, reader, []int{1, 7, 4096, 100}[(rn.T+k)%4])
				if oerr == nil {
					oerr = reader.Error()
				}
			})
			n = int64(out.Len())
		case "ReaderCopy": // a few bytes are read through Read (a caller sniffing the start), the rest is taken with io.Copy - which uses WriteTo where a reader offers it
			guard(func() {
				reader = built.Msg.NewReader()
				head := make([]byte, 64)
				hn, herr := io.ReadFull(reader, head)
				out.Write(head[:hn])
				if herr == nil {
					_, oerr = io.Copy(&out, reader)
				} else if herr != io.ErrUnexpectedEOF && herr != io.EOF {
					oerr = herr
				}
				if oerr == nil {
					oerr = reader.Error()
				}
			})
			n = int64(out.Len())
		case "UpdateReader":
			guard(func() {
				if reader == nil {
					reader = built.Msg.NewReader()
				} else {
					built.Msg.UpdateReader(reader)
				}
				_, oerr = readAll(&out, reader, []int{7, 1, 100, 4096}[(rn.T+k)%4])
				if oerr == nil {
					oerr = reader.Error()
				}
			})
			n = int64(out.Len())
		case "File", "FileOver":
			path := filepath.Join(rn.TmpDir, fmt.Sprintf("out-%d-%d.eml", rn.T, k))
			if op == "FileOver" { // the file exists already and is longer than the message
				if werr := os.WriteFile(path, bytes.Repeat([]byte("an older and longer export\r\n"), 4000), 0o600); werr != nil {
					rn.Infra = werr
					return
				}
			}
			guard(func() { oerr = built.Msg.WriteToFile(path) })
			if oerr == nil && pan == "" {
				var b []byte
				b, oerr = os.ReadFile(path)
				out.Write(b)
			}
			_ = os.Remove(path)
			n = int64(out.Len())
		case "SkipMw": // the render path that skips one middleware type
			skip := mail.MiddlewareType("no-such-middleware")
			if sc.Prog.Mw == "pair" { // the first of the two middlewares is left out of this one render
				skip = "verif-a"
			}
			guard(func() { n, oerr = built.Msg.WriteToSkipMiddleware(&out, skip) })
		case "Sendmail": // a local sendmail binary: here a script that stores what it reads
			script, spool, serr := sendmailScript(rn.TmpDir)
			if serr != nil {
				rn.Infra = serr
				return
			}
			sendmailMu.Lock()
			_ = os.Remove(spool)
			// (WriteToSendmailWithCommand allows the binary five seconds: on a loaded machine the stand-in may need longer)
			sctx, scancel := context.WithTimeout(context.Background(), 2*time.Minute)
			if k%2 == 0 {
				guard(func() { oerr = built.Msg.WriteToSendmailWithContext(sctx, script) })
			} else {
				guard(func() { oerr = built.Msg.WriteToSendmailWithCommand(script) })
				if oerr != nil && strings.Contains(oerr.Error(), "signal: killed") { // the five seconds ran out: again, without the limit
					out.Reset()
					guard(func() { oerr = built.Msg.WriteToSendmailWithContext(sctx, script) })
				}
			}
			scancel()
			if oerr == nil && pan == "" {
				var b []byte
				b, oerr = os.ReadFile(spool)
				out.Write(b)
			}
			sendmailMu.Unlock()
			n = int64(out.Len())
		case "TempFile":
			var path string
			guard(func() { path, oerr = built.Msg.WriteToTempFile() })
			if oerr == nil && pan == "" {
				var b []byte
				b, oerr = os.ReadFile(path)
				out.Write(b)
			}
			if path != "" {
				_ = os.Remove(path)
			}
			n = int64(out.Len())
		case "ReaderHalf", "ReaderExact": // the Reader is not drained: read half of it / exactly to its last byte (no EOF seen)
			guard(func() {
				if reader == nil {
					reader = built.Msg.NewReader()
				} else {
					built.Msg.UpdateReader(reader)
				}
				total := refLenOf(sc.Prog, seed, rn.TmpDir)
				want := total / 2
				if op == "ReaderExact" {
					want = total
				}
				buf := make([]byte, want)
				_, _ = io.ReadFull(reader, buf)
			})
			continue
		case "AddAlt": // the caller adds another body part between two renders
			built.Msg.AddAlternativeString(mail.TypeTextHTML, fmt.Sprintf("<p>added before render %d</p>\r\n", k+2))
			continue
		case "BreakSrc", "FixSrc": // producers start / stop failing
			built.Broken.On = op == "BreakSrc"
			continue
		case "FailSink", "FailSinkMid", "FailSinkLate", "FailSink25", "FailSink75", "FailSink90": // a failed render in the middle of a history
			at := 200
			if op != "FailSink" {
				if refLen == 0 { // length of a complete rendering, from a fresh copy of the message
					if fb, err := Build(sc.Prog, seed, 0, "", rn.TmpDir); err == nil {
						var rb bytes.Buffer
						_, _, _ = safeWriteTo(fb.Msg, &rb)
						fb.Close()
						refLen = rb.Len()
					}
				}
				at = refLen / 2
				switch op {
				case "FailSinkLate":
					at = refLen - 40
				case "FailSink25":
					at = refLen / 4
				case "FailSink75":
					at = refLen * 3 / 4
				case "FailSink90":
					at = refLen * 9 / 10
				}
				if at < 0 {
					at = 0
				}
			}
			s := &limitSink{k: at}
			n, oerr, pan = safeWriteTo(built.Msg, s)
			r.Emit("out", "k", k+1, "op", op, "ok", false, "err", oerr != nil, "panic", pan != "", "n", n,
				"accepted", s.accepted, "len", -1, "id", 0, "faulted", true, "text", clipErr(oerr, pan))
			continue
		default:
			rn.Infra = fmt.Errorf("unknown op %q", op)
			return
		}
		if d := os.Getenv("VERIF_DUMP"); d != "" {
			_ = os.WriteFile(filepath.Join(d, fmt.Sprintf("out-%d-%d-%s.eml", rn.T, k+1, op)), out.Bytes(), 0o600)
		}
		ok := oerr == nil && pan == ""
		if built.Broken.On && built.usesToggle {
			r.Emit("out", "k", k+1, "op", op, "ok", false, "err", oerr != nil, "panic", pan != "", "n", n,
				"accepted", out.Len(), "len", -1, "id", 0, "faulted", true, "text", clipErr(oerr, pan))
			continue
		}
		id := 0
		if ok {
			before := len(ids)
			same := out.Bytes()
			if built.Smime.Key != "" { // C11 for signed messages: the same signed entity
				if e := mimeread.Parse(same); e.Multi == "signed" && len(e.Children) >= 1 {
					same = e.Children[0].Raw
				}
			}
			if built.Prior != nil {
				same = bytes.TrimSuffix(same, []byte("\r\n"))
			}
			if sc.Prog.Mw == "pair" {
				// the field of the first middleware is missing exactly in a render that skipped it before any other render
				// applied it; the renders are compared without that line, a wrong presence makes the output a different one
				has := bytes.Contains(out.Bytes(), []byte("\r\n"+mwaLine))
				want := op != "SkipMw" || wasApplied
				same = append(bytes.Replace(append([]byte{}, same...), []byte(mwaLine), nil, 1), []byte(fmt.Sprintf("\nfirst middleware as expected: %v\n", has == want))...)
			}
			id = hashID(ids, same)
			if (len(ids) > before || built.Smime.Key != "") && len(distinct) < 3 {
				distinct = append(distinct, rendering{k + 1, append([]byte{}, out.Bytes()...), calls})
			}
			if first == nil {
				first = append([]byte{}, out.Bytes()...)
			}
		}
		r.Emit("out", "k", k+1, "op", op, "ok", ok, "err", oerr != nil, "panic", pan != "", "n", n,
			"accepted", out.Len(), "len", out.Len(), "id", id, "faulted", false, "text", clipErr(oerr, pan))
	}
	for i, o := range distinct { // every distinct output is read back
		r.Emit("render", "id", i+1, "second", false)
		// (only where the check asks for it - C18 -: folding thousands of calls through the specification is slow;
		// a signed message is rendered twice per operation and is left out)
		// renderings with more than 1500 calls (large contents written in tiny chunks) are left out as well
		if o.calls != nil && len(o.calls) <= 1500 && built.Smime.Key == "" && os.Getenv("VERIF_B64") != "" {
			r.Emit("b64", "calls", o.calls)
		}
		Analyse(r, o.b, built, rn.TmpDir, fmt.Sprintf("%d-%d", rn.T, i), o.k)
	}
	if sc.RoundTrip && first != nil {
		RoundTrip(r, first, built)
	}

	// render faults (C12): every offset of a failing sink / short writes / failing producers
	if f := sc.Fault; f != nil && first != nil {
		switch f.Kind {
		case "sink":
			// every byte offset - for renderings of more than 8 KiB (bodies far beyond any copy buffer) every 211th and the
			// offsets around multiples of 32 KiB
			step := 1
			if len(first) > 8192 {
				step = 211
			}
			for k := 0; k < len(first); k++ {
				if step > 1 && k%step != 0 && (k%32768 > 2 && k%32768 < 32766) {
					continue
				}
				fb, err := Build(sc.Prog, seed, 0, "", rn.TmpDir)
				if err != nil {
					rn.Infra = err
					return
				}
				s := &limitSink{k: k}
				n, werr, pan := safeWriteTo(fb.Msg, s)
				fb.Close()
				if !s.hit && pan == "" { // (the renderings of a signed message differ in length by a few bytes: this one ended before offset k)
					continue
				}
				r.Emit("out", "k", k, "op", "sink", "ok", false, "err", werr != nil, "panic", pan != "", "n", n,
					"accepted", s.accepted, "len", len(first), "id", 0, "faulted", true, "text", clipErr(werr, pan))
			}
		case "osfile":
			// the destination is a file of the operating system that cannot take the message: a read-only handle, a closed
			// handle, a device without space. Nothing is accepted; the count must say so.
			for _, kind := range []string{"readonly", "closed", "devfull"} {
				fb, err := Build(sc.Prog, seed, 0, "", rn.TmpDir)
				if err != nil {
					rn.Infra = err
					return
				}
				path := filepath.Join(rn.TmpDir, fmt.Sprintf("dst-%d-%s.eml", rn.T, kind))
				var dst *os.File
				switch kind {
				case "readonly":
					if werr := os.WriteFile(path, nil, 0o600); werr == nil {
						dst, err = os.Open(path)
					}
				case "closed":
					if dst, err = os.Create(path); err == nil {
						_ = dst.Close()
					}
				case "devfull":
					dst, err = os.OpenFile("/dev/full", os.O_WRONLY, 0)
				}
				if err != nil || dst == nil { // (no such device here: nothing to run)
					fb.Close()
					continue
				}
				n, werr, pan := safeWriteTo(fb.Msg, dst)
				_ = dst.Close()
				fb.Close()
				accepted := 0
				if st, serr := os.Stat(path); serr == nil && kind != "devfull" {
					accepted = int(st.Size())
				}
				_ = os.Remove(path)
				r.Emit("out", "k", 0, "op", "osfile-"+kind, "ok", false, "err", werr != nil, "panic", pan != "", "n", n,
					"accepted", accepted, "len", len(first), "id", 0, "faulted", true, "text", clipErr(werr, pan))
			}
		case "short", "shortnil", "fullerr":
			// every write call of the rendering is the short one in one run
			probe := &limitSink{short: true, at: -1}
			if pb, err := Build(sc.Prog, seed, 0, "", rn.TmpDir); err == nil {
				_, _, _ = safeWriteTo(pb.Msg, probe)
				pb.Close()
			}
			for at := 1; at <= probe.calls; at++ {
				fb, err := Build(sc.Prog, seed, 0, "", rn.TmpDir)
				if err != nil {
					rn.Infra = err
					return
				}
				s := &limitSink{short: f.Kind != "fullerr", fullerr: f.Kind == "fullerr", silent: f.Kind == "shortnil", at: at}
				n, werr, pan := safeWriteTo(fb.Msg, s)
				fb.Close()
				if s.accepted == len(first) && f.Kind != "fullerr" { // that call carried a single byte: nothing was short
					continue
				}
				r.Emit("out", "k", at, "op", f.Kind, "ok", false, "err", werr != nil, "panic", pan != "", "n", n,
					"accepted", s.accepted, "len", len(first), "id", 0, "faulted", true, "text", clipErr(werr, pan))
			}
		case "producer":
			if f.Slot > len(built.Slots) {
				break // the program has no such slot: nothing to fail
			}
			fb, err := Build(sc.Prog, seed, f.Slot, f.When, rn.TmpDir)
			if err != nil {
				rn.Infra = err
				return
			}
			// the destination is a plain buffer or - every other scenario - a buffered writer of the caller (it has a Flush method)
			var out bytes.Buffer
			var dst io.Writer = &out
			if rn.T%2 == 0 {
				dst = &flushWriter{w: &out}
			}
			n, werr, pan := safeWriteTo(fb.Msg, dst)
			fb.Close()
			r.Emit("out", "k", f.Slot, "op", "producer-"+f.When, "ok", false, "err", werr != nil, "panic", pan != "",
				"n", n, "accepted", out.Len(), "len", len(first), "id", 0, "faulted", true, "text", clipErr(werr, pan))
		}
	}
	r.Emit("end", "t", rn.T)
	r.Seal()
}

func clipErr(err error, pan string) string {
	s := pan
	if err != nil {
		s = err.Error()
	}
	if len(s) > 160 {
		s = s[:160]
	}
	return s
}
