package mimefam

import (
	"bytes"
	"crypto"
	"crypto/ecdsa"
	"crypto/elliptic"
	"crypto/rand"
	"crypto/rsa"
	"crypto/x509"
	"crypto/x509/pkix"
	"fmt"
	"math/big"
	"os"
	"os/exec"
	"path/filepath"
	"strings"
	"sync"
	"time"

	"verif/harness/cms"
	"verif/harness/mimeread"
	"verif/harness/rec"
)

// SmimeSpec selects the signing material of a program (C08).
type SmimeSpec struct {
	Key   string `json:"key"`   // "" (unsigned), rsa, ecdsa, rsa384 (leaf issued with SHA384WithRSA), ecdsa384 (P-256 leaf issued by a P-384 CA), ecdsaserial (leaf serial = issuer serial)
	Inter bool   `json:"inter"` // an intermediate certificate is handed to SignWithKeypair
}

// Material is one signing identity.
type Material struct {
	Key   crypto.PrivateKey
	Leaf  *x509.Certificate
	Inter *x509.Certificate
}

var (
	matOnce sync.Once
	mats    map[string]*Material
	matErr  error
)

func issue(tpl *x509.Certificate, parent *x509.Certificate, pub crypto.PublicKey, signer crypto.PrivateKey) (*x509.Certificate, error) {
	der, err := x509.CreateCertificate(rand.Reader, tpl, parent, pub, signer)
	if err != nil {
		return nil, err
	}
	return x509.ParseCertificate(der)
}

func tplCert(serial int64, cn string, ca bool) *x509.Certificate {
	t := &x509.Certificate{SerialNumber: big.NewInt(serial), Subject: pkix.Name{CommonName: cn, Organization: []string{"verif"}},
		NotBefore: time.Now().Add(-time.Hour), NotAfter: time.Now().Add(240 * time.Hour),
		KeyUsage: x509.KeyUsageDigitalSignature, BasicConstraintsValid: true, IsCA: ca,
		EmailAddresses: []string{"sender@from.test"}}
	if ca {
		t.KeyUsage |= x509.KeyUsageCertSign
	} else {
		t.ExtKeyUsage = []x509.ExtKeyUsage{x509.ExtKeyUsageEmailProtection}
	}
	return t
}

// Materials generates (once per process) the signing identities: RSA and ECDSA leaves below a
// two-level chain, plus leaves whose own certificate was issued with a SHA-384 signature.
func Materials() (map[string]*Material, error) {
	matOnce.Do(func() {
		mats = map[string]*Material{}
		fail := func(err error) { matErr = err }
		rootKey, err := ecdsa.GenerateKey(elliptic.P256(), rand.Reader)
		if err != nil {
			fail(err)
			return
		}
		rootT := tplCert(1, "verif root", true)
		root, err := issue(rootT, rootT, &rootKey.PublicKey, rootKey)
		if err != nil {
			fail(err)
			return
		}
		intKey, _ := ecdsa.GenerateKey(elliptic.P256(), rand.Reader)
		inter, err := issue(tplCert(2, "verif intermediate", true), root, &intKey.PublicKey, rootKey)
		if err != nil {
			fail(err)
			return
		}
		int384Key, _ := ecdsa.GenerateKey(elliptic.P384(), rand.Reader)
		inter384, err := issue(tplCert(3, "verif intermediate p384", true), root, &int384Key.PublicKey, rootKey)
		if err != nil {
			fail(err)
			return
		}
		rsaKey, err := rsa.GenerateKey(rand.Reader, 2048)
		if err != nil {
			fail(err)
			return
		}
		ecKey, _ := ecdsa.GenerateKey(elliptic.P256(), rand.Reader)
		intRSAKey, err := rsa.GenerateKey(rand.Reader, 2048)
		if err != nil {
			fail(err)
			return
		}
		interRSA, err := issue(tplCert(4, "verif intermediate rsa", true), root, &intRSAKey.PublicKey, rootKey)
		if err != nil {
			fail(err)
			return
		}
		mk := func(name string, serial int64, pub crypto.PublicKey, key crypto.PrivateKey, parent *x509.Certificate, signer crypto.PrivateKey, alg x509.SignatureAlgorithm) {
			t := tplCert(serial, "verif leaf "+name, false)
			t.SignatureAlgorithm = alg
			leaf, err := issue(t, parent, pub, signer)
			if err != nil {
				fail(fmt.Errorf("%s: %w", name, err))
				return
			}
			mats[name] = &Material{Key: key, Leaf: leaf, Inter: parent}
		}
		mk("rsa", 10, &rsaKey.PublicKey, rsaKey, inter, intKey, 0)
		mk("ecdsa", 11, &ecKey.PublicKey, ecKey, inter, intKey, 0)
		mk("ecdsa384", 12, &ecKey.PublicKey, ecKey, inter384, int384Key, 0) // ecdsa-with-SHA384 by default
		mk("rsa384", 13, &rsaKey.PublicKey, rsaKey, interRSA, intRSAKey, x509.SHA384WithRSA)
		// a private PKI that numbers every issuer's certificates from the same start: the leaf has the serial of its issuer
		mk("ecdsaserial", 2, &ecKey.PublicKey, ecKey, inter, intKey, 0)
	})
	return mats, matErr
}

var opensslPath = func() string {
	for _, p := range []string{"openssl"} {
		if x, err := exec.LookPath(p); err == nil {
			return x
		}
	}
	return ""
}()

// opensslVerify cross-checks one rendering with "openssl smime -verify -noverify -binary"
// ("ok" / "fail" / "skipped").
func opensslVerify(out []byte, tmpdir string, tag string) string {
	if opensslPath == "" || os.Getenv("VERIF_NO_OPENSSL") != "" {
		return "skipped"
	}
	p := filepath.Join(tmpdir, "smime-"+tag+".eml")
	if err := os.WriteFile(p, out, 0o600); err != nil {
		return "skipped"
	}
	defer os.Remove(p)
	cmd := exec.Command(opensslPath, "smime", "-verify", "-noverify", "-binary", "-in", p, "-out", os.DevNull)
	if err := cmd.Run(); err != nil {
		if _, isExit := err.(*exec.ExitError); isExit {
			return "fail"
		}
		return "skipped"
	}
	return "ok"
}

// AnalyseSigned emits the "smime" event for one rendering of a signed message.
func AnalyseSigned(r *rec.Recorder, out []byte, e *mimeread.Entity, b *Built, tmpdir, tag string, k int) {
	ct, _ := e.Get("Content-Type")
	p := mimeread.ParseParams(ct)
	ev := map[string]interface{}{"wrapper": e.Multi, "nkids": len(e.Children), "protocol": strings.ToLower(p.Params["protocol"]),
		"micalg": strings.ToLower(p.Params["micalg"]), "sigtype": "", "sigcte": "", "parsed": false, "digest": false,
		"sigvalid": false, "signer": false, "signerleaf": false, "inter": false, "wantinter": b.Smime.Inter, "detached": false,
		"digestalg": "", "problem": "", "openssl": "skipped", "key": b.Smime.Key, "k": k}
	if e.Multi == "signed" && len(e.Children) == 2 {
		sig := e.Children[1]
		sct, _ := sig.Get("Content-Type")
		ev["sigtype"] = mimeread.ParseParams(sct).Main
		scte, _ := sig.Get("Content-Transfer-Encoding")
		ev["sigcte"] = strings.ToLower(strings.TrimSpace(scte))
		der, err := mimeread.DecodeB64(sig.Body)
		if err != nil {
			ev["problem"] = "signature part: " + err.Error()
		} else {
			res, verr := cms.Verify(der, e.Children[0].Raw)
			if verr != nil {
				ev["problem"] = clipS(verr.Error(), 160)
			} else {
				ev["parsed"] = true
				if res.Problem != "" {
					ev["problem"] = res.Problem
				}
			}
			if res != nil {
				ev["digest"], ev["sigvalid"], ev["signer"] = res.DigestEqual, res.SignatureValid, res.SignerFound
				ev["detached"], ev["digestalg"] = res.Detached, res.DigestAlg
				ev["signerleaf"] = res.Signer != nil && bytes.Equal(res.Signer.Raw, b.Mat.Leaf.Raw)
				for _, c := range res.Certs {
					if b.Mat.Inter != nil && bytes.Equal(c.Raw, b.Mat.Inter.Raw) {
						ev["inter"] = true
					}
				}
			}
		}
		ev["openssl"] = opensslVerify(out, tmpdir, tag)
	}
	kv := []interface{}{}
	for k, v := range ev {
		kv = append(kv, k, v)
	}
	r.Emit("smime", kv...)
}
