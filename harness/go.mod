module verif/harness

go 1.20

require github.com/wneessen/go-mail v0.0.0

require golang.org/x/text v0.22.0

replace github.com/wneessen/go-mail => /repo
