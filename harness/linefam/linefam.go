// Package linefam replays the address / HELO / DSN scenarios of Rfc5321Line.tla: the value is
// put on a real message or client, the message is sent to the reference server, and every command
// line the server reads is recorded as raw bytes for the TLA+ grammar (property C05).
package linefam

import (
	"context"
	"encoding/json"
	"fmt"
	"net"
	"time"

	mail "github.com/wneessen/go-mail"
	"github.com/wneessen/go-mail/smtp"

	"verif/harness/pipeconn"
	"verif/harness/rec"
	"verif/harness/refsmtp"
)

// Scenario is one value to be smuggled.
type Scenario struct {
	ID     string `json:"id"`
	Kind   string `json:"kind"` // addr, helo, dsn
	Local  []int  `json:"local"`
	Addr   []int  `json:"addr"`
	Domain []int  `json:"domain"`
	Setter string `json:"setter"`
	Form   string `json:"form"`
	Helo   string `json:"helo"`
	Dsn    string `json:"dsn"`
}

// Runner replays one scenario.
type Runner struct {
	Sc    Scenario
	Rec   *rec.Recorder
	T     int
	Infra error
}

func str(b []int) string {
	out := make([]byte, len(b))
	for i, v := range b {
		out[i] = byte(v)
	}
	return string(out)
}

func ints(s string) []int {
	out := make([]int, len(s))
	for i := 0; i < len(s); i++ {
		out[i] = int(s[i])
	}
	return out
}

type box struct {
	Local  []int `json:"local"`
	Domain []int `json:"domain"`
}

var heloNames = map[string]string{
	"plain": "client.test", "sp": "client test", "tab": "client\ttest", "cr": "client\rtest", "lf": "client\ntest",
	"crlf": "client.test\r\nMAIL FROM:<smuggled@evil.test>", "nul": "client\x00test", "lt": "client<test>", "empty": "",
	"literal": "[127.0.0.1]", "trailsp": "client.test ",
}

// Run replays the scenario.
func (rn *Runner) Run() {
	sc, r := rn.Sc, rn.Rec
	special := box{Local: sc.Local, Domain: sc.Domain}
	sender := box{ints("sender"), ints("from.test")}
	rcpts := []box{{ints("rcpt"), ints("to.test")}}
	m := mail.NewMsg()
	_ = m.From("sender@from.test")
	_ = m.To("rcpt@to.test")
	m.Subject("line scenario")
	m.SetBodyString(mail.TypeTextPlain, "body\r\n")
	seterr := false
	if sc.Kind == "addr" {
		a := str(sc.Addr)
		if sc.Form == "named" {
			a = "Display Name <" + a + ">"
		}
		var err error
		switch sc.Setter {
		case "From":
			if err = m.From(a); err == nil {
				sender = special
			}
		case "EnvelopeFrom":
			if err = m.EnvelopeFrom(a); err == nil {
				sender = special
			}
		case "To":
			if err = m.To(a); err == nil {
				rcpts = []box{special}
			}
		case "ToThenAddTo": // the address is on the list already when further ones are added to it
			if err = m.To(a); err == nil {
				rcpts = []box{special}
				if aerr := m.AddTo("second@to.test"); aerr == nil {
					rcpts = append(rcpts, box{ints("second"), ints("to.test")})
				}
				if aerr := m.AddToFormat("Third Person", "third@to.test"); aerr == nil {
					rcpts = append(rcpts, box{ints("third"), ints("to.test")})
				}
			}
		case "AddCc":
			if err = m.AddCc(a); err == nil {
				rcpts = append(rcpts, special)
			}
		case "Bcc":
			if err = m.Bcc(a); err == nil {
				rcpts = append(rcpts, special)
			}
		case "ToIgnoreInvalid":
			m.ToIgnoreInvalid(a)
			if len(m.GetTo()) == 1 {
				rcpts = []box{special}
			} else {
				err = fmt.Errorf("dropped as invalid")
				_ = m.To("rcpt@to.test")
			}
		case "ToFromString":
			if err = m.ToFromString(a); err == nil {
				rcpts = []box{special}
			}
		default:
			rn.Infra = fmt.Errorf("unknown setter %q", sc.Setter)
			return
		}
		seterr = err != nil
	}
	dsnUsed := false
	opts := []mail.Option{mail.WithTLSPolicy(mail.NoTLS), mail.WithTimeout(20 * time.Second)}
	helo := heloNames[sc.Helo]
	if sc.Helo == "" {
		helo = "client.test"
	}
	opts = append(opts, mail.WithHELO(helo))
	switch sc.Dsn {
	case "", "off":
	case "never":
		opts, dsnUsed = append(opts, mail.WithDSNRcptNotifyType(mail.DSNRcptNotifyNever)), true
	case "succfail":
		opts, dsnUsed = append(opts, mail.WithDSNRcptNotifyType(mail.DSNRcptNotifySuccess, mail.DSNRcptNotifyFailure)), true
	case "all":
		opts, dsnUsed = append(opts, mail.WithDSNRcptNotifyType(mail.DSNRcptNotifyDelay, mail.DSNRcptNotifySuccess, mail.DSNRcptNotifyFailure),
			mail.WithDSNMailReturnType(mail.DSNMailReturnFull)), true
	case "hdrs":
		opts, dsnUsed = append(opts, mail.WithDSNMailReturnType(mail.DSNMailReturnHeadersOnly)), true
	case "neverfirst":
		opts, dsnUsed = append(opts, mail.WithDSNRcptNotifyType(mail.DSNRcptNotifyNever, mail.DSNRcptNotifySuccess)), true
	case "neverlast":
		opts, dsnUsed = append(opts, mail.WithDSNRcptNotifyType(mail.DSNRcptNotifySuccess, mail.DSNRcptNotifyNever)), true
	case "bogus":
		opts, dsnUsed = append(opts, mail.WithDSNRcptNotifyType(mail.DSNRcptNotifyOption("SUCCESS BOGUS=1")),
			mail.WithDSNMailReturnType(mail.DSNMailReturnOption("FULL X=1"))), true
	case "plain":
		opts, dsnUsed = append(opts, mail.WithDSN()), true
	default:
		rn.Infra = fmt.Errorf("unknown dsn class %q", sc.Dsn)
		return
	}
	srv := refsmtp.New(refsmtp.Config{Caps: []string{"8BITMIME", "SMTPUTF8", "DSN", "ENHANCEDSTATUSCODES"},
		Faults: map[refsmtp.Key]refsmtp.Fault{}, Addr: map[string][2]int{}, Expected: map[int][]byte{}, RawLines: true}, r)
	dial := func(ctx context.Context, network, address string) (net.Conn, error) {
		cl, sv := pipeconn.Pipe()
		srv.Go(sv)
		return cl, nil
	}
	opts = append(opts, mail.WithDialContextFunc(dial))
	var scRaw interface{}
	b, _ := json.Marshal(sc)
	_ = json.Unmarshal(b, &scRaw)
	r.Emit("begin", "t", rn.T, "scn", sc.ID, "sc", scRaw, "seterr", seterr, "dsn", dsnUsed,
		"mailexp", sender, "rcptexp", rcpts, "mailexp2", sender, "rcptexp2", []box{{ints("rcpt"), ints("to.test")}}, "dsn2", false)
	if sc.Kind == "dsnshare" {
		// one smtp connection shared by two mail.Clients (DialToSMTPClientWithContext + SendWithSMTPClient): the first one
		// uses the DSN options of the scenario, the second one none - its commands must not carry any
		ca, err := mail.NewClient("mail.example.test", opts...)
		if err != nil {
			rn.Infra = err
			return
		}
		cb, err := mail.NewClient("mail.example.test", mail.WithTLSPolicy(mail.NoTLS), mail.WithTimeout(20*time.Second),
			mail.WithHELO("client.test"), mail.WithDialContextFunc(dial))
		if err != nil {
			rn.Infra = err
			return
		}
		sc2, derr := ca.DialToSMTPClientWithContext(context.Background())
		if derr != nil {
			rn.Infra = derr
			return
		}
		e1 := ca.SendWithSMTPClient(sc2, m)
		r.Emit("ret", "op", "SendWithSMTPClient", "err", e1 != nil, "text", clip(e1))
		r.Emit("handover")
		m2 := mail.NewMsg()
		_ = m2.From("sender@from.test")
		_ = m2.To("rcpt@to.test")
		m2.Subject("second client")
		m2.SetBodyString(mail.TypeTextPlain, "body\r\n")
		e2 := cb.SendWithSMTPClient(sc2, m2)
		r.Emit("ret", "op", "SendWithSMTPClient", "err", e2 != nil, "text", clip(e2))
		_ = cb.CloseWithSMTPClient(sc2)
		srv.Wait(10 * time.Second)
		r.Emit("end", "t", rn.T)
		r.Seal()
		return
	}
	if sc.Kind == "rawaddr" { // the smtp package used directly: Mail / Rcpt with a value that carries a line break
		inj := map[string]string{"plain": "", "lf": ">\nRCPT TO:<smuggled@evil.test", "cr": ">\rRCPT TO:<smuggled@evil.test",
			"crlf": ">\r\nRCPT TO:<smuggled@evil.test"}[sc.Helo]
		conn, _ := dial(context.Background(), "tcp", "mail.example.test:25")
		sc2, err := smtp.NewClient(conn, "mail.example.test")
		if err != nil {
			rn.Infra = err
			return
		}
		_ = sc2.Hello("client.test")
		if sc.Dsn != "" && sc.Dsn != "off" { // DSN options set on the smtp.Client: MAIL / RCPT take the format with parameters
			sc2.SetDSNMailReturnOption("FULL")
			sc2.SetDSNRcptNotifyOption("FAILURE")
		}
		if sc.Setter == "From" {
			merr := sc2.Mail("sender@from.test" + inj)
			r.Emit("ret", "op", "Mail", "err", merr != nil, "text", clip(merr))
			if merr != nil {
				_ = sc2.Mail("sender@from.test")
			}
			_ = sc2.Rcpt("rcpt@to.test")
		} else {
			_ = sc2.Mail("sender@from.test")
			rerr := sc2.Rcpt("rcpt@to.test" + inj)
			r.Emit("ret", "op", "Rcpt", "err", rerr != nil, "text", clip(rerr))
			if rerr != nil {
				_ = sc2.Rcpt("rcpt@to.test")
			}
		}
		_ = sc2.Quit()
		_ = sc2.Close()
		srv.Wait(10 * time.Second)
		r.Emit("end", "t", rn.T)
		r.Seal()
		return
	}
	if sc.Kind == "rawhelo" { // the smtp package used directly: a refused name, then business as usual
		conn, _ := dial(context.Background(), "tcp", "mail.example.test:25")
		sc2, err := smtp.NewClient(conn, "mail.example.test")
		if err != nil {
			rn.Infra = err
			return
		}
		herr := sc2.Hello(helo)
		r.Emit("ret", "op", "Hello", "err", herr != nil, "text", clip(herr))
		if herr != nil {
			_ = sc2.Noop()
			_ = sc2.Mail("sender@from.test")
			_ = sc2.Rcpt("rcpt@to.test")
			_ = sc2.Quit()
		}
		_ = sc2.Close()
		srv.Wait(10 * time.Second)
		r.Emit("end", "t", rn.T)
		r.Seal()
		return
	}
	c, err := mail.NewClient("mail.example.test", opts...)
	if err != nil {
		r.Emit("ret", "op", "NewClient", "err", true, "text", clip(err))
		r.Emit("end", "t", rn.T)
		r.Seal()
		return
	}
	serr := c.DialAndSend(m)
	srv.Wait(10 * time.Second)
	r.Emit("ret", "op", "DialAndSend", "err", serr != nil, "text", clip(serr))
	r.Emit("end", "t", rn.T)
	r.Seal()
}

func clip(err error) string {
	if err == nil {
		return ""
	}
	s := err.Error()
	if len(s) > 200 {
		s = s[:200]
	}
	return s
}
