// Package addrfam replays call sequences of AddrHeaders.tla on a real Msg, renders it, sends it
// to the reference server and records what the envelope and the rendered address fields contain.
package addrfam

import (
	"bytes"
	"context"
	"encoding/json"
	"fmt"
	"io"
	"net"
	netmail "net/mail"
	"strings"
	"time"

	mail "github.com/wneessen/go-mail"

	"verif/harness/mimefam"
	"verif/harness/mimeread"
	"verif/harness/pipeconn"
	"verif/harness/rec"
	"verif/harness/refsmtp"
)

// Tok is an address token of the model.
type Tok struct {
	S  string `json:"s"`
	N  string `json:"n"`
	A  string `json:"a"`
	OK bool   `json:"ok"`
}

// Call is one address-setting call.
type Call struct {
	Op   string   `json:"op"`
	K    string   `json:"k"`
	Ts   []string `json:"ts"`
	Name string   `json:"name"`
}

// Scenario is one call sequence.
type Scenario struct {
	ID     string          `json:"id"`
	Calls  []Call          `json:"calls"`
	Toks   map[string]Tok  `json:"toks"`
	Expect json.RawMessage `json:"expect"`
}

// Runner replays one scenario.
type Runner struct {
	Sc    Scenario
	Rec   *rec.Recorder
	T     int
	Infra error
	// TmpDir: scratch directory (the stand-in sendmail binary lives there)
	TmpDir string
}

func (rn *Runner) strs(ts []string) []string {
	out := make([]string, 0, len(ts))
	for _, t := range ts {
		out = append(out, rn.Sc.Toks[t].S)
	}
	return out
}

func (rn *Runner) apply(m *mail.Msg, c Call) error {
	v := rn.strs(c.Ts)
	one := ""
	if len(v) > 0 {
		one = v[0]
	}
	addr := ""
	if len(c.Ts) > 0 {
		addr = rn.Sc.Toks[c.Ts[0]].A
	}
	switch c.Op + ":" + c.K {
	case "set:To":
		return m.To(v...)
	case "set:Cc":
		return m.Cc(v...)
	case "set:Bcc":
		return m.Bcc(v...)
	case "add:To":
		return m.AddTo(one)
	case "add:Cc":
		return m.AddCc(one)
	case "add:Bcc":
		return m.AddBcc(one)
	case "setign:To":
		m.ToIgnoreInvalid(v...)
	case "setign:Cc":
		m.CcIgnoreInvalid(v...)
	case "setign:Bcc":
		m.BccIgnoreInvalid(v...)
	case "fromstr:To":
		return m.ToFromString(strings.Join(v, ", "))
	case "fromstr:Cc":
		return m.CcFromString(strings.Join(v, " ,"))
	case "fromstr:Bcc":
		return m.BccFromString(strings.Join(v, ","))
	case "from:From":
		return m.From(one)
	case "envfrom:Env":
		return m.EnvelopeFrom(one)
	case "replyto:Reply":
		return m.ReplyTo(one)
	case "addformat:To":
		return m.AddToFormat(c.Name, addr)
	case "addformat:Cc":
		return m.AddCcFormat(c.Name, addr)
	case "addformat:Bcc":
		return m.AddBccFormat(c.Name, addr)
	case "fromformat:From":
		return m.FromFormat(c.Name, addr)
	case "envign:Env":
		m.SetAddrHeaderIgnoreInvalid(mail.HeaderEnvelopeFrom, v...)
	case "render:To": // the message is rendered in between (a preview, a stored copy): the address state is what it was
		if _, err := m.WriteTo(io.Discard); err != nil {
			return fmt.Errorf("harness: intermediate render: %w", err)
		}
	case "reset:To": // Msg.Reset also drops the body and the generic headers: they are set again
		m.Reset()
		m.SetDateWithValue(time.Date(2024, 5, 17, 10, 11, 12, 0, time.UTC))
		m.SetMessageIDWithValue("verif.addr@from.test")
		m.Subject("address scenario")
		m.SetBodyString(mail.TypeTextPlain, "body of the address scenario\r\n")
	default:
		return fmt.Errorf("harness: unknown call %s:%s", c.Op, c.K)
	}
	return nil
}

func pairs(v string) ([][]string, bool) {
	out := [][]string{}
	if strings.TrimSpace(v) == "" {
		return out, true
	}
	list, err := netmail.ParseAddressList(v)
	if err != nil {
		return out, false
	}
	for _, a := range list {
		out = append(out, []string{a.Name, a.Address})
	}
	return out, true
}

func addrPairs(as []*netmail.Address) [][]string {
	out := [][]string{}
	for _, a := range as {
		if a == nil {
			out = append(out, []string{"<nil>", "<nil>"})
			continue
		}
		out = append(out, []string{a.Name, a.Address})
	}
	return out
}

// stringsAgree: the Get...String getters return the String() form of what the address getters return.
func stringsAgree(m *mail.Msg) bool {
	same := func(ss []string, as []*netmail.Address) bool {
		if len(ss) != len(as) {
			return false
		}
		for i := range ss {
			if as[i] == nil || ss[i] != as[i].String() {
				return false
			}
		}
		return true
	}
	return same(m.GetToString(), m.GetTo()) && same(m.GetCcString(), m.GetCc()) && same(m.GetBccString(), m.GetBcc()) &&
		same(m.GetFromString(), m.GetFrom()) && same(m.GetAddrHeaderString(mail.HeaderReplyTo), m.GetAddrHeader(mail.HeaderReplyTo))
}

// Run replays the scenario.
func (rn *Runner) Run() {
	sc, r := rn.Sc, rn.Rec
	var callsRaw interface{}
	b, _ := json.Marshal(sc.Calls)
	_ = json.Unmarshal(b, &callsRaw)
	r.Emit("begin", "t", rn.T, "scn", sc.ID, "calls", callsRaw)
	m := mail.NewMsg()
	m.SetDateWithValue(time.Date(2024, 5, 17, 10, 11, 12, 0, time.UTC))
	m.SetMessageIDWithValue("verif.addr@from.test")
	m.Subject("address scenario")
	m.SetBodyString(mail.TypeTextPlain, "body of the address scenario\r\n")
	for i, c := range sc.Calls {
		err := rn.apply(m, c)
		if err != nil && strings.HasPrefix(err.Error(), "harness:") {
			rn.Infra = err
			return
		}
		r.Emit("callret", "i", i+1, "err", err != nil)
		// the abstract state of AddrHeaders.tla, projected from the real Msg through its getters after every call
		r.Emit("state", "i", i+1, "to", addrPairs(m.GetTo()), "cc", addrPairs(m.GetCc()), "bcc", addrPairs(m.GetBcc()),
			"from", addrPairs(m.GetFrom()), "env", addrPairs(m.GetAddrHeader(mail.HeaderEnvelopeFrom)),
			"reply", addrPairs(m.GetAddrHeader(mail.HeaderReplyTo)),
			"strings", stringsAgree(m))
	}
	// rendering
	var out bytes.Buffer
	if _, err := m.WriteTo(&out); err != nil {
		rn.Infra = fmt.Errorf("render: %w", err)
		return
	}
	e := mimeread.Parse(out.Bytes())
	fields := map[string]interface{}{}
	counts := map[string]interface{}{}
	parsed := true
	for _, name := range []string{"From", "To", "Cc", "Reply-To", "Bcc"} {
		v, n := e.Get(name)
		ps, ok := pairs(v)
		if !ok {
			parsed = false
		}
		fields[name] = ps
		counts[name] = n
	}
	// where does every address of the universe occur in the rendering?
	decoded := out.String()
	for _, f := range e.Fields {
		if d, err := mimeread.DecodeWords(f.Value); err == nil {
			decoded += "\n" + d
		}
	}
	// the rendering a local sendmail binary is given (WriteToSendmail*) is a rendering of the message too: every eighth
	// scenario with a Bcc list hands the message to the stand-in binary as well (the calls are serialised: one spool file)
	if len(m.GetBcc()) > 0 && rn.T%8 == 0 && rn.TmpDir != "" {
		sm, serr := mimefam.SendmailRender(m, rn.TmpDir)
		if serr != nil {
			rn.Infra = fmt.Errorf("sendmail stand-in: %w", serr)
			return
		}
		decoded += "\n" + string(sm)
		es := mimeread.Parse(sm)
		for _, f := range es.Fields {
			if d, err := mimeread.DecodeWords(f.Value); err == nil {
				decoded += "\n" + d
			}
		}
		if _, n := es.Get("Bcc"); n > 0 {
			counts["Bcc"] = n
		}
	}
	present := map[string]interface{}{}
	for id, t := range sc.Toks {
		if t.A != "" {
			present[id] = strings.Contains(strings.ToLower(decoded), strings.ToLower(t.A)) || strings.Contains(strings.ToLower(decoded), strings.ToLower(t.S))
		}
	}
	r.Emit("fields", "from", fields["From"], "to", fields["To"], "cc", fields["Cc"], "replyto", fields["Reply-To"],
		"counts", counts, "present", present, "parsed", parsed)

	// envelope: through the API and on the wire
	sender, serr := m.GetSender(false)
	rcpts, rerr := m.GetRecipients()
	if rcpts == nil {
		rcpts = []string{}
	}
	r.Emit("api", "sender", sender, "senderr", serr != nil, "rcpts", rcpts, "rcpterr", rerr != nil)
	srec := rec.New()
	srv := refsmtp.New(refsmtp.Config{Caps: []string{"8BITMIME"}, Faults: map[refsmtp.Key]refsmtp.Fault{},
		Addr: map[string][2]int{}, Expected: map[int][]byte{}}, srec)
	dial := func(ctx context.Context, network, address string) (net.Conn, error) {
		cl, sv := pipeconn.Pipe()
		srv.Go(sv)
		return cl, nil
	}
	c, err := mail.NewClient("mail.example.test", mail.WithDialContextFunc(dial), mail.WithTLSPolicy(mail.NoTLS),
		mail.WithTimeout(20*time.Second), mail.WithHELO("client.test"))
	if err != nil {
		rn.Infra = err
		return
	}
	sendErr := c.DialAndSend(m)
	srv.Wait(10 * time.Second)
	wireMail, wireRcpts := "", []string{}
	mails := 0
	for _, ev := range srec.Events() {
		if ev["ev"] != "cmd" {
			continue
		}
		line, _ := ev["line"].(string)
		switch ev["verb"] {
		case "MAIL":
			mails++
			wireMail = canonPath(between(line))
		case "RCPT":
			wireRcpts = append(wireRcpts, canonPath(between(line)))
		}
	}
	r.Emit("wire", "sent", sendErr == nil, "mails", mails, "mail", wireMail, "rcpts", wireRcpts, "delivered", m.IsDelivered())
	r.Emit("end", "t", rn.T)
	r.Seal()
}

// canonPath reads the path of a MAIL / RCPT command as RFC 5321 4.1.2 defines a Mailbox (Dot-string or Quoted-string,
// "@", Domain) and returns local part (unquoted) + "@" + domain; a path that is no Mailbox comes back marked.
func canonPath(p string) string {
	if p == "" {
		return p
	}
	bad := "<not a mailbox: " + p + ">"
	local, rest := "", ""
	if p[0] == '"' {
		i := 1
		var b strings.Builder
		for ; i < len(p) && p[i] != '"'; i++ {
			if p[i] == '\\' {
				i++
				if i >= len(p) {
					return bad
				}
			}
			b.WriteByte(p[i])
		}
		if i >= len(p) {
			return bad
		}
		local, rest = b.String(), p[i+1:]
	} else {
		i := strings.IndexByte(p, '@')
		if i <= 0 {
			return bad
		}
		local, rest = p[:i], p[i:]
		for _, c := range local {
			if !(c >= 'a' && c <= 'z' || c >= 'A' && c <= 'Z' || c >= '0' && c <= '9' || strings.ContainsRune("!#$%&'*+-/=?^_`{|}~.", c) || c >= 0x80) {
				return bad
			}
		}
	}
	if len(rest) < 2 || rest[0] != '@' || strings.ContainsAny(rest[1:], "@\" <>") {
		return bad
	}
	return local + rest
}

func between(line string) string {
	i, j := strings.IndexByte(line, '<'), strings.LastIndexByte(line, '>')
	if i < 0 || j < i {
		return ""
	}
	// parameters follow the closing bracket of the path
	if k := strings.IndexByte(line[i:], '>'); k >= 0 {
		j = i + k
	}
	return line[i+1 : j]
}
