package mimeread

import (
	"bytes"
	"encoding/base64"
	"io"
	"math/rand"
	"mime"
	"mime/multipart"
	"mime/quotedprintable"
	"strings"
	"testing"
)

func TestQPAgainstStdlib(t *testing.T) {
	rng := rand.New(rand.NewSource(7))
	for i := 0; i < 3000; i++ {
		n := rng.Intn(300)
		b := make([]byte, n)
		for k := range b {
			switch rng.Intn(8) {
			case 0:
				b[k] = byte(rng.Intn(256))
			case 1:
				b[k] = ' '
			case 2:
				b[k] = '='
			default:
				b[k] = byte('a' + rng.Intn(26))
			}
		}
		// canonical text: CRLF line breaks
		txt := bytes.ReplaceAll(b, []byte("\n"), []byte("x"))
		txt = bytes.ReplaceAll(txt, []byte("\r"), []byte("y"))
		if rng.Intn(2) == 0 && len(txt) > 10 {
			txt = append(txt[:5], append([]byte("\r\n"), txt[5:]...)...)
		}
		var enc bytes.Buffer
		w := quotedprintable.NewWriter(&enc)
		_, _ = w.Write(txt)
		_ = w.Close()
		got, err := DecodeQP(enc.Bytes())
		if err != nil {
			t.Fatalf("decode: %v", err)
		}
		want, err := io.ReadAll(quotedprintable.NewReader(bytes.NewReader(enc.Bytes())))
		if err != nil {
			t.Fatalf("stdlib decode: %v", err)
		}
		// the stdlib reader turns CRLF into LF; the RFC (and this reader) keep CRLF
		want = bytes.ReplaceAll(want, []byte("\n"), []byte("\r\n"))
		want = bytes.ReplaceAll(want, []byte("\r\r\n"), []byte("\r\n"))
		if !bytes.Equal(got, want) || !bytes.Equal(got, txt) {
			t.Fatalf("qp mismatch\n in  %q\n enc %q\n got %q\n std %q", txt, enc.Bytes(), got, want)
		}
	}
	// RFC 2045 6.7 examples
	got, _ := DecodeQP([]byte("Now's the time =\r\nfor all folk to come=\r\n to the aid of their country."))
	if string(got) != "Now's the time for all folk to come to the aid of their country." {
		t.Fatalf("rfc example: %q", got)
	}
}

func TestB64AgainstStdlib(t *testing.T) {
	rng := rand.New(rand.NewSource(9))
	for i := 0; i < 2000; i++ {
		b := make([]byte, rng.Intn(400))
		rng.Read(b)
		enc := base64.StdEncoding.EncodeToString(b)
		var folded strings.Builder
		for k := 0; k < len(enc); k += 76 {
			e := k + 76
			if e > len(enc) {
				e = len(enc)
			}
			folded.WriteString(enc[k:e] + "\r\n")
		}
		got, err := DecodeB64([]byte(folded.String()))
		if err != nil || !bytes.Equal(got, b) {
			t.Fatalf("b64 mismatch %v", err)
		}
	}
}

func TestWordsAgainstStdlib(t *testing.T) {
	dec := new(mime.WordDecoder)
	for _, s := range []string{
		"plain text", "=?UTF-8?q?caf=C3=A9?=", "=?UTF-8?b?Y2Fmw6k=?= au lait", "=?UTF-8?q?a?= =?UTF-8?q?b?=",
		"=?UTF-8?q?a_b?=  c", "x =?UTF-8?Q?=E2=82=AC?= y", "=?utf-8?B?4oKs?= =?utf-8?B?4oKs?=",
		"=?ISO-8859-1?q?caf=E9.txt?=", "=?iso-8859-1?b?Y2Fm6Q==?= x", "=?US-ASCII?q?=C3=9Cbersicht?=", "=?ISO-8859-1?q?=C3=9Cbersicht?=",
		"=?US-ASCII?q?plain_words?=",
	} {
		want, err := dec.DecodeHeader(s)
		got, err2 := DecodeWords(s)
		if err != nil || err2 != nil || got != want {
			t.Fatalf("words %q: got %q (%v) want %q (%v)", s, got, err2, want, err)
		}
	}
}

func TestMultipartAgainstStdlib(t *testing.T) {
	var buf bytes.Buffer
	w := multipart.NewWriter(&buf)
	_ = w.SetBoundary("outer")
	p, _ := w.CreatePart(map[string][]string{"Content-Type": {"text/plain; charset=UTF-8"}})
	_, _ = p.Write([]byte("first\r\n--outerX not a delimiter\r\nline"))
	var inner bytes.Buffer
	w2 := multipart.NewWriter(&inner)
	_ = w2.SetBoundary("inner")
	q, _ := w2.CreatePart(map[string][]string{"Content-Type": {"text/html"}})
	_, _ = q.Write([]byte("<b>x</b>"))
	_ = w2.Close()
	p, _ = w.CreatePart(map[string][]string{"Content-Type": {"multipart/alternative; boundary=inner"}})
	_, _ = p.Write(inner.Bytes())
	_ = w.Close()
	msg := "Content-Type: multipart/mixed;\r\n boundary=outer\r\nSubject: x\r\n\r\n" + buf.String()
	e := Parse([]byte(msg))
	if len(e.Problems) != 0 || e.Multi != "mixed" || len(e.Children) != 2 {
		t.Fatalf("parse: %+v", e)
	}
	if string(e.Children[0].Body) != "first\r\n--outerX not a delimiter\r\nline" {
		t.Fatalf("body0 %q", e.Children[0].Body)
	}
	if e.Children[1].Multi != "alternative" || len(e.Children[1].Children) != 1 || string(e.Children[1].Children[0].Body) != "<b>x</b>" {
		t.Fatalf("nested: %+v", e.Children[1])
	}
	// stdlib agrees on the first level
	mr := multipart.NewReader(strings.NewReader(buf.String()), "outer")
	n := 0
	for {
		part, err := mr.NextRawPart()
		if err != nil {
			break
		}
		b, _ := io.ReadAll(part)
		if !bytes.Equal(b, e.Children[n].Body) {
			t.Fatalf("stdlib part %d differs: %q vs %q", n, b, e.Children[n].Body)
		}
		n++
	}
	if n != 2 {
		t.Fatalf("stdlib found %d parts", n)
	}
}

func TestParams(t *testing.T) {
	p := ParseParams(`Text/Plain; charset="UTF-8"; name="a;b=c.txt"; x=y`)
	if p.Main != "text/plain" || p.Params["charset"] != "UTF-8" || p.Params["name"] != "a;b=c.txt" || p.Params["x"] != "y" {
		t.Fatalf("%+v", p)
	}
	m, ps, err := mime.ParseMediaType(`Text/Plain; charset="UTF-8"; name="a;b=c.txt"; x=y`)
	if err != nil || m != p.Main || ps["name"] != p.Params["name"] {
		t.Fatalf("stdlib disagrees: %v %v %v", m, ps, err)
	}
}

func TestSplitLines(t *testing.T) {
	ls := SplitLines([]byte("a: b\r\n c\nbare\rcr\r\n--x--\r\nlast"))
	if len(ls) != 5 || ls[0].Name != "a" || ls[1].EOL != "lf" || !ls[2].BareCR || !ls[3].Close || ls[3].Tok != "x" || ls[4].EOL != "none" {
		t.Fatalf("%+v", ls)
	}
}
