// Package mimeread is an independent reader of Internet messages: RFC 5322
// header sections, RFC 2045/2046 entities and multiparts, quoted-printable and
// base64 bodies, RFC 2047 encoded words.  It is written against the RFCs and
// cross-checked against the standard library where that has an equivalent
// (crosscheck.go); it shares no code with go-mail.
package mimeread

import (
	"bytes"
	"fmt"
	"strings"
)

// Line is one physical line of the rendered output, split at LF bytes only, with
// the lexical facts the TLA+ automata consume.
type Line struct {
	N       int    // 1-based line number
	Raw     []byte // without the terminator
	EOL     string // crlf, lf, none (last line without terminator)
	BareCR  bool   // a CR that is not part of the terminating CRLF
	Len     int    // length without terminator
	First   int    // first byte (0 when empty)
	DD      bool   // starts with "--"
	Tok     string // after "--", without a trailing "--"
	Close   bool   // starts with "--" and ends with "--"
	Blank   bool   // contains SP or HTAB
	Ctl     bool   // contains NUL or another control character except HTAB (CR counted by BareCR)
	High    bool   // contains a byte >= 0x80
	Name    string // header field name when the line has the shape 1*ftext ":" (RFC 5322 3.6.8)
	B64     bool   // only base64 alphabet characters (and '=')
	SoftEnd bool   // ends with '=' (quoted-printable soft line break)
}

// SplitLines splits at LF bytes only, so that bare CR / bare LF / a missing CR stay visible.
func SplitLines(b []byte) []Line {
	var out []Line
	n := 0
	for len(b) > 0 {
		n++
		i := bytes.IndexByte(b, '\n')
		var raw []byte
		eol := "none"
		if i < 0 {
			raw, b = b, nil
		} else {
			raw, b = b[:i], b[i+1:]
			eol = "lf"
			if len(raw) > 0 && raw[len(raw)-1] == '\r' {
				raw = raw[:len(raw)-1]
				eol = "crlf"
			}
		}
		out = append(out, lexLine(n, raw, eol))
	}
	return out
}

func lexLine(n int, raw []byte, eol string) Line {
	l := Line{N: n, Raw: raw, EOL: eol, Len: len(raw), B64: len(raw) > 0}
	if len(raw) > 0 {
		l.First = int(raw[0])
	}
	for _, c := range raw {
		switch {
		case c == '\r':
			l.BareCR = true
		case c == ' ' || c == '\t':
			l.Blank = true
		case c < 32 || c == 127:
			l.Ctl = true
		case c >= 128:
			l.High = true
		}
		if !(c >= 'A' && c <= 'Z' || c >= 'a' && c <= 'z' || c >= '0' && c <= '9' || c == '+' || c == '/' || c == '=') {
			l.B64 = false
		}
	}
	if bytes.HasPrefix(raw, []byte("--")) {
		l.DD = true
		t := raw[2:]
		if len(t) >= 2 && bytes.HasSuffix(t, []byte("--")) {
			l.Close = true
			t = t[:len(t)-2]
		}
		l.Tok = string(t)
	}
	if i := bytes.IndexByte(raw, ':'); i > 0 {
		ok := true
		for _, c := range raw[:i] {
			if c < 33 || c > 126 {
				ok = false
			}
		}
		if ok {
			l.Name = string(raw[:i])
		}
	}
	l.SoftEnd = len(raw) > 0 && raw[len(raw)-1] == '='
	return l
}

// Field is one unfolded header field.
type Field struct {
	Name  string
	Value string // unfolded (CRLF before WSP removed), leading blank after ':' removed
	Lines int
}

// Entity is a parsed MIME entity.
type Entity struct {
	Fields   []Field
	Body     []byte // raw body (for leaves: still transfer-encoded)
	Children []*Entity
	Multi    string // multipart subtype, "" for leaves
	Boundary string
	Preamble []byte
	Epilogue []byte
	Problems []string
	Raw      []byte // the entity as it was found (header section and body)
}

// Get returns the first field with the given name (case-insensitive) and how often it occurs.
func (e *Entity) Get(name string) (string, int) {
	v, n := "", 0
	for _, f := range e.Fields {
		if strings.EqualFold(f.Name, name) {
			if n == 0 {
				v = f.Value
			}
			n++
		}
	}
	return v, n
}

// ParseHeader splits an entity into its header section and body. Lines are terminated by CRLF
// (a bare LF is accepted as terminator and reported).
func parseHeader(b []byte) ([]Field, []byte, []string) {
	var fields []Field
	var problems []string
	pos := 0
	for {
		if pos >= len(b) {
			problems = append(problems, "header section not terminated by an empty line")
			return fields, nil, problems
		}
		i := bytes.IndexByte(b[pos:], '\n')
		var line []byte
		next := len(b)
		if i < 0 {
			line = b[pos:]
		} else {
			line = b[pos : pos+i]
			next = pos + i + 1
		}
		if len(line) > 0 && line[len(line)-1] == '\r' {
			line = line[:len(line)-1]
		} else if i >= 0 {
			problems = append(problems, "bare LF in header section")
		}
		pos = next
		if len(line) == 0 {
			return fields, b[pos:], problems
		}
		if line[0] == ' ' || line[0] == '\t' {
			if len(fields) == 0 {
				problems = append(problems, "continuation line before the first field")
				continue
			}
			f := &fields[len(fields)-1]
			f.Value += string(line)
			f.Lines++
			continue
		}
		c := bytes.IndexByte(line, ':')
		if c <= 0 {
			problems = append(problems, fmt.Sprintf("line is neither a field nor a continuation: %q", clip(line)))
			continue
		}
		name := line[:c]
		for _, ch := range name {
			if ch < 33 || ch > 126 {
				problems = append(problems, fmt.Sprintf("illegal character in field name %q", clip(name)))
				break
			}
		}
		val := string(line[c+1:])
		val = strings.TrimLeft(val, " \t")
		fields = append(fields, Field{Name: string(name), Value: val, Lines: 1})
	}
}

func clip(b []byte) string {
	if len(b) > 60 {
		return string(b[:60])
	}
	return string(b)
}

// Param holds a parsed structured header value: type / disposition token and parameters.
type Param struct {
	Main   string
	Params map[string]string
	Dups   []string // parameter names that occur more than once
}

// ParseParams parses "token/token; name=value; name=\"quoted value\"" (RFC 2045 5.1).
func ParseParams(v string) Param {
	p := Param{Params: map[string]string{}}
	i := strings.IndexByte(v, ';')
	if i < 0 {
		p.Main = strings.ToLower(strings.TrimSpace(v))
		return p
	}
	p.Main = strings.ToLower(strings.TrimSpace(v[:i]))
	rest := v[i+1:]
	for len(rest) > 0 {
		rest = strings.TrimLeft(rest, " \t;")
		if rest == "" {
			break
		}
		eq := strings.IndexByte(rest, '=')
		if eq < 0 {
			break
		}
		name := strings.ToLower(strings.TrimSpace(rest[:eq]))
		rest = rest[eq+1:]
		var val string
		if strings.HasPrefix(rest, `"`) {
			var sb strings.Builder
			j := 1
			for j < len(rest) && rest[j] != '"' {
				if rest[j] == '\\' && j+1 < len(rest) {
					j++
				}
				sb.WriteByte(rest[j])
				j++
			}
			val = sb.String()
			if j < len(rest) {
				j++
			}
			rest = rest[j:]
		} else {
			j := strings.IndexByte(rest, ';')
			if j < 0 {
				j = len(rest)
			}
			val = strings.TrimSpace(rest[:j])
			rest = rest[j:]
		}
		if _, dup := p.Params[name]; dup {
			p.Dups = append(p.Dups, name)
		} else {
			p.Params[name] = val
		}
	}
	return p
}

// Parse parses a complete message or body part (header section + body), recursively.
func Parse(b []byte) *Entity {
	e := &Entity{Raw: b}
	var body []byte
	e.Fields, body, e.Problems = parseHeader(b)
	e.Body = body
	ct, _ := e.Get("Content-Type")
	p := ParseParams(ct)
	if strings.HasPrefix(p.Main, "multipart/") {
		e.Multi = strings.TrimPrefix(p.Main, "multipart/")
		e.Boundary = p.Params["boundary"]
		if e.Boundary == "" {
			e.Problems = append(e.Problems, "multipart without boundary parameter")
			return e
		}
		e.splitMultipart()
	}
	return e
}

// splitMultipart implements RFC 2046 5.1.1: delimiter = CRLF "--" boundary; the CRLF belongs to
// the delimiter; close-delimiter = delimiter "--".
func (e *Entity) splitMultipart() {
	delim := []byte("--" + e.Boundary)
	body := e.Body
	// positions of delimiter lines: at start of body or after CRLF (or LF)
	type hit struct {
		start, end int // start: where the part before ends (before the CRLF), end: after the delimiter line
		close      bool
	}
	var hits []hit
	pos := 0
	for pos <= len(body) {
		atLineStart := pos == 0 || body[pos-1] == '\n'
		if atLineStart && bytes.HasPrefix(body[pos:], delim) {
			rest := body[pos+len(delim):]
			cl := bytes.HasPrefix(rest, []byte("--"))
			if cl {
				rest = rest[2:]
			}
			// transport padding (LWSP) then CRLF or end
			j := 0
			for j < len(rest) && (rest[j] == ' ' || rest[j] == '\t') {
				j++
			}
			okEnd := j == len(rest) || rest[j] == '\n' || (rest[j] == '\r' && j+1 < len(rest) && rest[j+1] == '\n')
			if okEnd {
				lineEnd := len(body) - len(rest) + j
				if j < len(rest) {
					if rest[j] == '\r' {
						lineEnd += 2
					} else {
						lineEnd++
					}
				}
				st := pos
				if st >= 2 && body[st-2] == '\r' && body[st-1] == '\n' {
					st -= 2
				} else if st >= 1 && body[st-1] == '\n' {
					st--
				}
				hits = append(hits, hit{st, lineEnd, cl})
				pos = lineEnd
				if cl {
					break
				}
				continue
			}
		}
		i := bytes.IndexByte(body[pos:], '\n')
		if i < 0 {
			break
		}
		pos += i + 1
	}
	if len(hits) == 0 {
		e.Problems = append(e.Problems, "multipart body contains no delimiter")
		return
	}
	e.Preamble = body[:hits[0].start]
	for k := 0; k+1 < len(hits); k++ {
		if hits[k].close {
			break
		}
		e.Children = append(e.Children, Parse(body[hits[k].end:hits[k+1].start]))
	}
	last := hits[len(hits)-1]
	if !last.close {
		e.Problems = append(e.Problems, "multipart is not closed by its close-delimiter")
		if len(hits) >= 1 {
			e.Children = append(e.Children, Parse(body[last.end:]))
		}
	} else {
		e.Epilogue = body[last.end:]
	}
}

// DecodeQP decodes quoted-printable (RFC 2045 6.7). Line breaks of the encoded form become CRLF.
func DecodeQP(b []byte) ([]byte, error) {
	var out bytes.Buffer
	lines := bytes.Split(b, []byte("\n"))
	for i, ln := range lines {
		hard := i < len(lines)-1
		if len(ln) > 0 && ln[len(ln)-1] == '\r' {
			ln = ln[:len(ln)-1]
		}
		// trailing white space before a line break is transport padding (rule 3)
		t := bytes.TrimRight(ln, " \t")
		soft := false
		if len(t) > 0 && t[len(t)-1] == '=' {
			soft = true
			ln = t[:len(t)-1]
		} else if hard {
			ln = t
		}
		for j := 0; j < len(ln); j++ {
			c := ln[j]
			if c != '=' {
				out.WriteByte(c)
				continue
			}
			if j+2 > len(ln)-1 {
				return nil, fmt.Errorf("truncated escape")
			}
			h, ok1 := unhex(ln[j+1])
			l, ok2 := unhex(ln[j+2])
			if !ok1 || !ok2 {
				return nil, fmt.Errorf("bad escape %q", ln[j:j+3])
			}
			out.WriteByte(h<<4 | l)
			j += 2
		}
		if hard && !soft {
			out.WriteString("\r\n")
		}
	}
	return out.Bytes(), nil
}

func unhex(c byte) (byte, bool) {
	switch {
	case c >= '0' && c <= '9':
		return c - '0', true
	case c >= 'A' && c <= 'F':
		return c - 'A' + 10, true
	case c >= 'a' && c <= 'f':
		return c - 'a' + 10, true
	}
	return 0, false
}

const b64abc = "ABCDEFGHIJKLMNOPQRSTUVWXYZabcdefghijklmnopqrstuvwxyz0123456789+/"

// DecodeB64 decodes base64 (RFC 2045 6.8): characters outside the alphabet are ignored.
func DecodeB64(b []byte) ([]byte, error) {
	var out []byte
	var acc uint32
	bits := 0
	pad := 0
	for _, c := range b {
		if c == '=' {
			pad++
			continue
		}
		i := strings.IndexByte(b64abc, c)
		if i < 0 {
			continue
		}
		if pad > 0 {
			return nil, fmt.Errorf("data after padding")
		}
		acc = acc<<6 | uint32(i)
		bits += 6
		if bits >= 8 {
			bits -= 8
			out = append(out, byte(acc>>uint(bits)))
			acc &= (1 << uint(bits)) - 1
		}
	}
	if bits >= 6 {
		return nil, fmt.Errorf("truncated base64 input")
	}
	return out, nil
}

// DecodeWords decodes RFC 2047 encoded words in an unstructured value; white space between
// adjacent encoded words is dropped (6.2). UTF-8, US-ASCII and ISO-8859-1 are interpreted (transcode).
func DecodeWords(s string) (string, error) {
	var out strings.Builder
	i := 0
	lastWasWord := false
	pendingWS := ""
	for i < len(s) {
		if s[i] == ' ' || s[i] == '\t' || s[i] == '\r' || s[i] == '\n' {
			j := i
			for j < len(s) && (s[j] == ' ' || s[j] == '\t' || s[j] == '\r' || s[j] == '\n') {
				j++
			}
			pendingWS = s[i:j]
			i = j
			continue
		}
		j := i
		for j < len(s) && !(s[j] == ' ' || s[j] == '\t' || s[j] == '\r' || s[j] == '\n') {
			j++
		}
		tok := s[i:j]
		i = j
		dec, isWord, err := decodeWord(tok)
		if err != nil {
			return "", err
		}
		if !(isWord && lastWasWord) {
			out.WriteString(pendingWS)
		}
		pendingWS = ""
		out.WriteString(dec)
		lastWasWord = isWord
	}
	out.WriteString(pendingWS)
	return out.String(), nil
}

// transcode maps the octets of an encoded word to Unicode according to its charset label: UTF-8 octets are kept as
// they are, ISO-8859-1 octets are code points, and an octet above 127 under a US-ASCII label is no character of that
// charset (U+FFFD) - a reader that trusts the label shows something else than what the octets say in another charset.
func transcode(cs string, b []byte) string {
	switch cs {
	case "iso-8859-1":
		r := make([]rune, len(b))
		for i, c := range b {
			r[i] = rune(c)
		}
		return string(r)
	case "us-ascii":
		var sb strings.Builder
		for _, c := range b {
			if c >= 0x80 {
				sb.WriteRune(0xFFFD)
			} else {
				sb.WriteByte(c)
			}
		}
		return sb.String()
	}
	return string(b)
}

func decodeWord(tok string) (string, bool, error) {
	if !(strings.HasPrefix(tok, "=?") && strings.HasSuffix(tok, "?=") && len(tok) >= 8) {
		return tok, false, nil
	}
	parts := strings.Split(tok[2:len(tok)-2], "?")
	if len(parts) != 3 {
		return tok, false, nil
	}
	cs := strings.ToLower(parts[0])
	if cs != "utf-8" && cs != "us-ascii" && cs != "iso-8859-1" {
		return "", false, fmt.Errorf("charset %q", parts[0])
	}
	switch strings.ToLower(parts[1]) {
	case "b":
		d, err := DecodeB64([]byte(parts[2]))
		return transcode(cs, d), true, err
	case "q":
		var b []byte
		t := parts[2]
		for k := 0; k < len(t); k++ {
			switch {
			case t[k] == '_':
				b = append(b, ' ')
			case t[k] == '=':
				if k+2 > len(t)-1 {
					return "", false, fmt.Errorf("truncated escape in encoded word")
				}
				h, ok1 := unhex(t[k+1])
				l, ok2 := unhex(t[k+2])
				if !ok1 || !ok2 {
					return "", false, fmt.Errorf("bad escape in encoded word")
				}
				b = append(b, h<<4|l)
				k += 2
			default:
				b = append(b, t[k])
			}
		}
		return transcode(cs, b), true, nil
	}
	return tok, false, nil
}
