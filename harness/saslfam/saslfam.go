// Package saslfam replays the scenarios of Sasl.tla / SaslHonest.tla: an adversarial SCRAM
// server scripted symbol by symbol (C15) and honest servers of every mechanism over credential
// classes (C14). The client side is the real smtp.Client.Auth with the real mechanisms.
package saslfam

import (
	"context"
	"crypto/tls"
	"encoding/base64"
	"encoding/json"
	"fmt"
	"net"
	"strings"
	"time"

	mail "github.com/wneessen/go-mail"
	"github.com/wneessen/go-mail/smtp"

	"verif/harness/pipeconn"
	"verif/harness/rec"
	"verif/harness/refsmtp"
	"verif/harness/sasl"
)

// Scenario is one exchange.
type Scenario struct {
	ID     string   `json:"id"`
	Kind   string   `json:"kind"` // adv, honest
	Mech   string   `json:"mech"`
	Script []string `json:"script"`
	// Prior ("authobjok": like "authobj", but the earlier exchange of the caller's Auth object was complete and successful)
	// Prior: "" - one smtp.Client.Auth call with the caller's Auth object; "client" - a mail.Client with a built-in SCRAM type
	// that has completed a valid exchange on an earlier connection (same server identity) before the scripted one
	Prior  string   `json:"prior"`
	Sent   []string `json:"sent"`
	OK     bool     `json:"ok"`
	// honest exchanges
	User   string `json:"user"`   // credential class of the user name
	Pass   string `json:"pass"`   // credential class of the password
	Wrong  string `json:"wrong"`  // "", pass, user: which credential the client gets wrong
	Salt   string `json:"salt"`   // salt class
	Iter   int    `json:"iter"`   // iteration count
	Suffix string `json:"suffix"` // server nonce suffix class
	TLSVer string `json:"tlsver"` // "", 1.2, 1.3 (PLUS)
	Retry  bool   `json:"retry"`  // a second attempt with the same Auth object on a new connection
	Via    string `json:"via"`    // smtp (smtp.Client.Auth with the caller's Auth object), client (mail.Client dials)
	Abort  string `json:"abort"`  // the server cuts the first attempt of a retry short: "", t4, drop
}

// Runner replays one scenario.
type Runner struct {
	srvTLS   *tls.Config
	sessions tls.ClientSessionCache
	Sc       Scenario
	Rec      *rec.Recorder
	T        int
	TLSDir   string
	Infra    error
}

const (
	advUser = "verif.user"
	advPass = "correct horse battery"
)

// adv is the adversarial SCRAM server.
type adv struct {
	rn        *Runner
	script    []string
	i         int
	mech      string
	cfBare    string // client-first-message-bare of the running exchange
	srvFirst  string // the valid server-first sent in the running exchange ("" = none)
	cFinalWO  string // client-final-message-without-proof received after it
	lastWasV  bool
	prevAM    string // AuthMessage of the previous (abandoned or finished) exchange, "" if it never got that far
	lastFirst string // the server-first that was really sent last in the running exchange, valid or not
	cFinalAny string // client-final-message-without-proof received last, whatever preceded it
	tlsState  *tls.ConnectionState
	salt      []byte
	exchanges int
}

func b64(s string) string { return base64.StdEncoding.EncodeToString([]byte(s)) }

func (a *adv) clientNonce() string {
	for _, f := range strings.Split(a.cfBare, ",") {
		if strings.HasPrefix(f, "r=") {
			return f[2:]
		}
	}
	return ""
}

func (a *adv) Step(j int, mech string, msg []byte, has bool) refsmtp.AuthStep {
	r := a.rn.Rec
	if j == 0 {
		a.mech = mech
	}
	// what did the client just send?
	if has || j > 0 {
		m := string(msg)
		switch {
		case strings.HasPrefix(m, "n,,") || strings.HasPrefix(m, "y,,") || strings.HasPrefix(m, "p="):
			if a.srvFirst != "" && a.cFinalWO != "" { // remember the exchange that is abandoned now
				a.prevAM = a.cfBare + "," + a.srvFirst + "," + a.cFinalWO
			}
			parts := strings.SplitN(m, ",", 3)
			if len(parts) == 3 {
				a.cfBare = parts[2]
			}
			a.srvFirst, a.cFinalWO, a.lastFirst, a.cFinalAny = "", "", "", ""
			a.exchanges++
			r.Emit("cli", "kind", "first", "nonce", a.clientNonce())
		case strings.HasPrefix(m, "c="):
			if k := strings.LastIndex(m, ",p="); k >= 0 {
				a.cFinalAny = m[:k]
				if a.srvFirst != "" {
					a.cFinalWO = m[:k]
				}
			}
			r.Emit("cli", "kind", "final")
		case m == "" && a.lastWasV:
			r.Emit("cli", "kind", "ack")
		default:
			r.Emit("cli", "kind", "other")
		}
	}
	a.lastWasV = false
	if a.i >= len(a.script) {
		r.Emit("srv", "sym", "end535", "firstValid", false, "finalValid", false)
		return refsmtp.AuthStep{Code: 535, Text: "5.7.8 script exhausted"}
	}
	sym := a.script[a.i]
	a.i++
	h := sasl.HashFor(a.mech)
	firstValid, finalValid := false, false
	text := ""
	code := 334
	nonce := a.clientNonce()
	mkFirst := func(n string) string {
		f := fmt.Sprintf("r=%s,s=%s,i=64", n, base64.StdEncoding.EncodeToString(a.salt))
		a.lastFirst = f
		return f
	}
	validSig := func() string {
		return sasl.ServerSignatureFor(h, advPass, a.salt, 64, a.cfBare+","+a.srvFirst+","+a.cFinalWO)
	}
	switch sym {
	case "empty":
		text = ""
	case "validFirst":
		if a.cfBare != "" {
			a.srvFirst = mkFirst(nonce + "SrvExt" + fmt.Sprint(a.rn.T))
			a.cFinalWO = ""
			firstValid = true
			text = b64(a.srvFirst)
		} else {
			text = b64(mkFirst("NoClientNonceYet" + fmt.Sprint(a.rn.T)))
		}
	case "zeroIterFirst", "negIterFirst": // the nonce extends the client's, the iteration count is 0 / -1: a key derived with it must still depend on the password
		if a.cfBare != "" {
			it := map[string]string{"zeroIterFirst": "0", "negIterFirst": "-1"}[sym]
			a.srvFirst = fmt.Sprintf("r=%s,s=%s,i=%s", nonce+"SrvExt"+fmt.Sprint(a.rn.T), base64.StdEncoding.EncodeToString(a.salt), it)
			a.lastFirst = a.srvFirst
			a.cFinalWO = ""
			firstValid = true
			text = b64(a.srvFirst)
		} else {
			text = b64(mkFirst("NoClientNonceYet" + fmt.Sprint(a.rn.T)))
		}
	case "foreignNonce":
		// a nonce that does not extend the client's, of exactly the length the valid one has (a message that
		// fits any buffer the valid server-first fitted)
		foreign := "Foreign" + fmt.Sprint(a.rn.T) + "Nonce"
		if nonce != "" {
			rev := []byte(nonce)
			for i, j := 0, len(rev)-1; i < j; i, j = i+1, j-1 {
				rev[i], rev[j] = rev[j], rev[i]
			}
			if string(rev) == nonce {
				rev[0] ^= 1
			}
			foreign = string(rev) + "SrvExt" + fmt.Sprint(a.rn.T)
		}
		text = b64(mkFirst(foreign))
	case "truncNonce":
		n := nonce
		if len(n) > 2 {
			n = n[:len(n)/2]
		}
		text = b64(mkFirst(n))
	case "malFirst":
		text = b64("r=" + nonce + "x,i=64")
	case "validFinal":
		if a.srvFirst != "" && a.cFinalWO != "" {
			am := a.cfBare + "," + a.srvFirst + "," + a.cFinalWO
			text = b64(sasl.ServerSignatureFor(h, advPass, a.salt, 64, am))
			finalValid = true
		} else { // nothing of this exchange to sign: the best an impostor without the exchange can do
			text = b64(sasl.ServerSignatureFor(h, advPass, a.salt, 64, a.cfBare+","+a.srvFirst+","))
		}
		a.lastWasV = true
	case "srvError": // the server-error attribute of RFC 5802 in place of a server-final: no signature at all
		text = b64("e=other-error")
		a.lastWasV = true // (an empty response to it is an acknowledgement, as for a server-final)
	case "staleFinal": // the valid signature of the previous exchange on this connection
		am := a.prevAM
		if am == "" {
			am = "n=nobody,r=stale,r=stalenonce,s=c2FsdA==,i=64,c=biws,r=stalenonce"
		}
		text = b64(sasl.ServerSignatureFor(h, advPass, a.salt, 64, am))
		a.lastWasV = true
	case "keyedFinal": // right key over the messages really exchanged, even if the server-first was bogus
		text = b64(sasl.ServerSignatureFor(h, advPass, a.salt, 64, a.cfBare+","+a.lastFirst+","+a.cFinalAny))
		finalValid = a.srvFirst != "" && a.cFinalWO != "" && a.lastFirst == a.srvFirst
		a.lastWasV = true
	case "truncFinal":
		v := validSig()
		text = b64(v[:6])
		a.lastWasV = true
	case "bareV":
		text = b64("v=")
		a.lastWasV = true
	case "otherFinal": // right structure, other key
		am := a.cfBare + "," + a.srvFirst + "," + a.cFinalWO
		text = b64(sasl.ServerSignatureFor(h, "some other password", a.salt, 64, am))
		a.lastWasV = true
	case "zeroKeyFinal": // the messages really exchanged, signed with an empty (all-zero) key: anybody on the wire can compute it
		am := a.cfBare + "," + a.lastFirst + "," + a.cFinalAny
		text = b64(sasl.ServerSignatureFor(h, "", nil, 0, am))
		a.lastWasV = true
	case "emptyFinal": // what a client with empty state would compute itself
		text = b64(sasl.ServerSignatureFor(h, "", nil, 0, ""))
		a.lastWasV = true
	case "junk":
		text = b64("x=this is junk")
	case "ok235":
		code, text = 235, "2.7.0 accepted"
	case "fail535":
		code, text = 535, "5.7.8 rejected"
	default:
		code, text = 535, "unknown symbol"
	}
	r.Emit("srv", "sym", sym, "firstValid", firstValid, "finalValid", finalValid)
	return refsmtp.AuthStep{Code: code, Text: text}
}

func mechAuth(mech, user, pass string, st *tls.ConnectionState) smtp.Auth {
	switch mech {
	case "SCRAM-SHA-1":
		return smtp.ScramSHA1Auth(user, pass)
	case "SCRAM-SHA-256":
		return smtp.ScramSHA256Auth(user, pass)
	case "SCRAM-SHA-1-PLUS":
		return smtp.ScramSHA1PlusAuth(user, pass, st)
	case "SCRAM-SHA-256-PLUS":
		return smtp.ScramSHA256PlusAuth(user, pass, st)
	case "PLAIN":
		return smtp.PlainAuth("", user, pass, "mail.example.test", true)
	case "LOGIN":
		return smtp.LoginAuth(user, pass, "mail.example.test", true)
	case "CRAM-MD5":
		return smtp.CRAMMD5Auth(user, pass)
	case "XOAUTH2":
		return smtp.XOAuth2Auth(user, pass)
	}
	return nil
}

// connect returns a client connection to a server running h; for PLUS mechanisms (or tlsver != "")
// the connection is TLS from the first byte.
func (rn *Runner) connect(cfg refsmtp.Config, tlsver string) (*smtp.Client, *refsmtp.Server, *tls.ConnectionState, error) {
	conn, srv, state, err := rn.transport(cfg, tlsver)
	if err != nil {
		return nil, nil, nil, err
	}
	c, err := smtp.NewClient(conn, "mail.example.test")
	return c, srv, state, err
}

// transport returns the client end of a connection to a server running cfg (TLS from the first byte when tlsver is set).
func (rn *Runner) transport(cfg refsmtp.Config, tlsver string) (net.Conn, *refsmtp.Server, *tls.ConnectionState, error) {
	r := rn.Rec
	cl, sv := pipeconn.Pipe()
	if tlsver != "" {
		mat, err := refsmtp.Material(rn.TLSDir)
		if err != nil {
			return nil, nil, nil, err
		}
		max := uint16(tls.VersionTLS13)
		if tlsver == "1.2" {
			max = tls.VersionTLS12
		}
		// one server configuration and one client session cache per scenario: a second connection of the
		// scenario resumes the TLS session of the first (session tickets)
		if rn.srvTLS == nil {
			rn.srvTLS = mat.ServerConfig("ok", max)
			rn.sessions = tls.NewLRUClientSessionCache(8)
		}
		cfg.TLS = rn.srvTLS
		cfg.Implicit = true
		srv := refsmtp.New(cfg, r)
		srv.Go(sv)
		tc := tls.Client(cl, &tls.Config{ServerName: "mail.example.test", RootCAs: mat.Pool, MaxVersion: max, ClientSessionCache: rn.sessions})
		_ = tc.SetDeadline(time.Now().Add(20 * time.Second))
		if err := tc.Handshake(); err != nil {
			return nil, nil, nil, fmt.Errorf("tls handshake: %w", err)
		}
		st := tc.ConnectionState()
		r.Emit("tlsconn", "version", tlsver, "resumed", st.DidResume)
		return tc, srv, &st, nil
	}
	srv := refsmtp.New(cfg, r)
	srv.Go(sv)
	_ = cl.SetDeadline(time.Now().Add(20 * time.Second))
	return cl, srv, nil, nil
}

// Run replays the scenario.
func (rn *Runner) Run() {
	sc, r := rn.Sc, rn.Rec
	var scRaw interface{}
	b, _ := json.Marshal(sc)
	_ = json.Unmarshal(b, &scRaw)
	switch sc.Kind {
	case "adv":
		r.Emit("begin", "t", rn.T, "scn", sc.ID, "sc", scRaw, "kind", "adv")
		tlsver := ""
		if strings.HasSuffix(sc.Mech, "-PLUS") {
			tlsver = "1.3"
		}
		cfg := refsmtp.Config{Caps: []string{"AUTH " + sc.Mech}, Faults: map[refsmtp.Key]refsmtp.Fault{},
			Addr: map[string][2]int{}, Expected: map[int][]byte{}}
		if sc.Prior == "client" {
			rn.runAdvThroughClient(cfg)
			break
		}
		if sc.Prior == "peer" {
			rn.runAdvPeer()
			break
		}
		if sc.Prior == "authobj" || sc.Prior == "authobjok" {
			rn.runAdvSameAuthObject(cfg, sc.Prior == "authobjok")
			break
		}
		cfg.Auth = func(st *tls.ConnectionState) refsmtp.AuthHandler {
			return &adv{rn: rn, script: sc.Script, tlsState: st, salt: []byte("adv-salt-" + fmt.Sprint(rn.T))}
		}
		c, srv, state, err := rn.connect(cfg, tlsver)
		if err != nil {
			rn.Infra = err
			return
		}
		aerr := c.Auth(mechAuth(sc.Mech, advUser, advPass, state))
		r.Emit("ret", "ok", aerr == nil, "text", clip(aerr))
		_ = c.Close()
		srv.Wait(10 * time.Second)
	case "honest":
		rn.runHonest(scRaw)
	default:
		rn.Infra = fmt.Errorf("unknown kind %q", sc.Kind)
		return
	}
	r.Emit("end", "t", rn.T)
	r.Seal()
}

// runAdvThroughClient: the adversary meets a mail.Client that has authenticated before. The server keeps its memory
// across the two connections (it can replay what it signed on the first one).
func (rn *Runner) runAdvThroughClient(cfg refsmtp.Config) {
	sc, r := rn.Sc, rn.Rec
	at := map[string]mail.SMTPAuthType{"SCRAM-SHA-1": mail.SMTPAuthSCRAMSHA1, "SCRAM-SHA-256": mail.SMTPAuthSCRAMSHA256}[sc.Mech]
	if at == "" {
		rn.Infra = fmt.Errorf("prior=client: mechanism %q not supported", sc.Mech)
		return
	}
	shared := &adv{rn: rn, salt: []byte("adv-salt-" + fmt.Sprint(rn.T))}
	var script []string
	cfg.Auth = func(st *tls.ConnectionState) refsmtp.AuthHandler {
		shared.script, shared.i, shared.tlsState = script, 0, st
		if shared.srvFirst != "" && shared.cFinalWO != "" { // what was signed on the earlier connection can be replayed on this one
			shared.prevAM = shared.cfBare + "," + shared.srvFirst + "," + shared.cFinalWO
		}
		shared.cfBare, shared.srvFirst, shared.cFinalWO, shared.lastFirst, shared.cFinalAny, shared.lastWasV = "", "", "", "", "", false
		return shared
	}
	var srvs []*refsmtp.Server
	dial := func(ctx context.Context, network, address string) (net.Conn, error) {
		conn, srv, _, err := rn.transport(cfg, "")
		srvs = append(srvs, srv)
		return conn, err
	}
	mc, err := mail.NewClient("mail.example.test", mail.WithDialContextFunc(dial), mail.WithTLSPolicy(mail.NoTLS),
		mail.WithSMTPAuth(at), mail.WithUsername(advUser), mail.WithPassword(advPass), mail.WithHELO("client.test"), mail.WithTimeout(20*time.Second))
	if err != nil {
		rn.Infra = err
		return
	}
	script = []string{"empty", "validFirst", "validFinal", "ok235"} // (the client sends its first message in answer to an empty challenge)
	if derr := mc.DialWithContext(context.Background()); derr != nil {
		rn.Infra = fmt.Errorf("the honest first exchange failed: %w", derr)
		return
	}
	_ = mc.Close()
	r.Emit("newconn")
	script = sc.Script
	aerr := mc.DialWithContext(context.Background())
	r.Emit("ret", "ok", aerr == nil, "text", clip(aerr))
	_ = mc.Close()
	for _, s := range srvs {
		if s != nil {
			s.Wait(10 * time.Second)
		}
	}
}

// runAdvSameAuthObject: the caller's Auth object has been through an exchange that FAILED at the server signature (or, with
// firstOK, through a complete and successful one); it is used again on a new connection, where the adversary replays what
// it remembers of the first one.
func (rn *Runner) runAdvSameAuthObject(cfg refsmtp.Config, firstOK bool) {
	sc, r := rn.Sc, rn.Rec
	shared := &adv{rn: rn, salt: []byte("adv-salt-" + fmt.Sprint(rn.T))}
	var script []string
	cfg.Auth = func(st *tls.ConnectionState) refsmtp.AuthHandler {
		shared.script, shared.i, shared.tlsState = script, 0, st
		if shared.srvFirst != "" && shared.cFinalWO != "" {
			shared.prevAM = shared.cfBare + "," + shared.srvFirst + "," + shared.cFinalWO
		}
		shared.cfBare, shared.srvFirst, shared.cFinalWO, shared.lastFirst, shared.cFinalAny, shared.lastWasV = "", "", "", "", "", false
		return shared
	}
	auth := mechAuth(sc.Mech, advUser, advPass, nil)
	script = []string{"empty", "validFirst", "otherFinal"}
	if firstOK {
		script = []string{"empty", "validFirst", "validFinal", "ok235"}
	}
	c1, srv1, _, err := rn.connect(cfg, "")
	if err != nil {
		rn.Infra = err
		return
	}
	if aerr := c1.Auth(auth); (aerr == nil) != firstOK {
		rn.Infra = fmt.Errorf("the first exchange (valid: %v) ended unexpectedly: %v", firstOK, aerr)
		return
	}
	_ = c1.Close()
	srv1.Wait(10 * time.Second)
	r.Emit("newconn")
	script = sc.Script
	c2, srv2, _, err := rn.connect(cfg, "")
	if err != nil {
		rn.Infra = err
		return
	}
	aerr := c2.Auth(auth)
	r.Emit("ret", "ok", aerr == nil, "text", clip(aerr))
	_ = c2.Close()
	srv2.Wait(10 * time.Second)
}

// runAdvPeer: two exchanges of the same account run in one process, interleaved step by step (the Auth objects are driven
// directly, as smtp.Client.Auth drives them: Start, then Next with the decoded server messages). Exchange A has answered its
// server-first when exchange B - same lengths throughout - does the same; then the server of A presents the genuine signature
// of exchange B. It is not the signature of the running exchange: A must refuse it.
func (rn *Runner) runAdvPeer() {
	sc, r := rn.Sc, rn.Rec
	h := sasl.HashFor(sc.Mech)
	salt := []byte("adv-salt-" + fmt.Sprint(rn.T))
	type side struct {
		auth                    smtp.Auth
		cfBare, srvFirst, cfWO string
	}
	step := func(x *side, tag string, record bool) error {
		if _, _, err := x.auth.Start(&smtp.ServerInfo{Name: "mail.example.test", TLS: false, Auth: []string{sc.Mech}}); err != nil {
			return fmt.Errorf("%s Start: %w", tag, err)
		}
		cf, err := x.auth.Next([]byte{}, true) // the empty challenge: the client sends its first message
		if err != nil {
			return fmt.Errorf("%s client-first: %w", tag, err)
		}
		parts := strings.SplitN(string(cf), ",", 3)
		if len(parts) != 3 {
			return fmt.Errorf("%s client-first malformed: %q", tag, cf)
		}
		x.cfBare = parts[2]
		nonce := ""
		for _, f := range strings.Split(x.cfBare, ",") {
			if strings.HasPrefix(f, "r=") {
				nonce = f[2:]
			}
		}
		if record {
			r.Emit("srv", "sym", "empty", "firstValid", false, "finalValid", false)
			r.Emit("cli", "kind", "first", "nonce", nonce)
		}
		x.srvFirst = fmt.Sprintf("r=%sSrvExt%06d,s=%s,i=64", nonce, rn.T%1000000, base64.StdEncoding.EncodeToString(salt))
		if record {
			r.Emit("srv", "sym", "validFirst", "firstValid", true, "finalValid", false)
		}
		fin, err := x.auth.Next([]byte(x.srvFirst), true)
		if err != nil {
			return fmt.Errorf("%s client-final: %w", tag, err)
		}
		k := strings.LastIndex(string(fin), ",p=")
		if k < 0 {
			return fmt.Errorf("%s client-final malformed", tag)
		}
		x.cfWO = string(fin)[:k]
		if record {
			r.Emit("cli", "kind", "final")
		}
		return nil
	}
	a := &side{auth: mechAuth(sc.Mech, advUser, advPass, nil)}
	b := &side{auth: mechAuth(sc.Mech, advUser, advPass, nil)}
	if err := step(a, "A", true); err != nil {
		rn.Infra = err
		return
	}
	if err := step(b, "B", false); err != nil {
		rn.Infra = err
		return
	}
	if len(a.cfBare)+len(a.srvFirst)+len(a.cfWO) != len(b.cfBare)+len(b.srvFirst)+len(b.cfWO) {
		rn.Infra = fmt.Errorf("peer exchanges differ in length")
		return
	}
	peerSig := sasl.ServerSignatureFor(h, advPass, salt, 64, b.cfBare+","+b.srvFirst+","+b.cfWO)
	ownSig := sasl.ServerSignatureFor(h, advPass, salt, 64, a.cfBare+","+a.srvFirst+","+a.cfWO)
	r.Emit("srv", "sym", "peerFinal", "firstValid", false, "finalValid", peerSig == ownSig)
	resp, err := a.auth.Next([]byte(peerSig), true)
	ok := false
	if err == nil {
		if len(resp) == 0 {
			r.Emit("cli", "kind", "ack")
		} else {
			r.Emit("cli", "kind", "other")
		}
		r.Emit("srv", "sym", "ok235", "firstValid", false, "finalValid", false)
		_, err = a.auth.Next(nil, false)
		ok = err == nil
	} else {
		r.Emit("cli", "kind", "abort")
	}
	r.Emit("ret", "ok", ok, "text", clip(err))
}

func clip(err error) string {
	if err == nil {
		return ""
	}
	s := err.Error()
	if len(s) > 200 {
		s = s[:200]
	}
	return s
}
