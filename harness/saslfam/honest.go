package saslfam

import (
	"context"
	"crypto/tls"
	"fmt"
	"net"
	"strings"
	"time"

	mail "github.com/wneessen/go-mail"
	"github.com/wneessen/go-mail/smtp"
	"golang.org/x/text/secure/precis"

	"verif/harness/refsmtp"
	"verif/harness/sasl"
)

// Cred returns the concrete string of a credential class.
func Cred(class string, user bool) string {
	base := "correct horse battery staple"
	if user {
		base = "alice"
	}
	switch class {
	case "ascii":
		return base
	case "unicode": // needs normalisation: decomposed e + combining acute, a non-ASCII space
		return base + " é ünï"
	case "comma":
		return "doe,john " + base
	case "eq":
		return "a=b " + base
	case "both":
		return "cn=doe,ou=people " + base
	case "fullwidth": // fullwidth comma and equals sign (U+FF0C, U+FF1D): not the delimiters of the SCRAM message syntax
		return "東京，タロウ＝1 " + base
	case "empty":
		return ""
	case "ctl":
		return base + "\x07bell"
	case "space":
		return " " + base + " "
	case "long":
		return strings.Repeat(base+"-", 12)
	case "huge": // an access token / passphrase of 1.5 KiB: the AUTH line is far beyond 1000 octets (RFC 4954: up to 12288)
		return strings.Repeat(base+"-0123456789abcdef-", 60)
	}
	return base + class
}

// extOf: some server nonce classes come with extension attributes in the server-first message.
func extOf(class string) string {
	switch class {
	case "printable":
		return "x=opt"
	case "long":
		return "x=opt,y=" + strings.Repeat("z", 40)
	}
	return ""
}

func saltOf(class string, t int) []byte {
	switch class {
	case "one":
		return []byte{byte(7 + t%200)}
	case "long":
		b := make([]byte, 64)
		for i := range b {
			b[i] = byte(i*13 + t)
		}
		return b
	case "zeros":
		return []byte{0, 0, 0, 0, byte(t)}
	}
	return []byte(fmt.Sprintf("salt-of-16-b-%03d", t%1000))
}

func suffixOf(class string, t int) string {
	switch class {
	case "printable":
		return "!#$%&'()*+-./:;<>?@[]^_`{|}~" + fmt.Sprint(t)
	case "long":
		return strings.Repeat("N0nce", 30) + fmt.Sprint(t)
	case "b64":
		return "abc+/=" + fmt.Sprint(t)
	}
	return "SrvNonce" + fmt.Sprint(t)
}

func (rn *Runner) runHonest(scRaw interface{}) {
	sc, r := rn.Sc, rn.Rec
	r.Emit("begin", "t", rn.T, "scn", sc.ID, "sc", scRaw, "kind", "honest")
	su, sp := Cred(sc.User, true), Cred(sc.Pass, false)
	cu, cp := su, sp
	switch sc.Wrong {
	case "user":
		cu += "x"
	case "pass":
		cp += "x"
	}
	scram := strings.HasPrefix(sc.Mech, "SCRAM-")
	judged := true
	normU, normP := su, sp
	if scram {
		// the server stores the account after the string preparation SCRAM prescribes; strings the
		// profile forbids (empty, control characters) have no right credentials at a conforming server
		var e1, e2 error
		normU, e1 = precis.OpaqueString.String(su)
		normP, e2 = precis.OpaqueString.String(sp)
		_, e3 := precis.OpaqueString.String(cu)
		_, e4 := precis.OpaqueString.String(cp)
		if e1 != nil || e2 != nil || e3 != nil || e4 != nil {
			judged = false
		}
	} else if strings.ContainsRune(su+sp+cu+cp, 0) {
		judged = false
	}
	if sc.Mech == "CRAM-MD5" && strings.Contains(cu, " ") != strings.Contains(su, " ") {
		judged = true // a blank inside the user name is legal: the digest is the last token
	}
	attempts := 1
	if sc.Retry {
		attempts = 2
	}
	var auth interface{}
	var mc *mail.Client
	var curCfg refsmtp.Config
	var curSrv *refsmtp.Server
	if sc.Via == "client" || sc.Via == "custom" { // mail.Client builds the Auth object itself, on every dial - or is handed one ("custom")
		at := map[string]mail.SMTPAuthType{"PLAIN": mail.SMTPAuthPlainNoEnc, "LOGIN": mail.SMTPAuthLoginNoEnc, "CRAM-MD5": mail.SMTPAuthCramMD5,
			"XOAUTH2": mail.SMTPAuthXOAUTH2, "SCRAM-SHA-1": mail.SMTPAuthSCRAMSHA1, "SCRAM-SHA-256": mail.SMTPAuthSCRAMSHA256,
			"SCRAM-SHA-1-PLUS": mail.SMTPAuthSCRAMSHA1PLUS, "SCRAM-SHA-256-PLUS": mail.SMTPAuthSCRAMSHA256PLUS}[sc.Mech]
		dial := func(ctx context.Context, network, address string) (net.Conn, error) {
			conn, srv, _, err := rn.transport(curCfg, sc.TLSVer)
			curSrv = srv
			return conn, err
		}
		var err error
		if sc.Via == "custom" && !strings.HasSuffix(sc.Mech, "-PLUS") { // (a -PLUS object is bound to a connection that does not exist yet)
			custom := mechAuth(sc.Mech, cu, cp, nil).(smtp.Auth)
			if rn.T%2 == 0 {
				mc, err = mail.NewClient("mail.example.test", mail.WithDialContextFunc(dial), mail.WithTLSPolicy(mail.NoTLS),
					mail.WithSMTPAuthCustom(custom), mail.WithHELO("client.test"), mail.WithTimeout(20*time.Second))
			} else {
				mc, err = mail.NewClient("mail.example.test", mail.WithDialContextFunc(dial), mail.WithTLSPolicy(mail.NoTLS),
					mail.WithSMTPAuth(mail.SMTPAuthPlain), mail.WithUsername("somebody else"), mail.WithPassword("something else"),
					mail.WithHELO("client.test"), mail.WithTimeout(20*time.Second))
				if err == nil {
					mc.SetSMTPAuthCustom(custom)
				}
			}
		} else {
			mc, err = mail.NewClient("mail.example.test", mail.WithDialContextFunc(dial), mail.WithTLSPolicy(mail.NoTLS),
				mail.WithSMTPAuth(at), mail.WithUsername(cu), mail.WithPassword(cp), mail.WithHELO("client.test"), mail.WithTimeout(20*time.Second))
		}
		if err != nil {
			rn.Infra = err
			return
		}
	}
	for n := 1; n <= attempts; n++ {
		var h *refsmtp.HonestAuth
		cfg := refsmtp.Config{Caps: []string{"AUTH " + sc.Mech}, Faults: map[refsmtp.Key]refsmtp.Fault{},
			Addr: map[string][2]int{}, Expected: map[int][]byte{}}
		aborted := false
		if n == 1 && sc.Abort != "" && attempts == 2 { // the server cuts the first attempt short at the second response
			cls := map[string]string{"t4": "t4", "drop": "drop"}[sc.Abort]
			cfg.Faults[refsmtp.Key{V: "AUTHRESP", M: 0, R: 2}] = refsmtp.Fault{K: 1, Class: cls, Shape: "none", Rot: 51}
			aborted = true
		}
		iter := sc.Iter
		if iter <= 0 {
			iter = 4096
		}
		// a second attempt meets either a new salt or - every other scenario - the salt of the first attempt with another
		// iteration count (RFC 5802 allows a server to raise the count and keep the salt)
		saltIdx := rn.T + n - 1
		if n == 2 && rn.T%2 == 0 {
			saltIdx = rn.T
			iter = iter*2 + 1
		}
		cfg.Auth = func(st *tls.ConnectionState) refsmtp.AuthHandler {
			h = &refsmtp.HonestAuth{Creds: sasl.Creds{User: su, Pass: sp}, NormUser: normU, NormPass: normP,
				Salt: saltOf(sc.Salt, saltIdx), Iter: iter, NonceSuffix: suffixOf(sc.Suffix, rn.T+n), Extension: extOf(sc.Suffix),
				Challenge: fmt.Sprintf("<%d.%d@refsmtp.test>", rn.T, n), TLS: st}
			return h
		}
		var aerr error
		if mc != nil {
			curCfg = cfg
			aerr = mc.DialWithContext(context.Background())
			_ = mc.Close()
			if curSrv != nil {
				curSrv.Wait(10 * time.Second)
			}
		} else {
			c, srv, state, err := rn.connect(cfg, sc.TLSVer)
			if err != nil {
				rn.Infra = err
				return
			}
			if auth == nil { // the same Auth object is used for a retry (PLUS variants are bound to their connection)
				auth = mechAuth(sc.Mech, cu, cp, state)
			} else if strings.HasSuffix(sc.Mech, "-PLUS") {
				auth = mechAuth(sc.Mech, cu, cp, state)
			}
			aerr = c.Auth(auth.(smtp.Auth))
			_ = c.Close()
			srv.Wait(10 * time.Second)
		}
		accepted, why, nonce := false, "no exchange", ""
		if h != nil {
			nonce = h.ClientNonce
			if h.Result != nil {
				accepted, why = h.Result.Accepted, h.Result.Why
			}
		}
		// an attempt the server cut short is not judged: only that the NEXT attempt works
		r.Emit("attempt", "n", n, "mech", sc.Mech, "accepted", accepted, "clientok", aerr == nil, "right", sc.Wrong == "",
			"judged", judged && !aborted, "nonce", nonce, "why", why, "clienterr", clip(aerr), "aborted", aborted)
	}
}
