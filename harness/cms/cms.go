// Package cms is an independent verifier for detached CMS / PKCS#7 SignedData (RFC 5652) as
// used by S/MIME multipart/signed messages (RFC 8551).  It is written on encoding/asn1 and
// crypto/x509 and shares no code with go-mail's internal/pkcs7; cms_test.go cross-checks it with
// "openssl smime".
package cms

import (
	"bytes"
	"crypto"
	"crypto/ecdsa"
	"crypto/rsa"
	"crypto/sha1"
	"crypto/sha256"
	"crypto/sha512"
	"crypto/x509"
	"encoding/asn1"
	"errors"
	"fmt"
	"hash"
	"math/big"
)

var (
	oidSignedData    = asn1.ObjectIdentifier{1, 2, 840, 113549, 1, 7, 2}
	oidMessageDigest = asn1.ObjectIdentifier{1, 2, 840, 113549, 1, 9, 4}
	oidContentType   = asn1.ObjectIdentifier{1, 2, 840, 113549, 1, 9, 3}
	oidSHA1          = asn1.ObjectIdentifier{1, 3, 14, 3, 2, 26}
	oidSHA256        = asn1.ObjectIdentifier{2, 16, 840, 1, 101, 3, 4, 2, 1}
	oidSHA384        = asn1.ObjectIdentifier{2, 16, 840, 1, 101, 3, 4, 2, 2}
	oidSHA512        = asn1.ObjectIdentifier{2, 16, 840, 1, 101, 3, 4, 2, 3}
)

type contentInfo struct {
	ContentType asn1.ObjectIdentifier
	Content     asn1.RawValue `asn1:"explicit,optional,tag:0"`
}

type algorithmIdentifier struct {
	Algorithm  asn1.ObjectIdentifier
	Parameters asn1.RawValue `asn1:"optional"`
}

type signedData struct {
	Version          int
	DigestAlgorithms []algorithmIdentifier `asn1:"set"`
	EncapContentInfo struct {
		ContentType asn1.ObjectIdentifier
		Content     asn1.RawValue `asn1:"explicit,optional,tag:0"`
	}
	Certificates asn1.RawValue `asn1:"optional,tag:0"`
	CRLs         asn1.RawValue `asn1:"optional,tag:1"`
	SignerInfos  []signerInfo  `asn1:"set"`
}

type issuerAndSerial struct {
	Issuer asn1.RawValue
	Serial *big.Int
}

type signerInfo struct {
	Version            int
	SID                issuerAndSerial
	DigestAlgorithm    algorithmIdentifier
	SignedAttrs        asn1.RawValue `asn1:"optional,tag:0"`
	SignatureAlgorithm algorithmIdentifier
	Signature          []byte
	UnsignedAttrs      asn1.RawValue `asn1:"optional,tag:1"`
}

type attribute struct {
	Type   asn1.ObjectIdentifier
	Values asn1.RawValue `asn1:"set"`
}

// Result of a verification.
type Result struct {
	DigestEqual    bool   // messageDigest attribute == digest of the content
	SignatureValid bool   // signature over the signed attributes validates under the signer certificate
	SignerFound    bool   // the signer certificate is carried in the structure
	Detached       bool   // no encapsulated content
	DigestAlg      string // sha-256 ...
	Certs          []*x509.Certificate
	Signer         *x509.Certificate
	Problem        string
}

func hashFor(oid asn1.ObjectIdentifier) (func() hash.Hash, crypto.Hash, string) {
	switch {
	case oid.Equal(oidSHA1):
		return sha1.New, crypto.SHA1, "sha-1"
	case oid.Equal(oidSHA256):
		return sha256.New, crypto.SHA256, "sha-256"
	case oid.Equal(oidSHA384):
		return sha512.New384, crypto.SHA384, "sha-384"
	case oid.Equal(oidSHA512):
		return sha512.New, crypto.SHA512, "sha-512"
	}
	return nil, 0, ""
}

// Verify checks a detached SignedData (DER) against content.
func Verify(der []byte, content []byte) (*Result, error) {
	res := &Result{}
	var ci contentInfo
	rest, err := asn1.Unmarshal(der, &ci)
	if err != nil {
		return res, fmt.Errorf("ContentInfo: %w", err)
	}
	if len(rest) != 0 {
		return res, errors.New("trailing data after ContentInfo")
	}
	if !ci.ContentType.Equal(oidSignedData) {
		return res, errors.New("not SignedData")
	}
	var sd signedData
	if _, err = asn1.Unmarshal(ci.Content.Bytes, &sd); err != nil {
		return res, fmt.Errorf("SignedData: %w", err)
	}
	res.Detached = len(sd.EncapContentInfo.Content.Bytes) == 0
	if len(sd.Certificates.Bytes) > 0 {
		certs, err := x509.ParseCertificates(sd.Certificates.Bytes)
		if err != nil {
			return res, fmt.Errorf("certificates: %w", err)
		}
		res.Certs = certs
	}
	if len(sd.SignerInfos) != 1 {
		return res, fmt.Errorf("%d signer infos", len(sd.SignerInfos))
	}
	si := sd.SignerInfos[0]
	for _, c := range res.Certs {
		if c.SerialNumber.Cmp(si.SID.Serial) == 0 && bytes.Equal(c.RawIssuer, si.SID.Issuer.FullBytes) {
			res.Signer, res.SignerFound = c, true
		}
	}
	newHash, ch, name := hashFor(si.DigestAlgorithm.Algorithm)
	if newHash == nil {
		return res, fmt.Errorf("unsupported digest algorithm %v", si.DigestAlgorithm.Algorithm)
	}
	res.DigestAlg = name
	if len(si.SignedAttrs.Bytes) == 0 {
		return res, errors.New("no signed attributes")
	}
	// the attributes: SET OF Attribute, transmitted with an IMPLICIT [0] tag
	var attrs []attribute
	setDER := append([]byte{}, si.SignedAttrs.FullBytes...)
	setDER[0] = 0x31 // the signature is computed over the DER encoding with the SET OF tag (RFC 5652 5.4)
	if _, err = asn1.UnmarshalWithParams(setDER, &attrs, "set"); err != nil {
		return res, fmt.Errorf("signed attributes: %w", err)
	}
	var md []byte
	hasCT := false
	for _, a := range attrs {
		if a.Type.Equal(oidMessageDigest) {
			if _, err = asn1.Unmarshal(a.Values.Bytes, &md); err != nil {
				return res, fmt.Errorf("messageDigest: %w", err)
			}
		}
		if a.Type.Equal(oidContentType) {
			hasCT = true
		}
	}
	if md == nil || !hasCT {
		res.Problem = "messageDigest or contentType attribute missing"
	}
	h := newHash()
	h.Write(content)
	res.DigestEqual = md != nil && bytes.Equal(h.Sum(nil), md)
	if res.Signer == nil {
		return res, nil
	}
	h = newHash()
	h.Write(setDER)
	sum := h.Sum(nil)
	switch pub := res.Signer.PublicKey.(type) {
	case *rsa.PublicKey:
		res.SignatureValid = rsa.VerifyPKCS1v15(pub, ch, sum, si.Signature) == nil
	case *ecdsa.PublicKey:
		res.SignatureValid = ecdsa.VerifyASN1(pub, sum, si.Signature)
	default:
		res.Problem = "unsupported key type"
	}
	return res, nil
}
