package cms

import (
	"crypto"
	"crypto/ecdsa"
	"crypto/elliptic"
	"crypto/rand"
	"crypto/rsa"
	"crypto/x509"
	"crypto/x509/pkix"
	"encoding/pem"
	"math/big"
	"os"
	"os/exec"
	"path/filepath"
	"testing"
	"time"
)

// The verifier is checked against signatures produced by an unrelated implementation (openssl).
func TestAgainstOpenSSL(t *testing.T) {
	ossl, err := exec.LookPath("openssl")
	if err != nil {
		t.Skip("no openssl")
	}
	dir := t.TempDir()
	rk, _ := rsa.GenerateKey(rand.Reader, 2048)
	ek, _ := ecdsa.GenerateKey(elliptic.P256(), rand.Reader)
	for name, key := range map[string]crypto.Signer{"rsa": rk, "ecdsa": ek} {
		tpl := &x509.Certificate{SerialNumber: big.NewInt(7), Subject: pkix.Name{CommonName: "t " + name},
			NotBefore: time.Now().Add(-time.Hour), NotAfter: time.Now().Add(time.Hour), KeyUsage: x509.KeyUsageDigitalSignature}
		der, err := x509.CreateCertificate(rand.Reader, tpl, tpl, key.Public(), key)
		if err != nil {
			t.Fatal(err)
		}
		kder, _ := x509.MarshalPKCS8PrivateKey(key)
		cp, kp, in, out := filepath.Join(dir, name+".crt"), filepath.Join(dir, name+".key"), filepath.Join(dir, name+".txt"), filepath.Join(dir, name+".der")
		_ = os.WriteFile(cp, pem.EncodeToMemory(&pem.Block{Type: "CERTIFICATE", Bytes: der}), 0o600)
		_ = os.WriteFile(kp, pem.EncodeToMemory(&pem.Block{Type: "PRIVATE KEY", Bytes: kder}), 0o600)
		content := []byte("Content-Type: text/plain\r\n\r\nhello signed world\r\n")
		_ = os.WriteFile(in, content, 0o600)
		for _, md := range []string{"sha256", "sha384"} {
			if o, err := exec.Command(ossl, "cms", "-sign", "-binary", "-in", in, "-signer", cp, "-inkey", kp, "-md", md,
				"-outform", "DER", "-out", out).CombinedOutput(); err != nil {
				t.Fatalf("openssl: %v %s", err, o)
			}
			sig, _ := os.ReadFile(out)
			res, err := Verify(sig, content)
			if err != nil || !res.DigestEqual || !res.SignatureValid || !res.SignerFound || !res.Detached {
				t.Fatalf("%s/%s: good signature rejected: %+v %v", name, md, res, err)
			}
			bad := append([]byte{}, content...)
			bad[len(bad)-3] ^= 1
			if res, _ = Verify(sig, bad); res.DigestEqual {
				t.Fatalf("%s/%s: changed content accepted", name, md)
			}
			// damage the signature value (the last bytes of the structure)
			s2 := append([]byte{}, sig...)
			s2[len(s2)-5] ^= 0x40
			if res, err = Verify(s2, content); err == nil && res.SignatureValid {
				t.Fatalf("%s/%s: damaged signature accepted", name, md)
			}
		}
	}
}
