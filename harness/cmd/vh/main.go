// Command vh replays TLC-generated scenarios against the real go-mail code and
// writes the recorded traces as ndjson.
package main

import (
	"bufio"
	"encoding/json"
	"flag"
	"fmt"
	"os"
	"sync"

	"verif/harness/addrfam"
	"verif/harness/concfam"
	"verif/harness/emlfam"
	"verif/harness/lifefam"
	"verif/harness/smtpfam"
	"verif/harness/linefam"
	"verif/harness/mimefam"
	"verif/harness/pipeconn"
	"verif/harness/rec"
	"verif/harness/saslfam"
	"verif/harness/session"
)

type job struct {
	idx  int
	line []byte
}

type result struct {
	idx   int
	lines [][]byte
	infra error
}

var errOut = os.Stderr

func main() {
	if len(os.Args) < 2 {
		fmt.Fprintln(os.Stderr, "usage: vh <replay> ...")
		os.Exit(2)
	}
	switch os.Args[1] {
	case "replay":
		replay(os.Args[2:])
	default:
		fmt.Fprintln(os.Stderr, "unknown sub-command", os.Args[1])
		os.Exit(2)
	}
}

func replay(args []string) {
	fs := flag.NewFlagSet("replay", flag.ExitOnError)
	family := fs.String("family", "session", "scenario family")
	in := fs.String("scenarios", "", "scenario file (json lines)")
	out := fs.String("out", "", "trace file (ndjson)")
	workers := fs.Int("workers", 16, "parallel replays")
	seed := fs.Int64("seed", 1, "seed for concretisation")
	offset := fs.Int("offset", 0, "number added to the scenario index (trace ids of later batches)")
	_ = fs.Parse(args)
	if *family == "conc" {
		// some scenarios switch on the library's default debug logger, which writes to os.Stderr
		if dn, err := os.OpenFile(os.DevNull, os.O_WRONLY, 0); err == nil {
			os.Stderr = dn
		}
	}
	tdir, err := os.MkdirTemp("", "vh-tls-")
	if err != nil {
		fmt.Fprintln(errOut, "vh:", err)
		os.Exit(2)
	}
	defer os.RemoveAll(tdir)
	session.TLSDir = tdir
	if *family == "session" {
		session.InstallHooks()
	}
	if *family == "mime" {
		mimefam.InstallHooks()
	}
	pipeconn.Limit = 1024 // like a small socket buffer: a peer that stops reading blocks the writer

	f, err := os.Open(*in)
	if err != nil {
		fmt.Fprintln(errOut, "vh:", err)
		os.Exit(2)
	}
	defer f.Close()
	sc := bufio.NewScanner(f)
	sc.Buffer(make([]byte, 1<<20), 1<<26)
	var jobs []job
	for sc.Scan() {
		if len(sc.Bytes()) == 0 {
			continue
		}
		jobs = append(jobs, job{*offset + len(jobs) + 1, append([]byte(nil), sc.Bytes()...)})
	}
	results := make([]result, len(jobs))
	ch := make(chan job)
	var wg sync.WaitGroup
	for w := 0; w < *workers; w++ {
		wg.Add(1)
		go func() {
			defer wg.Done()
			for j := range ch {
				results[j.idx-1-*offset] = runOne(*family, j, *seed)
			}
		}()
	}
	for _, j := range jobs {
		ch <- j
	}
	close(ch)
	wg.Wait()

	of, err := os.Create(*out)
	if err != nil {
		fmt.Fprintln(errOut, "vh:", err)
		os.Exit(2)
	}
	w := bufio.NewWriterSize(of, 1<<20)
	infra := 0
	for _, r := range results {
		if r.infra != nil {
			infra++
			fmt.Fprintf(errOut, "vh: infrastructure failure in scenario %d: %v\n", r.idx, r.infra)
			continue
		}
		for _, l := range r.lines {
			w.Write(l)
			w.WriteByte('\n')
		}
	}
	w.WriteString("{\"ev\":\"eof\"}\n")
	w.Flush()
	of.Close()
	fmt.Printf("replayed=%d infra=%d\n", len(jobs), infra)
	if infra > 0 {
		os.RemoveAll(tdir)
		os.Exit(2)
	}
}

func runOne(family string, j job, seed int64) result {
	switch family {
	case "session":
		var s session.Scenario
		if err := json.Unmarshal(j.line, &s); err != nil {
			return result{idx: j.idx, infra: err}
		}
		if s.ID == "" {
			s.ID = fmt.Sprintf("S%06d", j.idx)
		}
		rn := &session.Runner{Sc: s, Rec: rec.New(), T: j.idx}
		rn.Run()
		evs := rn.Rec.Events()
		session.PostProcessLogs(evs)
		return result{idx: j.idx, lines: rec.Marshal(evs), infra: rn.Infra}
	case "addr":
		var s addrfam.Scenario
		if err := json.Unmarshal(j.line, &s); err != nil {
			return result{idx: j.idx, infra: err}
		}
		if s.ID == "" {
			s.ID = fmt.Sprintf("A%06d", j.idx)
		}
		rn := &addrfam.Runner{Sc: s, Rec: rec.New(), T: j.idx, TmpDir: session.TLSDir}
		rn.Run()
		return result{idx: j.idx, lines: rn.Rec.Lines(), infra: rn.Infra}
	case "line":
		var s linefam.Scenario
		if err := json.Unmarshal(j.line, &s); err != nil {
			return result{idx: j.idx, infra: err}
		}
		if s.ID == "" {
			s.ID = fmt.Sprintf("L%06d", j.idx)
		}
		rn := &linefam.Runner{Sc: s, Rec: rec.New(), T: j.idx}
		rn.Run()
		return result{idx: j.idx, lines: rn.Rec.Lines(), infra: rn.Infra}
	case "sasl":
		var s saslfam.Scenario
		if err := json.Unmarshal(j.line, &s); err != nil {
			return result{idx: j.idx, infra: err}
		}
		if s.ID == "" {
			s.ID = fmt.Sprintf("X%06d", j.idx)
		}
		rn := &saslfam.Runner{Sc: s, Rec: rec.New(), T: j.idx, TLSDir: session.TLSDir}
		rn.Run()
		return result{idx: j.idx, lines: rn.Rec.Lines(), infra: rn.Infra}
	case "conc":
		var s concfam.Scenario
		if err := json.Unmarshal(j.line, &s); err != nil {
			return result{idx: j.idx, infra: err}
		}
		if s.ID == "" {
			s.ID = fmt.Sprintf("K%06d", j.idx)
		}
		rn := &concfam.Runner{Sc: s, Rec: rec.New(), T: j.idx, Seed: seed, TLSDir: session.TLSDir}
		rn.Run()
		return result{idx: j.idx, lines: rn.Rec.Lines(), infra: rn.Infra}
	case "life":
		var s lifefam.Scenario
		if err := json.Unmarshal(j.line, &s); err != nil {
			return result{idx: j.idx, infra: err}
		}
		if s.ID == "" {
			s.ID = fmt.Sprintf("L%06d", j.idx)
		}
		rn := &lifefam.Runner{Sc: s, Rec: rec.New(), T: j.idx}
		rn.Run()
		return result{idx: j.idx, lines: rn.Rec.Lines(), infra: rn.Infra}
	case "smtp":
		var s smtpfam.Scenario
		if err := json.Unmarshal(j.line, &s); err != nil {
			return result{idx: j.idx, infra: err}
		}
		if s.ID == "" {
			s.ID = fmt.Sprintf("P%06d", j.idx)
		}
		rn := &smtpfam.Runner{Sc: s, Rec: rec.New(), T: j.idx, TLSDir: session.TLSDir}
		rn.Run()
		return result{idx: j.idx, lines: rn.Rec.Lines(), infra: rn.Infra}
	case "eml":
		var s emlfam.Scenario
		if err := json.Unmarshal(j.line, &s); err != nil {
			return result{idx: j.idx, infra: err}
		}
		if s.ID == "" {
			s.ID = fmt.Sprintf("E%06d", j.idx)
		}
		rn := &emlfam.Runner{Sc: s, Rec: rec.New(), T: j.idx, Seed: seed, TmpDir: session.TLSDir}
		rn.Run()
		return result{idx: j.idx, lines: rn.Rec.Lines(), infra: rn.Infra}
	case "mime":
		var s mimefam.Scenario
		if err := json.Unmarshal(j.line, &s); err != nil {
			return result{idx: j.idx, infra: err}
		}
		if s.ID == "" {
			s.ID = fmt.Sprintf("M%06d", j.idx)
		}
		rn := &mimefam.Runner{Sc: s, Rec: rec.New(), T: j.idx, Seed: seed, TmpDir: session.TLSDir}
		rn.Run()
		return result{idx: j.idx, lines: rn.Rec.Lines(), infra: rn.Infra}
	}
	return result{idx: j.idx, infra: fmt.Errorf("unknown family %q", family)}
}
