// Package emlfam turns the abstract inputs of EmlParse.tla into EML texts and runs the real
// parser entry points on them (property C09): the text itself, the text read through readers that
// fail at various offsets, the text in a file, and seeded byte-noise mutations of the text.
package emlfam

import (
	"bytes"
	"encoding/base64"
	"encoding/json"
	"errors"
	"fmt"
	"io"
	"math/rand"
	"os"
	"path/filepath"
	"strings"
	"time"

	mail "github.com/wneessen/go-mail"

	"verif/harness/rec"
)

// Part is one part of an abstract multipart input.
type Part struct {
	Ptype string `json:"ptype"`
	Disp  string `json:"disp"`
	Fname string `json:"fname"`
	Cid   bool   `json:"cid"`
	Cte   string `json:"cte"`
	Sub   int    `json:"sub"`
}

// Top holds the top-level classes.
type Top struct {
	Ctype    string `json:"ctype"`
	Boundary string `json:"boundary"`
	Cte      string `json:"cte"`
	From     string `json:"from"`
	To       string `json:"to"`
	Date     string `json:"date"`
	Trunc    string `json:"trunc"`
}

// Input is an abstract EML input.
type Input struct {
	Top   Top    `json:"top"`
	Parts []Part `json:"parts"`
}

// Scenario is an input with the model's prediction.
type Scenario struct {
	ID      string          `json:"id"`
	Input   Input           `json:"input"`
	Predict json.RawMessage `json:"predict"`
}

func body(cte string, text string) string {
	switch cte {
	case "b64":
		e := base64.StdEncoding.EncodeToString([]byte(text))
		var b strings.Builder
		for len(e) > 76 {
			b.WriteString(e[:76] + "\r\n")
			e = e[76:]
		}
		b.WriteString(e + "\r\n")
		return b.String()
	case "b64cut1", "b64cut2", "b64cut3": // cut inside a group of four characters
		e := strings.TrimRight(base64.StdEncoding.EncodeToString([]byte(text+"padding so that several lines exist, more than seventy-six characters of it")), "=")
		e = e[:len(e)-len(e)%4]
		e = e[:len(e)-int(cte[len(cte)-1]-'0')]
		var b strings.Builder
		for len(e) > 76 {
			b.WriteString(e[:76] + "\r\n")
			e = e[76:]
		}
		b.WriteString(e)
		return b.String()
	case "b64garbage":
		return "!!!this is not base64 at all$$$\r\n====\r\n"
	case "qp":
		return strings.ReplaceAll(text, "=", "=3D")
	}
	return text
}

func cteHeader(cte string) string {
	switch cte {
	case "absent":
		return ""
	case "7bit", "8bit":
		return "Content-Transfer-Encoding: " + cte + "\r\n"
	case "qp":
		return "Content-Transfer-Encoding: quoted-printable\r\n"
	case "b64", "b64garbage", "b64cut1", "b64cut2", "b64cut3":
		return "Content-Transfer-Encoding: base64\r\n"
	}
	if cte == "cteparen" {
		return "Content-Transfer-Encoding: 7bit )(\r\n"
	}
	if cte == "ctecomment" {
		return "Content-Transfer-Encoding: 7bit (as (nested) comments go) \r\n"
	}
	return "Content-Transfer-Encoding: x-unknown-encoding\r\n"
}

var fnames = map[string]string{
	"absent": "", "quoted": `; filename="file.txt"`, "unquoted2": "; filename=ab", "unquoted1": "; filename=a",
	"empty": "; filename=", "quoteonly": `; filename="`, "unterminated": `; filename="abc`,
	"dup": `; filename="a.txt"; filename="b.txt"`, "encoded": `; filename="=?UTF-8?q?f=C3=BCr_dich.txt?="`,
	"encodedkoi": `; filename="=?KOI8-R?B?8NLJ18XULnR4dA==?="`, // an encoded word in a charset the decoder may not know
	"longcjk": `; filename="` + strings.Repeat("報告書", 30) + `.txt"`, "longumlaut": `; filename="` + strings.Repeat("äöü", 50) + `.pdf"`,
	"long300": `; filename="` + strings.Repeat("abcdefghij", 30) + `.txt"`,
	"long2231": "; filename*0*=UTF-8''" + strings.Repeat("%E5%A0%B1", 40) + ";\r\n filename*1*=" + strings.Repeat("%C3%BC", 70) + ".txt",
	"sizeneg": `; filename="f.txt"; size=-5`, "sizehuge": `; filename="f.txt"; size=9223372036854775807`, "sizeok": `; filename="f.txt"; size=7`,
}

func partText(p Part, depth int, idx int) string {
	var b strings.Builder
	inner := fmt.Sprintf("B%d-%d", depth+1, idx)
	switch p.Ptype {
	case "plain":
		b.WriteString("Content-Type: text/plain; charset=UTF-8\r\n")
	case "html":
		b.WriteString("Content-Type: text/html; charset=UTF-8\r\n")
	case "related", "alternative", "mixed":
		fmt.Fprintf(&b, "Content-Type: multipart/%s;\r\n boundary=%s\r\n", p.Ptype, inner)
	case "other":
		b.WriteString("Content-Type: application/octet-stream\r\n")
	case "twoctypes":
		b.WriteString("Content-Type: text/plain; charset=UTF-8\r\nContent-Type: text/html\r\n")
	}
	switch p.Disp {
	case "attachment", "inline":
		b.WriteString("Content-Disposition: " + p.Disp + fnames[p.Fname] + "\r\n")
	case "other":
		b.WriteString("Content-Disposition: form-data" + fnames[p.Fname] + "\r\n")
	case "empty":
		b.WriteString("Content-Disposition: \r\n")
	}
	if p.Cid {
		b.WriteString("Content-ID: <cid1@verif>\r\n")
	}
	multi := p.Ptype == "related" || p.Ptype == "alternative" || p.Ptype == "mixed"
	if !multi {
		b.WriteString(cteHeader(p.Cte))
	}
	b.WriteString("\r\n")
	if multi {
		for k := 1; k <= p.Sub; k++ {
			ct := "text/plain; charset=UTF-8"
			if k == 2 {
				ct = "text/html; charset=UTF-8"
			}
			fmt.Fprintf(&b, "--%s\r\nContent-Type: %s\r\nContent-Transfer-Encoding: quoted-printable\r\n\r\nnested part %d =3D x\r\n", inner, ct, k)
		}
		fmt.Fprintf(&b, "--%s--\r\n", inner)
	} else {
		b.WriteString(body(p.Cte, fmt.Sprintf("content of part %d = ü\r\nsecond line\r\n", idx)))
	}
	return b.String()
}

// Text renders the abstract input as EML text.
func Text(in Input) []byte {
	var b strings.Builder
	t := in.Top
	b.WriteString("MIME-Version: 1.0\r\nMessage-ID: <verif.eml@from.test>\r\nSubject: =?UTF-8?q?parser_scenario_=C3=BC?=\r\n")
	switch t.Date {
	case "ok":
		b.WriteString("Date: Fri, 17 May 2024 10:11:12 +0000\r\n")
	case "bad":
		b.WriteString("Date: yesterday around noon\r\n")
	}
	switch t.From {
	case "ok":
		b.WriteString("From: \"Sender, A.\" <sender@from.test>\r\n")
	case "bad":
		b.WriteString("From: this is not an address\r\n")
	case "emptygroup":
		b.WriteString("From: undisclosed-senders:;\r\n")
	}
	switch t.To {
	case "ok":
		b.WriteString("To: rcpt1@to.test, Second <rcpt2@to.test>\r\nCc: cc@to.test\r\n")
	case "bad":
		b.WriteString("To: <<broken>>\r\n")
	case "emptygroup":
		b.WriteString("To: undisclosed-recipients:;\r\n")
	}
	multi := t.Ctype == "mixed" || t.Ctype == "related" || t.Ctype == "alternative"
	delim := "B0"
	switch t.Ctype {
	case "plain":
		b.WriteString("Content-Type: text/plain; charset=UTF-8\r\n")
	case "html":
		b.WriteString("Content-Type: text/html; charset=UTF-8\r\n")
	case "other":
		b.WriteString("Content-Type: application/pdf\r\n")
	case "unparsable":
		b.WriteString("Content-Type: text/plain; =;;\"\r\n")
	case "plainlq": // the charset value is a lone quote
		b.WriteString("Content-Type: text/plain; charset=\"\r\n")
	case "plainqs": // a quoted charset value that begins with a semicolon
		b.WriteString("Content-Type: text/plain; charset=\";utf-8\"\r\n")
	case "plainempty":
		b.WriteString("Content-Type: text/plain; charset=\r\n")
	case "mixed", "related", "alternative":
		switch t.Boundary {
		case "ok":
			fmt.Fprintf(&b, "Content-Type: multipart/%s;\r\n boundary=B0\r\n", t.Ctype)
		case "special": // a boundary out of the rarer boundary characters of RFC 2046 (unbalanced parentheses, +, ?, ...)
			delim = "=_Part(1_+?/:.,'2345"
			fmt.Fprintf(&b, "Content-Type: multipart/%s;\r\n boundary=\"%s\"\r\n", t.Ctype, delim)
		case "long70":
			delim = "++" + strings.Repeat("Boundary)", 7) + "(++++"
			fmt.Fprintf(&b, "Content-Type: multipart/%s;\r\n boundary=\"%s\"\r\n", t.Ctype, delim)
		case "absent":
			fmt.Fprintf(&b, "Content-Type: multipart/%s\r\n", t.Ctype)
		case "empty":
			fmt.Fprintf(&b, "Content-Type: multipart/%s; boundary=\"\"\r\n", t.Ctype)
		case "mismatch":
			fmt.Fprintf(&b, "Content-Type: multipart/%s; boundary=B0\r\n", t.Ctype)
			delim = "SOMETHING-ELSE"
		}
	}
	if !multi {
		b.WriteString(cteHeader(t.Cte))
	} else if t.Cte != "absent" {
		b.WriteString(cteHeader(t.Cte))
	}
	headerEnd := b.Len()
	b.WriteString("\r\n")
	if !multi {
		b.WriteString(body(t.Cte, "single part body = ü\r\nline two\r\n"))
	} else {
		b.WriteString("preamble line\r\n")
		for i, p := range in.Parts {
			fmt.Fprintf(&b, "--%s\r\n", delim)
			b.WriteString(partText(p, 0, i+1))
		}
		if t.Trunc != "noclose" {
			fmt.Fprintf(&b, "--%s--\r\n", delim)
		}
	}
	out := b.String()
	switch t.Trunc {
	case "header":
		out = out[:headerEnd-7]
	case "boundary":
		if k := strings.LastIndex(out, "--"+delim); k > 0 {
			out = out[:k+3]
		}
	case "body":
		if k := strings.LastIndex(out, "\r\n--"+delim); k > 8 {
			out = out[:k-6]
		}
	}
	return []byte(out)
}

// failReader fails at offset k (with err; nil = a read error).
type failReader struct {
	data []byte
	pos  int
	k    int
}

var errRead = errors.New("scripted reader failure")

func (f *failReader) Read(p []byte) (int, error) {
	if f.pos >= f.k {
		return 0, errRead
	}
	n := copy(p, f.data[f.pos:f.k])
	f.pos += n
	return n, nil
}

// Runner replays one scenario.
type Runner struct {
	Sc     Scenario
	Rec    *rec.Recorder
	T      int
	Seed   int64
	TmpDir string
	Infra  error
}

type outcome struct {
	kind                string
	parts, atts, embeds int
	text                string
}

func run(f func() (*mail.Msg, error)) outcome {
	ch := make(chan outcome, 1)
	go func() {
		defer func() {
			if r := recover(); r != nil {
				ch <- outcome{kind: "panic", text: fmt.Sprint(r)}
			}
		}()
		m, err := f()
		if err != nil {
			s := err.Error()
			if len(s) > 160 {
				s = s[:160]
			}
			ch <- outcome{kind: "err", text: s}
			return
		}
		if m == nil {
			ch <- outcome{kind: "nil", text: "nil message without error"}
			return
		}
		ch <- outcome{kind: "msg", parts: len(m.GetParts()), atts: len(m.GetAttachments()), embeds: len(m.GetEmbeds())}
	}()
	select {
	case o := <-ch:
		return o
	case <-time.After(5 * time.Second):
		return outcome{kind: "timeout", text: "parser did not return within 5 s"}
	}
}

func (rn *Runner) emit(entry string, variant string, o outcome) {
	rn.Rec.Emit("parse", "entry", entry, "variant", variant, "outcome", o.kind, "parts", o.parts, "atts", o.atts,
		"embeds", o.embeds, "text", o.text)
}

// Run replays the scenario.
func (rn *Runner) Run() {
	sc, r := rn.Sc, rn.Rec
	var inRaw interface{}
	b, _ := json.Marshal(sc.Input)
	_ = json.Unmarshal(b, &inRaw)
	pred := sc.Predict
	if len(pred) == 0 {
		pred = json.RawMessage(`{"out":"","parts":0,"atts":0,"embeds":0}`)
	}
	text := Text(sc.Input)
	r.Emit("begin", "t", rn.T, "scn", sc.ID, "input", inRaw, "predict", pred, "haspred", len(sc.Predict) > 0, "len", len(text))
	rn.emit("string", "exact", run(func() (*mail.Msg, error) { return mail.EMLToMsgFromString(string(text)) }))
	rn.emit("reader", "exact", run(func() (*mail.Msg, error) { return mail.EMLToMsgFromReader(bytes.NewReader(text)) }))
	path := filepath.Join(rn.TmpDir, fmt.Sprintf("eml-%d-%d.eml", rn.Seed, rn.T))
	if err := os.WriteFile(path, text, 0o600); err != nil {
		rn.Infra = err
		return
	}
	rn.emit("file", "exact", run(func() (*mail.Msg, error) { return mail.EMLToMsgFromFile(path) }))
	_ = os.Remove(path)
	// readers that fail at characteristic offsets (the thorough tier sweeps every offset)
	hdr := bytes.Index(text, []byte("\r\n\r\n"))
	if hdr < 0 {
		hdr = len(text) / 2
	}
	offs := []int{0, 1, hdr / 2, hdr, hdr + 2, hdr + 4, (hdr + len(text)) / 2, len(text) - 1, len(text)}
	if os.Getenv("VERIF_TIER") == "thorough" {
		offs = offs[:0]
		for k := 0; k <= len(text); k++ {
			offs = append(offs, k)
		}
	}
	for _, k := range offs {
		if k < 0 || k > len(text) {
			continue
		}
		kk := k
		rn.emit("reader", fmt.Sprintf("fail@%d", kk), run(func() (*mail.Msg, error) {
			return mail.EMLToMsgFromReader(&failReader{data: text, k: kk})
		}))
	}
	// seeded byte noise
	rng := rand.New(rand.NewSource(rn.Seed*104729 + int64(rn.T)))
	noise := []int{1, 3, 8}
	if os.Getenv("VERIF_TIER") == "thorough" { // forty mutations of every input instead of three
		for k := 0; k < 37; k++ {
			noise = append(noise, 1+k%9)
		}
	}
	for ni, edits := range noise {
		mut := append([]byte{}, text...)
		for e := 0; e < edits && len(mut) > 0; e++ {
			p := rng.Intn(len(mut))
			switch rng.Intn(4) {
			case 0:
				mut[p] = byte(rng.Intn(256))
			case 1:
				mut = append(mut[:p], mut[p+1:]...)
			case 2:
				mut = append(mut[:p], append([]byte{"\r\n-=;\":<>"[rng.Intn(9)]}, mut[p:]...)...)
			default:
				q := rng.Intn(len(mut))
				if q > p {
					mut = append(mut[:p], mut[q:]...)
				}
			}
		}
		m2 := mut
		rn.emit("string", fmt.Sprintf("noise%d-%d", edits, ni), run(func() (*mail.Msg, error) { return mail.EMLToMsgFromString(string(m2)) }))
	}
	r.Emit("end", "t", rn.T)
	r.Seal()
}

var _ = io.EOF
