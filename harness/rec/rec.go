// Package rec records observable events of one scenario as ndjson lines.
// It observes and never judges: events are appended in the order in which
// the (mutex-protected) Emit calls happen.
package rec

import (
	"encoding/json"
	"sync"
)

// Ev is one event; the key "ev" names its kind.
type Ev map[string]interface{}

// Recorder collects the events of one scenario.
type Recorder struct {
	mu   sync.Mutex
	evs  []Ev
	done bool
}

// New returns an empty recorder.
func New() *Recorder { return &Recorder{} }

// Emit appends an event.
func (r *Recorder) Emit(kind string, kv ...interface{}) {
	e := Ev{"ev": kind}
	for i := 0; i+1 < len(kv); i += 2 {
		e[kv[i].(string)] = kv[i+1]
	}
	r.mu.Lock()
	if !r.done {
		r.evs = append(r.evs, e)
	}
	r.mu.Unlock()
}

// Seal stops recording: late events of goroutines that outlive the scenario are dropped.
func (r *Recorder) Seal() {
	r.mu.Lock()
	r.done = true
	r.mu.Unlock()
}

// Events returns a copy of the recorded events.
func (r *Recorder) Events() []Ev {
	r.mu.Lock()
	defer r.mu.Unlock()
	out := make([]Ev, len(r.evs))
	copy(out, r.evs)
	return out
}

// Lines renders the events as ndjson.
func (r *Recorder) Lines() [][]byte { return Marshal(r.Events()) }

// Marshal renders events as ndjson lines.
func Marshal(evs []Ev) [][]byte {
	var out [][]byte
	for _, e := range evs {
		b, err := json.Marshal(e)
		if err != nil {
			panic(err)
		}
		out = append(out, b)
	}
	return out
}
