// Package pipeconn is an in-memory, full-duplex net.Conn pair with unbounded
// buffering in both directions (like a TCP connection on loopback, unlike
// net.Pipe, whose unbuffered writes let two peers that write at the same time
// block each other).  Deadlines and close semantics follow net.Conn.
package pipeconn

import (
	"io"
	"net"
	"os"
	"sync"
	"time"
)

// Limit is the capacity of one direction in bytes (0 = unbounded): like a socket buffer, a
// writer blocks while the peer does not read.
var Limit = 0

type half struct {
	mu     sync.Mutex
	cond   *sync.Cond
	buf    []byte
	wclose bool // writer closed: reader sees EOF after draining
	rclose bool // reader closed: writer sees an error
}

func newHalf() *half {
	h := &half{}
	h.cond = sync.NewCond(&h.mu)
	return h
}

type addr struct{}

func (addr) Network() string { return "pipeconn" }
func (addr) String() string  { return "pipeconn" }

// Conn is one end of the pair.
type Conn struct {
	rd, wr *half
	mu     sync.Mutex
	rdl    time.Time
	wdl    time.Time
	closed bool
	timer  *time.Timer
}

// Pipe returns a connected pair.
func Pipe() (*Conn, *Conn) {
	a, b := newHalf(), newHalf()
	return &Conn{rd: a, wr: b}, &Conn{rd: b, wr: a}
}

func (c *Conn) Read(p []byte) (int, error) {
	h := c.rd
	h.mu.Lock()
	defer h.mu.Unlock()
	for {
		c.mu.Lock()
		closed, dl := c.closed, c.rdl
		c.mu.Unlock()
		if closed {
			return 0, io.ErrClosedPipe
		}
		if len(h.buf) > 0 {
			n := copy(p, h.buf)
			h.buf = h.buf[n:]
			h.cond.Broadcast()
			return n, nil
		}
		if h.wclose {
			return 0, io.EOF
		}
		if !dl.IsZero() && !time.Now().Before(dl) {
			return 0, os.ErrDeadlineExceeded
		}
		if !dl.IsZero() {
			t := time.AfterFunc(time.Until(dl)+time.Millisecond, func() {
				h.mu.Lock()
				h.cond.Broadcast()
				h.mu.Unlock()
			})
			h.cond.Wait()
			t.Stop()
		} else {
			h.cond.Wait()
		}
	}
}

func (c *Conn) Write(p []byte) (int, error) {
	c.mu.Lock()
	closed, dl := c.closed, c.wdl
	c.mu.Unlock()
	if closed {
		return 0, io.ErrClosedPipe
	}
	if !dl.IsZero() && !time.Now().Before(dl) {
		return 0, os.ErrDeadlineExceeded
	}
	h := c.wr
	h.mu.Lock()
	defer h.mu.Unlock()
	written := 0
	for {
		if h.rclose || h.wclose {
			return written, io.ErrClosedPipe
		}
		c.mu.Lock()
		closed, dl = c.closed, c.wdl
		c.mu.Unlock()
		if closed {
			return written, io.ErrClosedPipe
		}
		room := len(p) - written
		if Limit > 0 {
			room = Limit - len(h.buf)
			if room > len(p)-written {
				room = len(p) - written
			}
		}
		if room > 0 {
			h.buf = append(h.buf, p[written:written+room]...)
			written += room
			h.cond.Broadcast()
			if written == len(p) {
				return written, nil
			}
			continue
		}
		if !dl.IsZero() && !time.Now().Before(dl) {
			return written, os.ErrDeadlineExceeded
		}
		if !dl.IsZero() {
			t := time.AfterFunc(time.Until(dl)+time.Millisecond, func() {
				h.mu.Lock()
				h.cond.Broadcast()
				h.mu.Unlock()
			})
			h.cond.Wait()
			t.Stop()
		} else {
			h.cond.Wait()
		}
	}
}

// Close closes both directions of this end.
func (c *Conn) Close() error {
	c.mu.Lock()
	if c.closed {
		c.mu.Unlock()
		return nil
	}
	c.closed = true
	c.mu.Unlock()
	c.wr.mu.Lock()
	c.wr.wclose = true
	c.wr.cond.Broadcast()
	c.wr.mu.Unlock()
	c.rd.mu.Lock()
	c.rd.rclose = true
	c.rd.cond.Broadcast()
	c.rd.mu.Unlock()
	return nil
}

func (c *Conn) LocalAddr() net.Addr  { return addr{} }
func (c *Conn) RemoteAddr() net.Addr { return addr{} }

func (c *Conn) SetDeadline(t time.Time) error {
	c.mu.Lock()
	c.rdl, c.wdl = t, t
	c.mu.Unlock()
	c.wake()
	c.wr.mu.Lock()
	c.wr.cond.Broadcast()
	c.wr.mu.Unlock()
	return nil
}

func (c *Conn) SetReadDeadline(t time.Time) error {
	c.mu.Lock()
	c.rdl = t
	c.mu.Unlock()
	c.wake()
	return nil
}

func (c *Conn) SetWriteDeadline(t time.Time) error {
	c.mu.Lock()
	c.wdl = t
	c.mu.Unlock()
	c.wr.mu.Lock()
	c.wr.cond.Broadcast()
	c.wr.mu.Unlock()
	return nil
}

func (c *Conn) wake() {
	c.rd.mu.Lock()
	c.rd.cond.Broadcast()
	c.rd.mu.Unlock()
}
