// Package smtpfam replays call histories of the low-level smtp.Client (SmtpCalls.tla): Hello, Noop, Reset, Verify,
// Mail, Rcpt, Data, Quit, Close and the query / option calls in any order the design model enumerates, against the
// reference server, which may refuse EHLO (HELO fallback) or both. It records what every call returned and the
// command lines the server read while it ran.
package smtpfam

import (
	"crypto/tls"
	"errors"
	"fmt"
	"time"

	"github.com/wneessen/go-mail/smtp"

	"verif/harness/pipeconn"
	"verif/harness/rec"
	"verif/harness/refsmtp"
)

// Call is one step of a history.
type Call struct {
	Op   string `json:"op"`
	Arg  string `json:"arg"`  // argument class: "" (no argument), ok, crlf, space
	Arg2 string `json:"arg2"` // Extension: the keyword asked for
}

// Env is the behaviour of the server.
type Env struct {
	Ehlo string   `json:"ehlo"` // ok, ehlo5 (EHLO refused, HELO accepted), both5
	Caps []string `json:"caps"`
}

// Scenario is one history.
type Scenario struct {
	ID  string `json:"id"`
	Ops []Call `json:"ops"`
	Env Env    `json:"env"`
}

// Runner replays one scenario.
type Runner struct {
	Sc    Scenario
	Rec   *rec.Recorder
	T      int
	TLSDir string
	Infra  error
}

func argOf(op, cls string, k int) string {
	base := map[string]string{"Hello": "client.test", "Verify": fmt.Sprintf("user%d@to.test", k), "Mail": "sender@from.test",
		"Rcpt": fmt.Sprintf("rcpt%d@to.test", k)}[op]
	switch cls {
	case "crlf":
		return base + "\r\nRSET"
	case "space":
		return "client test"
	}
	return base
}

// Run replays the history.
func (rn *Runner) Run() {
	sc, r := rn.Sc, rn.Rec
	opsRaw := make([]interface{}, len(sc.Ops))
	for i, o := range sc.Ops {
		opsRaw[i] = map[string]interface{}{"op": o.Op, "arg": o.Arg, "arg2": o.Arg2}
	}
	caps := sc.Env.Caps
	if caps == nil {
		caps = []string{}
	}
	r.Emit("begin", "t", rn.T, "scn", sc.ID, "ops", opsRaw, "env", map[string]interface{}{"ehlo": sc.Env.Ehlo, "caps": caps})
	faults := map[refsmtp.Key]refsmtp.Fault{}
	if sc.Env.Ehlo != "ok" {
		faults[refsmtp.Key{V: "EHLO", M: 0, R: 1}] = refsmtp.Fault{K: 1, Class: "p5", Shape: "none", Rot: 51}
	}
	if sc.Env.Ehlo == "both5" {
		faults[refsmtp.Key{V: "HELO", M: 0, R: 1}] = refsmtp.Fault{K: 1, Class: "p5", Shape: "none", Rot: 52}
	}
	mat, merr := refsmtp.Material(rn.TLSDir)
	if merr != nil {
		rn.Infra = merr
		return
	}
	srv := refsmtp.New(refsmtp.Config{Caps: caps, Faults: faults, Addr: map[string][2]int{}, Expected: map[int][]byte{},
		TLS: mat.ServerConfig("ok", tls.VersionTLS13)}, r)
	cl, sv := pipeconn.Pipe()
	srv.Go(sv)
	_ = cl.SetDeadline(time.Now().Add(30 * time.Second))
	c, err := smtp.NewClient(cl, "mail.example.test")
	if err != nil {
		rn.Infra = fmt.Errorf("greeting: %w", err)
		return
	}
	for k, o := range sc.Ops {
		r.Emit("call", "k", k+1, "op", o.Op, "arg", o.Arg, "arg2", o.Arg2)
		var oerr error
		res := ""
		done := make(chan struct{})
		go func() {
			defer close(done)
			defer func() {
				if p := recover(); p != nil {
					oerr = fmt.Errorf("panic: %v", p)
					res = "panic"
				}
			}()
			switch o.Op {
			case "Hello":
				oerr = c.Hello(argOf("Hello", o.Arg, k))
			case "Noop":
				oerr = c.Noop()
			case "Reset":
				oerr = c.Reset()
			case "Verify":
				oerr = c.Verify(argOf("Verify", o.Arg, k))
			case "Mail":
				oerr = c.Mail(argOf("Mail", o.Arg, k))
			case "Rcpt":
				oerr = c.Rcpt(argOf("Rcpt", o.Arg, k))
			case "Data":
				w, derr := c.Data()
				if derr != nil {
					oerr = derr
					break
				}
				if _, werr := w.Write([]byte("Subject: call history\r\n\r\nbody\r\n.dot line\r\n")); werr != nil {
					oerr = werr
					break
				}
				oerr = w.Close()
			case "StartTLS":
				oerr = c.StartTLS(&tls.Config{ServerName: "mail.example.test", RootCAs: mat.Pool, MinVersion: tls.VersionTLS12})
			case "TLSState":
				_, ok := c.TLSConnectionState()
				res = map[bool]string{true: "yes", false: "no"}[ok]
			case "GetTLSState":
				_, oerr = c.GetTLSConnectionState()
			case "Quit":
				oerr = c.Quit()
			case "Close":
				oerr = c.Close()
			case "Extension":
				ok, _ := c.Extension(o.Arg2)
				res = map[bool]string{true: "yes", false: "no"}[ok]
			case "HasConnection":
				res = map[bool]string{true: "yes", false: "no"}[c.HasConnection()]
			case "UpdateDeadline":
				oerr = c.UpdateDeadline(30 * time.Second)
			case "SetRet":
				c.SetDSNMailReturnOption("FULL")
			case "SetNotify":
				c.SetDSNRcptNotifyOption("FAILURE,SUCCESS")
			default:
				oerr = fmt.Errorf("unknown op %q", o.Op)
				res = "unknown"
			}
		}()
		select {
		case <-done:
		case <-time.After(40 * time.Second):
			srv.Kill()
			<-done
			rn.Infra = fmt.Errorf("call %d (%s) did not return", k+1, o.Op)
			return
		}
		if res == "unknown" {
			rn.Infra = oerr
			return
		}
		text := ""
		if oerr != nil {
			text = oerr.Error()
			if len(text) > 160 {
				text = text[:160]
			}
		}
		r.Emit("ret", "k", k+1, "op", o.Op, "arg", o.Arg, "err", oerr != nil, "res", res, "text", text)
	}
	_ = cl.Close()
	srv.Kill()
	if !srv.Wait(10 * time.Second) {
		rn.Infra = errors.New("server goroutines did not finish")
	}
	r.Emit("end", "t", rn.T)
	r.Seal()
}
