// Package sasl holds independent reference implementations of the server side
// of the SASL mechanisms go-mail speaks: PLAIN (RFC 4616), LOGIN, CRAM-MD5
// (RFC 2195), XOAUTH2 and SCRAM-SHA-1/-256(-PLUS) (RFC 5802, 7677, 5929, 9266).
// They are written against the RFCs, not against go-mail, and are validated
// on the RFC test vectors (sasl_test.go).
package sasl

import (
	"bytes"
	"crypto/hmac"
	"crypto/md5"
	"crypto/sha1"
	"crypto/sha256"
	"crypto/tls"
	"encoding/base64"
	"encoding/hex"
	"fmt"
	"hash"
	"strconv"
	"strings"
)

// PBKDF2 implements RFC 8018 PBKDF2 with HMAC-h.
func PBKDF2(h func() hash.Hash, password, salt []byte, iter, keyLen int) []byte {
	prf := hmac.New(h, password)
	hl := prf.Size()
	var out []byte
	for block := 1; len(out) < keyLen; block++ {
		prf.Reset()
		prf.Write(salt)
		prf.Write([]byte{byte(block >> 24), byte(block >> 16), byte(block >> 8), byte(block)})
		u := prf.Sum(nil)
		t := make([]byte, hl)
		copy(t, u)
		for i := 1; i < iter; i++ {
			prf.Reset()
			prf.Write(u)
			u = prf.Sum(nil)
			for k := range t {
				t[k] ^= u[k]
			}
		}
		out = append(out, t...)
	}
	return out[:keyLen]
}

func hm(h func() hash.Hash, key, msg []byte) []byte {
	m := hmac.New(h, key)
	m.Write(msg)
	return m.Sum(nil)
}

func hsum(h func() hash.Hash, b []byte) []byte {
	x := h()
	x.Write(b)
	return x.Sum(nil)
}

// Creds is what the reference server knows about the one account.
type Creds struct {
	User, Pass string
}

// Verdict of a finished exchange.
type Verdict struct {
	Done     bool
	Accepted bool
	Why      string
}

// Step is one server message: Code 334 (continue, Text is the base64 challenge),
// 235 (accepted), 535 / 501 (rejected).
type Step struct {
	Code int
	Text string
}

func b64(b []byte) string { return base64.StdEncoding.EncodeToString(b) }

// ---------------------------------------------------------------------------
// PLAIN, RFC 4616: message = [authzid] NUL authcid NUL passwd

// VerifyPlain checks an initial response.
func VerifyPlain(c Creds, msg []byte) (bool, string) {
	parts := bytes.Split(msg, []byte{0})
	if len(parts) != 3 {
		return false, "PLAIN message must have exactly two NUL separators"
	}
	if len(parts[0]) != 0 && string(parts[0]) != c.User {
		return false, "authorization identity differs"
	}
	if string(parts[1]) != c.User {
		return false, "wrong authentication identity"
	}
	if string(parts[2]) != c.Pass {
		return false, "wrong password"
	}
	return true, ""
}

// ---------------------------------------------------------------------------
// CRAM-MD5, RFC 2195: response = user SP hex(HMAC-MD5(secret, challenge))

// VerifyCramMD5 checks a response to challenge.
func VerifyCramMD5(c Creds, challenge string, resp []byte) (bool, string) {
	i := bytes.LastIndexByte(resp, ' ')
	if i < 0 {
		return false, "no space in CRAM-MD5 response"
	}
	user, dig := string(resp[:i]), string(resp[i+1:])
	want := hex.EncodeToString(hm(md5.New, []byte(c.Pass), []byte(challenge)))
	if user != c.User {
		return false, "wrong user"
	}
	if dig != want {
		return false, "wrong digest"
	}
	return true, ""
}

// ---------------------------------------------------------------------------
// XOAUTH2: "user=" user ^A "auth=Bearer " token ^A ^A

// VerifyXOAuth2 checks an initial response.
func VerifyXOAuth2(c Creds, msg []byte) (bool, string) {
	want := "user=" + c.User + "\x01auth=Bearer " + c.Pass + "\x01\x01"
	if string(msg) != want {
		return false, "wrong XOAUTH2 message"
	}
	return true, ""
}

// ---------------------------------------------------------------------------
// SCRAM, RFC 5802

// ScramParams fixes the server's choices for one exchange.
type ScramParams struct {
	Hash        func() hash.Hash
	Plus        bool
	Salt        []byte
	Iter        int
	NonceSuffix string
	// Extension: optional extension attributes appended to the server-first message (RFC 5802 section 7: a client
	// ignores attributes it does not know), e.g. "x=opt"
	Extension string
	// TLS is the server side connection state (PLUS variants).
	TLS *tls.ConnectionState
}

// HashFor returns the hash of a mechanism name.
func HashFor(mech string) func() hash.Hash {
	if strings.Contains(mech, "SHA-256") {
		return sha256.New
	}
	return sha1.New
}

// SaslName decodes the RFC 5802 escaping of a user name: "=2C" -> ",", "=3D" -> "=".
func SaslName(s string) (string, bool) {
	var b strings.Builder
	for i := 0; i < len(s); i++ {
		if s[i] == '=' {
			if i+3 > len(s) {
				return "", false
			}
			switch s[i : i+3] {
			case "=2C":
				b.WriteByte(',')
			case "=3D":
				b.WriteByte('=')
			default:
				return "", false
			}
			i += 2
			continue
		}
		if s[i] == ',' {
			return "", false
		}
		b.WriteByte(s[i])
	}
	return b.String(), true
}

// ScramServer is the honest reference server of one SCRAM exchange.
type ScramServer struct {
	C Creds
	P ScramParams
	// NormPass is the password after the string preparation the server applies
	// (the stored credential); the caller supplies it (C14 scope decision).
	NormPass string
	NormUser string

	gs2Header       string
	clientFirstBare string
	serverFirst     string
	nonce           string
	ClientNonce     string
	salted          []byte
	Verdict         Verdict
}

// ServerFirst consumes client-first-message and produces server-first-message.
func (s *ScramServer) ServerFirst(clientFirst []byte) (string, error) {
	msg := string(clientFirst)
	// gs2-header = gs2-cbind-flag "," [authzid] ","
	parts := strings.SplitN(msg, ",", 3)
	if len(parts) != 3 {
		return "", fmt.Errorf("client-first: gs2 header incomplete")
	}
	flag, authzid, bare := parts[0], parts[1], parts[2]
	switch {
	case flag == "n" || flag == "y":
		if s.P.Plus {
			return "", fmt.Errorf("client-first: PLUS mechanism without channel binding (flag %q)", flag)
		}
	case strings.HasPrefix(flag, "p="):
		if !s.P.Plus {
			return "", fmt.Errorf("client-first: channel binding on a non-PLUS mechanism")
		}
	default:
		return "", fmt.Errorf("client-first: bad gs2-cbind-flag %q", flag)
	}
	if authzid != "" {
		return "", fmt.Errorf("client-first: unexpected authzid")
	}
	s.gs2Header = flag + "," + authzid + ","
	s.clientFirstBare = bare
	attrs := strings.Split(bare, ",")
	if len(attrs) < 2 || !strings.HasPrefix(attrs[0], "n=") || !strings.HasPrefix(attrs[1], "r=") {
		return "", fmt.Errorf("client-first-bare must start with n=,r=")
	}
	user, ok := SaslName(attrs[0][2:])
	if !ok {
		return "", fmt.Errorf("client-first: bad saslname %q", attrs[0][2:])
	}
	if user != s.NormUser {
		s.Verdict = Verdict{Why: "unknown user " + strconv.Quote(user)}
		// RFC 5802 lets the server continue with a fake salt; the reference server fails at the end
	}
	s.ClientNonce = attrs[1][2:]
	if s.ClientNonce == "" {
		return "", fmt.Errorf("client-first: empty nonce")
	}
	s.nonce = s.ClientNonce + s.P.NonceSuffix
	s.serverFirst = "r=" + s.nonce + ",s=" + b64(s.P.Salt) + ",i=" + strconv.Itoa(s.P.Iter)
	if s.P.Extension != "" {
		s.serverFirst += "," + s.P.Extension
	}
	return s.serverFirst, nil
}

// ChannelBindingData returns the cbind-data the server expects for the named type.
func (s *ScramServer) ChannelBindingData(typ string) ([]byte, error) {
	if s.P.TLS == nil {
		return nil, fmt.Errorf("no TLS state for channel binding")
	}
	switch typ {
	case "tls-unique":
		if s.P.TLS.Version >= tls.VersionTLS13 {
			return nil, fmt.Errorf("tls-unique is not defined for TLS 1.3 (RFC 9266)")
		}
		return s.P.TLS.TLSUnique, nil
	case "tls-exporter":
		return s.P.TLS.ExportKeyingMaterial("EXPORTER-Channel-Binding", nil, 32)
	}
	return nil, fmt.Errorf("unsupported channel binding type %q", typ)
}

// ServerFinal consumes client-final-message; on success returns "v=..." else an error text "e=...".
func (s *ScramServer) ServerFinal(clientFinal []byte) (string, bool) {
	msg := string(clientFinal)
	i := strings.LastIndex(msg, ",p=")
	if i < 0 {
		s.Verdict = Verdict{Done: true, Why: "client-final without proof"}
		return "e=invalid-encoding", false
	}
	withoutProof, proof64 := msg[:i], msg[i+3:]
	attrs := strings.Split(withoutProof, ",")
	if len(attrs) < 2 || !strings.HasPrefix(attrs[0], "c=") || !strings.HasPrefix(attrs[1], "r=") {
		s.Verdict = Verdict{Done: true, Why: "client-final must start with c=,r="}
		return "e=invalid-encoding", false
	}
	cb, err := base64.StdEncoding.DecodeString(attrs[0][2:])
	if err != nil {
		s.Verdict = Verdict{Done: true, Why: "c= is not base64"}
		return "e=invalid-encoding", false
	}
	want := []byte(s.gs2Header)
	if s.P.Plus {
		typ := strings.TrimPrefix(strings.SplitN(s.gs2Header, ",", 2)[0], "p=")
		data, err := s.ChannelBindingData(typ)
		if err != nil {
			s.Verdict = Verdict{Done: true, Why: err.Error()}
			return "e=channel-binding-not-supported", false
		}
		want = append(want, data...)
	}
	if !bytes.Equal(cb, want) {
		s.Verdict = Verdict{Done: true, Why: "channel binding data does not match"}
		return "e=channel-bindings-dont-match", false
	}
	if attrs[1][2:] != s.nonce {
		s.Verdict = Verdict{Done: true, Why: "nonce mismatch in client-final"}
		return "e=invalid-proof", false
	}
	proof, err := base64.StdEncoding.DecodeString(proof64)
	if err != nil {
		s.Verdict = Verdict{Done: true, Why: "proof is not base64"}
		return "e=invalid-encoding", false
	}
	h := s.P.Hash
	s.salted = PBKDF2(h, []byte(s.NormPass), s.P.Salt, s.P.Iter, h().Size())
	clientKey := hm(h, s.salted, []byte("Client Key"))
	storedKey := hsum(h, clientKey)
	authMessage := s.clientFirstBare + "," + s.serverFirst + "," + withoutProof
	clientSig := hm(h, storedKey, []byte(authMessage))
	if len(proof) != len(clientSig) {
		s.Verdict = Verdict{Done: true, Why: "proof has wrong length"}
		return "e=invalid-proof", false
	}
	rec := make([]byte, len(proof))
	for k := range proof {
		rec[k] = proof[k] ^ clientSig[k]
	}
	if !hmac.Equal(hsum(h, rec), storedKey) || s.Verdict.Why != "" {
		why := s.Verdict.Why
		if why == "" {
			why = "client proof does not verify"
		}
		s.Verdict = Verdict{Done: true, Why: why}
		return "e=invalid-proof", false
	}
	serverKey := hm(h, s.salted, []byte("Server Key"))
	s.Verdict = Verdict{Done: true, Accepted: true}
	return "v=" + b64(hm(h, serverKey, []byte(authMessage))), true
}

// ServerSignatureFor computes "v=..." for arbitrary inputs (used by adversarial scripts).
func ServerSignatureFor(h func() hash.Hash, pass string, salt []byte, iter int, authMessage string) string {
	var salted []byte
	if iter > 0 {
		salted = PBKDF2(h, []byte(pass), salt, iter, h().Size())
	}
	serverKey := hm(h, salted, []byte("Server Key"))
	return "v=" + b64(hm(h, serverKey, []byte(authMessage)))
}
