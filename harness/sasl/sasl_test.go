package sasl

import (
	"crypto/sha1"
	"crypto/sha256"
	"encoding/base64"
	"encoding/hex"
	"testing"
)

// RFC 6070 vectors.
func TestPBKDF2(t *testing.T) {
	for _, v := range []struct {
		p, s string
		c, l int
		hex  string
	}{
		{"password", "salt", 1, 20, "0c60c80f961f0e71f3a9b524af6012062fe037a6"},
		{"password", "salt", 2, 20, "ea6c014dc72d6f8ccd1ed92ace1d41f0d8de8957"},
		{"password", "salt", 4096, 20, "4b007901b765489abead49d926f721d065a429c1"},
		{"passwordPASSWORDpassword", "saltSALTsaltSALTsaltSALTsaltSALTsalt", 4096, 25, "3d2eec4fe41c849b80c8d83662c0e44a8b291a964cf2f07038"},
	} {
		if got := hex.EncodeToString(PBKDF2(sha1.New, []byte(v.p), []byte(v.s), v.c, v.l)); got != v.hex {
			t.Errorf("pbkdf2 %q %d: %s", v.p, v.c, got)
		}
	}
	// RFC 7914 section 11 (HMAC-SHA-256)
	if got := hex.EncodeToString(PBKDF2(sha256.New, []byte("passwd"), []byte("salt"), 1, 64)); got !=
		"55ac046e56e3089fec1691c22544b605f94185216dde0465e68b9d57c20dacbc49ca9cccf179b645991664b39d77ef317c71b845b1e30bd509112041d3a19783" {
		t.Errorf("pbkdf2-sha256: %s", got)
	}
}

// RFC 5802 section 5 example.
func TestScramSHA1Vector(t *testing.T) {
	salt, _ := base64.StdEncoding.DecodeString("QSXCR+Q6sek8bf92")
	s := &ScramServer{C: Creds{"user", "pencil"}, NormUser: "user", NormPass: "pencil",
		P: ScramParams{Hash: sha1.New, Salt: salt, Iter: 4096, NonceSuffix: "3rfcNHYJY1ZVvWVs7j"}}
	sf, err := s.ServerFirst([]byte("n,,n=user,r=fyko+d2lbbFgONRv9qkxdawL"))
	if err != nil || sf != "r=fyko+d2lbbFgONRv9qkxdawL3rfcNHYJY1ZVvWVs7j,s=QSXCR+Q6sek8bf92,i=4096" {
		t.Fatalf("server-first: %q %v", sf, err)
	}
	fin, ok := s.ServerFinal([]byte("c=biws,r=fyko+d2lbbFgONRv9qkxdawL3rfcNHYJY1ZVvWVs7j,p=v0X8v3Bz2T0CJGbJQyF0X+HI4Ts="))
	if !ok || fin != "v=rmF9pqV8S7suAoZWja4dJRkFsKQ=" {
		t.Fatalf("server-final: %q %v %+v", fin, ok, s.Verdict)
	}
	// wrong proof
	s2 := &ScramServer{C: Creds{"user", "pencil"}, NormUser: "user", NormPass: "pencil2",
		P: ScramParams{Hash: sha1.New, Salt: salt, Iter: 4096, NonceSuffix: "3rfcNHYJY1ZVvWVs7j"}}
	_, _ = s2.ServerFirst([]byte("n,,n=user,r=fyko+d2lbbFgONRv9qkxdawL"))
	if _, ok := s2.ServerFinal([]byte("c=biws,r=fyko+d2lbbFgONRv9qkxdawL3rfcNHYJY1ZVvWVs7j,p=v0X8v3Bz2T0CJGbJQyF0X+HI4Ts=")); ok {
		t.Fatal("wrong password accepted")
	}
}

// RFC 7677 section 3 example.
func TestScramSHA256Vector(t *testing.T) {
	salt, _ := base64.StdEncoding.DecodeString("W22ZaJ0SNY7soEsUEjb6gQ==")
	s := &ScramServer{C: Creds{"user", "pencil"}, NormUser: "user", NormPass: "pencil",
		P: ScramParams{Hash: sha256.New, Salt: salt, Iter: 4096, NonceSuffix: "%hvYDpWUa2RaTCAfuxFIlj)hNlF$k0"}}
	sf, err := s.ServerFirst([]byte("n,,n=user,r=rOprNGfwEbeRWgbNEkqO"))
	if err != nil || sf != "r=rOprNGfwEbeRWgbNEkqO%hvYDpWUa2RaTCAfuxFIlj)hNlF$k0,s=W22ZaJ0SNY7soEsUEjb6gQ==,i=4096" {
		t.Fatalf("server-first: %q %v", sf, err)
	}
	fin, ok := s.ServerFinal([]byte("c=biws,r=rOprNGfwEbeRWgbNEkqO%hvYDpWUa2RaTCAfuxFIlj)hNlF$k0,p=dHzbZapWIk4jUhN+Ute9ytag9zjfMHgsqmmiz7AndVQ="))
	if !ok || fin != "v=6rriTRBi23WpRR/wtup+mMhUZUn/dB5nLTJRsjl95G4=" {
		t.Fatalf("server-final: %q %v %+v", fin, ok, s.Verdict)
	}
}

// RFC 2195 section 2 example.
func TestCramMD5Vector(t *testing.T) {
	ok, why := VerifyCramMD5(Creds{"tim", "tanstaaftanstaaf"}, "<1896.697170952@postoffice.reston.mci.net>",
		[]byte("tim b913a602c7eda7a495b4e6e7334d3890"))
	if !ok {
		t.Fatal(why)
	}
}

func TestPlainAndSaslName(t *testing.T) {
	if ok, _ := VerifyPlain(Creds{"tim", "tanstaaftanstaaf"}, []byte("\x00tim\x00tanstaaftanstaaf")); !ok {
		t.Fatal("RFC 4616 example rejected")
	}
	if ok, _ := VerifyPlain(Creds{"tim", "x"}, []byte("\x00tim\x00x\x00y")); ok {
		t.Fatal("extra NUL accepted")
	}
	if n, ok := SaslName("a=2Cb=3Dc"); !ok || n != "a,b=c" {
		t.Fatalf("saslname: %q %v", n, ok)
	}
	if _, ok := SaslName("a=b"); ok {
		t.Fatal("bad escape accepted")
	}
}
